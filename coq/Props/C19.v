(* C19 -- Malformed input from the peer is contained on both sides.
   Property statements only; proofs live in Proofs/Parsers.v.
   Everything is quantified over ALL byte strings / line lists (list Z of any length and
   content), every codec `dec` (None = UnicodeDecodeError), every line limit, and every date
   parser `ls_date` / `win_date` (the strptime-based library calls are parameters of the model)
   whose exceptions stay inside the funnel (they raise only ValueError: checked on every input
   of the correspondence). *)
From Coq Require Import ZArith List Bool.
From Verif Require Import Lib.Sx Lib.PyStr Lib.PyStr3 Lib.Facts Model.Framing Model.Parsers Proofs.Parsers.
From Verif Require Import Proofs.ParsersExact.
From Verif Require Import Gen.Dispatch.
From Verif Require Import Proofs.ParserFacts.
From Verif Require Gen.ParserFacts.
From Verif Require Gen.RegexInventory.
Import ListNotations.
Open Scope Z_scope.

(* For listing lines always the documented ValueError: parse_list_line returns a value or raises
   exactly ValueError, on every byte string (each inner parser's classes -- UnicodeDecodeError,
   IndexError, KeyError, ValueError -- are inside the (ValueError, KeyError, IndexError) funnel). *)
Theorem C19_list_line_value_error_only :
  forall (dec : list Z -> option text) (ls_date win_date : text -> result text),
  (forall s, allowed funnel (ls_date s)) ->
  (forall s, allowed funnel (win_date s)) ->
  forall b : list Z,
    (exists v, parse_list_line dec ls_date win_date b = Ok v)
    \/ parse_list_line dec ls_date win_date b = Exc ValueError.
Proof. exact list_line_value_error_only. Qed.
Print Assumptions C19_list_line_value_error_only.

(* ... and what it returns always carries a type fact (so Client.list never raises KeyError
   in LIST mode) *)
Theorem C19_list_line_typed :
  forall dec ls_date win_date b, ok_sat has_type (parse_list_line dec ls_date win_date b).
Proof. exact list_line_has_type. Qed.
Print Assumptions C19_list_line_typed.

(* Every other parser returns a value or an ordinary exception from a stated finite set:
     parse_unix_mode {KeyError, IndexError, ValueError}; parse_mlsx_line {ValueError (no
     pathname), UnicodeDecodeError}; parse_pasv_response, parse_epsv_response {ValueError,
     IndexError}; Client.stat's MLST half {IndexError, ValueError}; the unix / windows line parsers {funnel}; parse_directory_response is a total
     function to a path (no exception at all: its type says so).  All of them are total Gallina
     functions by structural recursion on the input (no fuel): the Python loops they stand for
     are `for ch in s`, re.finditer / findall over a finite string, and str methods. *)
Theorem C19_parsers_ordinary :
  (forall s, allowed mode_set (parse_unix_mode s))
  /\ (forall dec b, allowed value_error (parse_mlsx_line dec b))
  /\ (forall s, allowed passive_set (parse_pasv_response s))
  /\ (forall s, allowed passive_set (parse_epsv_response s))
  /\ (forall info, allowed passive_set (stat_mlst info))
  /\ (forall dec ls_date b, (forall s, allowed funnel (ls_date s)) ->
                            allowed funnel (parse_list_line_unix dec ls_date b))
  /\ (forall dec win_date b, (forall s, allowed funnel (win_date s)) ->
                             allowed funnel (parse_list_line_windows dec win_date b))
  /\ (forall e, (mode_set e || value_error e || passive_set e || funnel e
                 || reply_set e) = true -> ordinary e = true).
Proof. exact parsers_ordinary. Qed.
Print Assumptions C19_parsers_ordinary.

(* parse_response on the lines of ANY finite byte stream terminates (structural recursion: one
   line per iteration) with a value, StatusCodeError, ConnectionResetError, UnicodeDecodeError or
   the ValueError of an over-long line; what it read is a prefix of the stream, at least one line
   of it. *)
Theorem C19_reply_loop_terminates :
  forall dec limit (ls : list (list Z)),
    rclass_ok (reply_parse dec limit ls) /\ consumes ls (reply_parse dec limit ls).
Proof. exact reply_parse_spec. Qed.
Print Assumptions C19_reply_loop_terminates.

(* on lines within the limit that decode it is exactly the C06 model of parse_response *)
Theorem C19_reply_loop_is_framing :
  forall dec limit ls ts,
    Forall2 (reads dec limit) ls ts ->
    same_outcome dec limit (Framing.parse_response ts) (reply_parse dec limit ls).
Proof. exact reply_parse_framing. Qed.
Print Assumptions C19_reply_loop_is_framing.

(* The lister of Client.list: each iteration ends the listing, or consumes one line of the data
   connection (queueing at most one directory), or pops one queued directory and one answer of
   the server ... *)
Theorem C19_lister_progress :
  forall (L : Type) (parse : bool -> L -> result (text * dict)) rec cur mode lines queue sc acc reqs,
    (forall f, lister_loop L parse (S f) rec cur mode lines queue sc acc reqs
               = lister_loop L parse 1 rec cur mode lines queue sc acc reqs
               /\ ending (lister_loop L parse 1 rec cur mode lines queue sc acc reqs) <> LFuel)
    \/ exists cur' mode' lines' queue' sc' acc' reqs',
         lprogress L lines queue sc lines' queue' sc'
         /\ forall f, lister_loop L parse (S f) rec cur mode lines queue sc acc reqs
                      = lister_loop L parse f rec cur' mode' lines' queue' sc' acc' reqs'.
Proof. exact lister_progress. Qed.
Print Assumptions C19_lister_progress.

(* ... hence on EVERY finite script of server answers (any line parser, recursive or not, any
   content incl. '.' and '..' entries, any depth) Client.list terminates: the fuel, which stands
   for the Python `while True`, is never exhausted *)
Theorem C19_lister_terminates :
  forall (L : Type) (parse : bool -> L -> result (text * dict)) rec path (sc : script L),
    ending (run_lister L parse rec path sc) <> LFuel.
Proof. exact run_lister_terminates. Qed.
Print Assumptions C19_lister_terminates.

(* '.' and '..' are never yielded nor queued: no yielded entry is named '.' or '..', and every
   directory the client ever asks for is the one it was given or the path of a yielded,
   non-dot directory entry *)
Theorem C19_dots_never_yielded_nor_queued :
  forall (L : Type) (parse : bool -> L -> result (text * dict)) rec path (sc : script L),
    let r := run_lister L parse rec path sc in
    Forall nodot (yields r) /\ Forall (from_yield path (yields r)) (requests r).
Proof. exact dots_never_yielded_nor_queued. Qed.
Print Assumptions C19_dots_never_yielded_nor_queued.

(* FULL ("for listing lines always the documented ValueError"): in MLSD and LIST mode alike
   Client.list ends normally; with ValueError (or its subclass UnicodeDecodeError) from a line
   -- including a line without a type fact --; or with the server's refusal (StatusCodeError).
   Never KeyError (F12b, repaired), never anything else. *)
Theorem C19_listing_value_error :
  forall dec ls_date win_date limit,
  (forall s, allowed funnel (ls_date s)) -> (forall s, allowed funnel (win_date s)) ->
  forall rec path (sc : script (list Z)),
    lend_ok value_error
      (ending (run_lister (list Z) (parse_data_line dec ls_date win_date limit) rec path sc)).
Proof. exact lister_classes_data_line. Qed.
Print Assumptions C19_listing_value_error.

(* FULL ("reports a line it cannot parse instead of dropping it"; F12a/F12c repaired).
   A listing that completes has parsed EVERY line to a non-empty raw name (the path is
   PurePosixPath(raw)) and a type fact, and the lines it did not yield are exactly those whose
   non-empty name is '.' or '..' after normalisation (explicit dot entries).  Hence a line
   without a name column / pathname, without a type fact, over-long, undecodable, or on which a
   parser raises is never in a completed listing: Client.list ends with the exception
   (C19_listing_value_error: of class ValueError). *)
Theorem C19_unparseable_reported :
  forall dec ls_date win_date limit rec path m (lines : list (list Z)),
    let parse := parse_data_line dec ls_date win_date limit in
    let r := run_lister (list Z) parse rec path [(m, lines)] in
    ending r = LDone ->
    (length (yields r) + length (filter (explicit_dot dec ls_date win_date limit m) lines) = length lines)%nat
    /\ Forall (fun b => exists name info raw t,
                  parse m b = Ok (name, info) /\ raw <> [] /\ name = posix_norm raw
                  /\ dict_get k_type info = Some t) lines.
Proof. exact unparseable_reported. Qed.
Print Assumptions C19_unparseable_reported.

(* the same accounting for an arbitrary line parser (what the lister itself guarantees) *)
Theorem C19_completed_listing_accounts :
  forall (L : Type) (parse : bool -> L -> result (text * dict)) rec path m (lines : list L),
    let r := run_lister L parse rec path [(m, lines)] in
    ending r = LDone ->
    (length (yields r) + length (filter (dropped L parse m) lines) = length lines)%nat
    /\ Forall (fun l => exists v, parse m l = Ok v) lines.
Proof. exact completed_listing_accounts. Qed.
Print Assumptions C19_completed_listing_accounts.

(* the witnesses of the former findings F12a / F12b / F12c now end the listing with ValueError
   (corpus cases of the harness; on the unrepaired source they were dropped / raised KeyError) *)
Example C19_former_witnesses_reported :
  ending (run_lister oline (parse_oline utf8 65536) false root_path
            [(false, [mlsd_line [103; 97; 114; 98; 97; 103; 101; 13; 10]])]) = LRaised ValueError
  /\ ending (run_lister oline (parse_oline utf8 65536) false root_path
            [(false, [mlsd_line [115; 105; 122; 101; 61; 49; 59; 32; 110; 111; 116; 121; 112; 101; 13; 10]])])
     = LRaised ValueError.
Proof.
  split; [rewrite nameless_mlsd_line_reported; reflexivity|exact typeless_mlsd_line_reported].
Qed.

(* Server side.  For every except-ladder that passes the closed check `ladder_contains` (every
   class parse_command can raise -- ValueError of the line limit, UnicodeDecodeError,
   ConnectionResetError -- and the idle TimeoutError is caught, logged and ends the session),
   whatever bytes a session receives: no exception leaves the dispatcher, every OTHER session's
   record is untouched, and when the line cannot be read the session is released. *)
Theorem C19_server_line_contained :
  forall (S : Type) (handle : S -> text -> text -> option S) (lad : ladder) dec limit,
    ladder_contains lad = true ->
    forall (srv : sessions S) sid ls,
    exists srv', deliver S handle lad dec limit srv sid ls = Served S srv'
      /\ (forall sid', sid' <> sid -> find_session S sid' srv' = find_session S sid' srv)
      /\ (forall e, server_parse_command dec limit ls = CmdExc e -> find_session S sid srv' = None).
Proof. exact server_line_contained. Qed.
Print Assumptions C19_server_line_contained.

(* The structural tie: the except clauses and the `finally` block of Server.dispatcher as
   REGENERATED from /repo/src/aioftp/server.py by tools/py2v on every run (Gen/Dispatch.v) pass the
   closed check, so the theorem above applies to the ladder the source has today. *)
Theorem C19_server_dispatcher_obligation :
  dispatcher_contains (d_task_except dispatcher) (d_outer_except dispatcher) (d_finally dispatcher) = true.
Proof. vm_compute. reflexivity. Qed.
Print Assumptions C19_server_dispatcher_obligation.

Theorem C19_server_line_contained_today :
  exists lad,
    ladder_of_facts (d_task_except dispatcher) (d_outer_except dispatcher) = Some lad /\
    forall (S : Type) (handle : S -> text -> text -> option S) dec limit (srv : sessions S) sid ls,
    exists srv', deliver S handle lad dec limit srv sid ls = Served S srv'
      /\ (forall sid', sid' <> sid -> find_session S sid' srv' = find_session S sid' srv)
      /\ (forall e, server_parse_command dec limit ls = CmdExc e -> find_session S sid srv' = None).
Proof. exact (server_line_contained_gen _ _ _ C19_server_dispatcher_obligation). Qed.
Print Assumptions C19_server_line_contained_today.

(* the ladder the harness's model stream uses is the one read from the source *)
Theorem C19_model_ladder_is_source_ladder :
  ladder_of_facts (d_task_except dispatcher) (d_outer_except dispatcher) = Some ladder_as_read.
Proof. vm_compute. reflexivity. Qed.
Print Assumptions C19_model_ladder_is_source_ladder.

(* ---- the lister at full strength ("never hangs or loops forever") ---- *)
(* the client's work is bounded by what the server sent: it never yields more entries than it
   received lines, and never asks for more directories than the script answers plus the one refused *)
Theorem C19_lister_work_bounded :
  forall (L : Type) (parse : bool -> L -> result (text * dict)) rec path (sc : script L),
    let r := run_lister L parse rec path sc in
    (length (yields r) <= total_lines L sc)%nat /\ (length (requests r) <= S (length sc))%nat.
Proof. exact lister_work_bounded. Qed.
Print Assumptions C19_lister_work_bounded.

(* ANY server, including one that never refuses (srv k = its answer to the k-th MLSD/LIST
   request, every answer a finite listing, any line parser, any content): cut after n answers,
   Client.list has terminated, and either it ends in exactly the same way -- same entries, same
   requests, same outcome -- whatever the server would have answered later, or it has consumed
   all n answers and asked for one more.  Hence the client runs on only for as long as the
   peer keeps answering requests; it never spins on its own. *)
Theorem C19_lister_against_any_server :
  forall (L : Type) (parse : bool -> L -> result (text * dict)) (srv : nat -> bool * list L) rec path n,
    let r := run_lister L parse rec path (server_prefix L srv n) in
    ending r <> LFuel
    /\ (length (requests r) = S n
        \/ forall m, (n <= m)%nat -> run_lister L parse rec path (server_prefix L srv m) = r).
Proof. exact lister_against_any_server. Qed.
Print Assumptions C19_lister_against_any_server.

(* ---- value-exactness on well-formed input: "returns well-typed results" made precise ----
   For EVERY well-formed line built from arbitrary components the parser returns exactly those
   components (not merely some value of the right type). *)

(* MLSx: k1=v1;...;kn=vn; SP name EOL -- keys without SP ; =, values without SP ;, at least one
   fact, a non-empty name without trailing whitespace: the path is PurePosixPath(name) and the
   dict holds exactly the facts, keys lower-cased, later duplicates winning *)
Theorem C19_mlsx_line_exact :
  forall dec b (fs : list (text * text)) name eol,
    dec b = Some (mlsx_facts fs ++ SP :: name ++ eol) ->
    fs <> [] -> Forall fact_ok fs -> name <> [] -> rstrip name = name -> forallb is_space eol = true ->
    parse_mlsx_line dec b = Ok (posix_norm name, facts_dict fs).
Proof. exact mlsx_line_exact. Qed.
Print Assumptions C19_mlsx_line_exact.

(* EPSV: text (|||port|) text, no other left parenthesis: exactly the port *)
Theorem C19_epsv_exact :
  forall pre ds post,
    no 40 pre -> no 40 post ->
    ds <> [] -> forallb is_ascii_digit ds = true -> Z.of_nat (length ds) <= int_max_str_digits ->
    parse_epsv_response (epsv_text pre ds post) = Ok (int_of_ascii_digits ds).
Proof. exact epsv_exact. Qed.
Print Assumptions C19_epsv_exact.

(* PASV: text (h1,h2,h3,h4,p1,p2) text: the dotted host and p1 * 256 | p2 *)
Theorem C19_pasv_exact :
  forall pre d1 d2 d3 d4 d5 d6 post,
    no 40 pre -> Forall digits_ok [d1; d2; d3; d4; d5; d6] ->
    parse_pasv_response (pasv_text pre [d1; d2; d3; d4; d5; d6] post)
    = Ok (join [DOT] (map (fun d => str_of_Z (int_of_ascii_digits d)) [d1; d2; d3; d4]),
          Z.lor (Z.shiftl (int_of_ascii_digits d5) 8) (int_of_ascii_digits d6)).
Proof. exact pasv_exact. Qed.
Print Assumptions C19_pasv_exact.

(* 257: text "path with doubled quotes" text: exactly the path, for EVERY path (also one that
   ends in a double quote or has several in a row: the F08 repair of the quote counter) *)
Theorem C19_directory_exact :
  forall pre d post,
    no 34 pre -> (forall r, post <> 34 :: r) ->
    parse_directory_response (pre ++ 34 :: dq_escape d ++ 34 :: post) = posix_norm d.
Proof. exact directory_exact. Qed.
Print Assumptions C19_directory_exact.

(* unix `ls -l` line (not a symbolic link): type char, nine mode characters that
   parse_unix_mode accepts, link count and size as ASCII digits, owner and group without SP,
   a 12-character date, a name without leading/trailing whitespace, fields separated by one SP:
   exactly these fields, the date being whatever parse_ls_date makes of the 12 characters *)
Theorem C19_unix_line_exact :
  forall dec ls_date t m links owner group size date name eol mode b,
    dec b = Some (unix_line t m links owner group size date name ++ eol) ->
    forallb is_space eol = true ->
    length m = 9%nat -> parse_unix_mode m = Ok mode ->
    links <> [] /\ forallb is_ascii_digit links = true ->
    size <> [] /\ forallb is_ascii_digit size = true ->
    headns owner /\ no SP owner -> headns group /\ no SP group ->
    length date = 12%nat /\ headns date ->
    name <> [] /\ headns name /\ rstrip name = name ->
    t <> 108 ->
    parse_list_line_unix dec ls_date b
    = bind (ls_date (strip date))
           (fun modify => Ok (posix_norm name,
              [(k_type, ty_of t); (k_mode, str_of_Z mode); (k_links, links); (k_owner, owner);
               (k_group, group); (k_size, size); (k_modify, modify)])).
Proof. exact unix_line_exact. Qed.
Print Assumptions C19_unix_line_exact.

(* windows `dir` line: date SP time SP AM|PM, spaces, <DIR> or a size with thousands separators,
   spaces, name (no leading whitespace, no trailing CR/LF, not '.' / '..'); date and time tokens
   without SP and without 'M': exactly these fields, the date being whatever strptime makes of
   "date time xM" *)
Theorem C19_windows_dir_exact :
  forall dec win_date d tm ap gap gap2 col name eol b,
    dec b = Some (win_line d tm ap gap col gap2 name ++ eol) ->
    forallb (in_set [13; 10]) eol = true ->
    headns d /\ no SP d /\ no 77 d -> tm <> [] /\ no SP tm /\ no 77 tm -> ap <> 77 /\ ap <> SP ->
    headns col /\ no SP col ->
    name <> [] /\ headns name /\ rstrip_chars [13; 10] name = name ->
    is_dot_name name = false ->
    col = DIRTAG ->
    parse_list_line_windows dec win_date b
    = bind (win_date (d ++ SP :: tm ++ SP :: [ap; 77]))
           (fun modify => Ok (posix_norm name, [(k_modify, modify); (k_type, t_dir)])).
Proof. exact windows_dir_exact. Qed.
Print Assumptions C19_windows_dir_exact.

Theorem C19_windows_file_exact :
  forall dec win_date d tm ap gap gap2 col name eol b,
    dec b = Some (win_line d tm ap gap col gap2 name ++ eol) ->
    forallb (in_set [13; 10]) eol = true ->
    headns d /\ no SP d /\ no 77 d -> tm <> [] /\ no SP tm /\ no 77 tm -> ap <> 77 /\ ap <> SP ->
    headns col /\ no SP col ->
    name <> [] /\ headns name /\ rstrip_chars [13; 10] name = name ->
    is_dot_name name = false ->
    starts_with DIRTAG col = false -> remove_char 44 col <> [] ->
    forallb is_ascii_digit (remove_char 44 col) = true ->
    parse_list_line_windows dec win_date b
    = bind (win_date (d ++ SP :: tm ++ SP :: [ap; 77]))
           (fun modify => Ok (posix_norm name,
              [(k_modify, modify); (k_type, t_file); (k_size, remove_char 44 col)])).
Proof. exact windows_file_exact. Qed.
Print Assumptions C19_windows_file_exact.

(* int() on a run of at most 4300 ASCII digits is its decimal value (used by the two above) *)
Theorem C19_int_ascii_digits :
  forall ds, ds <> [] -> forallb is_ascii_digit ds = true -> Z.of_nat (length ds) <= int_max_str_digits ->
    py_int ds = Some (int_of_ascii_digits ds).
Proof. exact py_int_ascii_digits. Qed.
Print Assumptions C19_int_ascii_digits.

(* non-vacuity of the hypotheses of the exactness theorems: concrete lines that satisfy them
   (Proofs/ParsersExact.v: mlsx_exact_example, epsv_exact_example, pasv_exact_example,
   directory_exact_example, unix_line_exact_example are proved BY the theorems), and a server
   that never refuses, against which the client keeps asking (endless_server_example) *)
Example C19_unix_line_exact_nonvacuous :
  parse_list_line_unix utf8 (fun _ => Ok [50; 48])
    (unix_line 100 [114; 119; 120; 114; 45; 120; 114; 45; 120] [50] [111] [103] [52; 48; 57; 54]
               [78; 111; 118; 32; 49; 56; 32; 49; 50; 58; 50; 57] [115; 117; 98] ++ [13; 10])
  = Ok ([115; 117; 98],
        [(k_type, t_dir); (k_mode, [52; 57; 51]); (k_links, [50]); (k_owner, [111]); (k_group, [103]);
         (k_size, [52; 48; 57; 54]); (k_modify, [50; 48])]).
Proof. exact unix_line_exact_example. Qed.

(* "never hangs", structurally: every regular expression of the aioftp sources, regenerated on every run with a
   syntactic verdict computed by CPython's own pattern parser (Gen/RegexInventory.v) -- none has an unbounded repeat over
   an ambiguous body (nested quantifier: exponential backtracking), and the patterns are exactly the two that
   Model/Parsers.v models, used in parse_epsv_response / parse_pasv_response *)
Theorem C19_regex_no_nested_quantifier :
  regex_no_nested_quantifier Gen.RegexInventory.regex_inventory_translator_ok Gen.RegexInventory.regex_inventory = true.
Proof. vm_compute. reflexivity. Qed.
Print Assumptions C19_regex_no_nested_quantifier.

Theorem C19_regex_inventory_obligation :
  regex_inventory_check Gen.RegexInventory.regex_inventory_translator_ok Gen.RegexInventory.regex_inventory = true.
Proof. vm_compute. reflexivity. Qed.
Print Assumptions C19_regex_inventory_obligation.

(* ---- structural tie of the client parsers ----
   The facts of client.py the model was written from -- parser chain of parse_list_line, the class
   names of its except tuple, that the handler only collects, the final raise; the two regular
   expressions, the match picked and the slice; parse_unix_mode's tables; the names the lister
   skips and its recursion test -- REGENERATED on every run (Gen/ParserFacts.v, fail-closed
   translator) and checked against the model by computation. *)
Theorem C19_parser_structure_obligation :
  parser_facts_check Gen.ParserFacts.parser_facts_translator_ok
    Gen.ParserFacts.list_line_chain Gen.ParserFacts.list_line_funnel Gen.ParserFacts.list_line_handler
    Gen.ParserFacts.list_line_final Gen.ParserFacts.epsv_regex Gen.ParserFacts.epsv_pick
    Gen.ParserFacts.epsv_slice Gen.ParserFacts.pasv_regex Gen.ParserFacts.unix_rw_table
    Gen.ParserFacts.unix_rw_slices Gen.ParserFacts.unix_special Gen.ParserFacts.lister_skip
    Gen.ParserFacts.lister_recursion_test = true.
Proof. vm_compute. reflexivity. Qed.
Print Assumptions C19_parser_structure_obligation.

(* the guards of the F12 repair are in the source (and S/T in parse_unix_mode, part of the check
   above): computes false on the unrepaired shapes (Proofs/ParserFacts.v, the Examples named unrepaired_...), so a
   revert of the repair is detected structurally as well as by the corpus *)
Theorem C19_repair_guards_obligation :
  repair_guards_check Gen.ParserFacts.unix_name_guard Gen.ParserFacts.windows_name_guard
    Gen.ParserFacts.mlsx_partition_targets Gen.ParserFacts.mlsx_name_guard
    Gen.ParserFacts.lister_type_guard = true.
Proof. vm_compute. reflexivity. Qed.
Print Assumptions C19_repair_guards_obligation.

(* hence the model's funnel is the except tuple the source has today, class by class (under the
   CPython class hierarchy written in Proofs/ParserFacts.v: instance_of) *)
Theorem C19_funnel_is_source_funnel :
  forall e, caught_by Gen.ParserFacts.list_line_funnel e = Some (funnel e).
Proof. exact (parser_facts_funnel _ _ _ _ _ _ _ _ _ _ _ _ _ _ C19_parser_structure_obligation). Qed.
Print Assumptions C19_funnel_is_source_funnel.

(* decoding is a stateless function of the line at every site the model covers (so the `dec` of the theorems above is what the
   source does): regenerated decode call sites = `<bytes>.decode(encoding=self.encoding)` everywhere *)
Theorem C19_decode_is_stateless_obligation :
  decode_sites_check Gen.ParserFacts.decode_sites = true.
Proof. vm_compute. reflexivity. Qed.
Print Assumptions C19_decode_is_stateless_obligation.

(* the callables a control line can reach are the command table, nothing else: the only dynamically determined callee of
   Server.dispatcher (regenerated: locals that are called, resolved through all their bindings; reflective primitives) is
   `self.commands_mapping.get(<verb>)`.  This is what makes `handle` (a command acts on its own session) the right shape for
   C19_server_line_contained: an unknown verb reaches no code at all (502), in particular no method of the Server object *)
Theorem C19_dispatch_lookup_is_table_only_obligation :
  dispatch_callees_check Gen.ParserFacts.dispatch_dynamic_callees = true.
Proof. vm_compute. reflexivity. Qed.
Print Assumptions C19_dispatch_lookup_is_table_only_obligation.

(* non-vacuity *)
Example C19_unix_line_parses :
  exists v, parse_list_line utf8 (fun _ => Ok [50; 48]) (fun _ => Exc ValueError)
      [45; 114; 119; 45; 114; 45; 45; 114; 45; 45; 32; 49; 32; 111; 32; 103; 32; 49; 50; 32;
       74; 97; 110; 32; 48; 51; 32; 49; 50; 58; 50; 57; 32; 110; 46; 116; 120; 116; 13; 10] = Ok v.
Proof. exact unix_line_parses. Qed.
