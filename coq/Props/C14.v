(* C14 — ABOR at any moment stops the transfer, is answered, and keeps the session usable.
   Property statements only; proofs live in Proofs/Transfer.v and Proofs/TransferFixed.v.  genF = the transfer model
   instantiated with the facts regenerated from server.py (decorator order, async-with order,
   worker decorator, abor() condition, dispatcher except ladders). *)
From Coq Require Import ZArith List Bool String.
From Verif Require Import Lib.Sx Lib.Facts Model.Transfer Proofs.Transfer Proofs.TransferFixed Proofs.TransferGen Gen.Dispatch Gen.Workers.
Import ListNotations.
Open Scope list_scope.

(* closed obligations over today's source.  repaired14 is false on each of the former shapes: abor() testing the
   truthiness of extra_workers (F3), the dispatcher without a CancelledError clause answering 426,226 around
   task.result() (F2), a worker entering the file context before the stream (F4) *)
Lemma C14_translator_ok : Dispatch.translator_ok = true /\ Workers.translator_ok = true.
Proof. vm_compute. split; reflexivity. Qed.
Lemma C14_translators_agree : translators_agree = true.
Proof. exact gen_translators_agree. Qed.
Lemma C14_abor_shape_ok : abor_shape_ok = true.
Proof. exact gen_abor_shape_ok. Qed.
Lemma C14_facts_ok : repaired14 genF = true.
Proof. vm_compute. reflexivity. Qed.

(* abor_ok st: the replies from ABOR on are [426;226] or [226]; the state afterwards is exactly
   {| ss := ss st; ws := [] |} (an idle session with the same record: every continuation behaves as from a fresh
   state); every worker has ended holding neither the data stream nor a file; what each had moved is unchanged
   (still a prefix of its payload, C14_moved_is_prefix).

   THE FULL STATEMENT, all stages, no carve-out for any defect: every reachable state of a live session with at
   most one transfer (the property's quantifier).  at_rest is not a restriction on the moment but the asyncio
   rule R1 and the bookkeeping of replies:
     - the worker is where another task can find it: suspended (waiting for the data connection, any back-end
       call, any stream read/write), not yet started, or finished - the model's WStep is finer than asyncio's
       atomic run-to-next-await, the abor handler never runs in between;
     - the transfer has not ALREADY failed on its own (Failed e / Cancelled not yet reaped): its 451 / session end
       is pending and is reported by the dispatcher, it is not ABOR's reply. *)
Theorem C14_abor_any_moment : forall st,
  reachable genF st -> alive (ss st) = true -> (List.length (ws st) <= 1)%nat ->
  forallb (at_rest genF) (ws st) = true ->
  abor_ok genF st.
Proof. exact (fun st => abor_any_moment_repaired genF st C14_facts_ok). Qed.
Print Assumptions C14_abor_any_moment.

(* MORE THAN ONE transfer alive in the session (a second PASV + data connection + transfer command while the first
   still runs).  Proved for ANY number of workers, at least one of them unfinished: ABOR stops ALL of them - after the
   unwinding every worker is terminal and holds neither its data stream nor a file, what it had moved is unchanged
   (a prefix), the session record is untouched.  NOT proved for n >= 2 (the `<= 1` of C14_abor_any_moment): the exact
   reply sequence (426,226 once per interrupted transfer) and the reaping; these are validated: the executable
   model's abor_run is compared with the real server on two simultaneous transfers (harness stream "two") and the
   oracle demands 426,226 for each, both data connections closed, no late completion reply. *)
Theorem C14_abor_stops_all_transfers : forall st,
  reachable genF st -> alive (ss st) = true ->
  existsb (fun w => negb (terminal (w_stage w))) (ws st) = true ->
  Forall (good_w genF) (ws (unwind genF (fst (step genF st Abor))))
  /\ Forall2 same_data (ws st) (ws (unwind genF (fst (step genF st Abor))))
  /\ ss (unwind genF (fst (step genF st Abor))) = ss st.
Proof. exact (fun st => abor_stops_all_repaired genF st C14_facts_ok). Qed.
Print Assumptions C14_abor_stops_all_transfers.

(* non-vacuity: two transfers alive (an upload in its loop, a download parked on the file open); the model's
   replies are 426,226 for each and the ledger's data / file slots are empty afterwards *)
Example C14_two_transfers_nonvacuous :
  let st := at_trace (pre_data ++ [Spawn KStor [1;2]%Z; WStep 0; WStep 0; WStep 0; WStep 0; WStep 0;
                                   DataArrives; Spawn KRetr [1;2;3]%Z; WStep 1; WStep 1; WStep 1]) in
  alive (ss st) = true /\ map w_stage (ws st) = [Loop 0; EnteringCtx 1]
  /\ existsb (fun w => negb (terminal (w_stage w))) (ws st) = true
  /\ snd (abor_run genF st) = [426; 226; 426; 226]%Z
  /\ nth 4 (ledger genF (fst (abor_run genF st))) 0%Z = 0%Z /\ nth 5 (ledger genF (fst (abor_run genF st))) 0%Z = 0%Z.
Proof. vm_compute. repeat split; reflexivity. Qed.

(* in the transfer body (from the detach to the last __aexit__, the back-end open included, any number k of blocks
   moved, any payload): exactly 426 then 226 *)
Theorem C14_abor_in_body : forall st w,
  reachable genF st -> alive (ss st) = true -> ws st = [w] ->
  in_body (parked_stage genF w) = true ->
  snd (abor_run genF st) = [426%Z; 226%Z]
  /\ fst (abor_run genF st) = {| ss := ss st; ws := [] |}
  /\ (exists w', ws (unwind genF (fst (step genF st Abor))) = [w'] /\ good_w genF w' /\ same_data w w').
Proof. exact (fun st w => abor_in_body_repaired genF st w C14_facts_ok). Qed.
Print Assumptions C14_abor_in_body.

Theorem C14_moved_is_prefix : forall cc wf d w,
  w_moved (fst (fst (wstepC cc wf d w))) ++ w_rest (fst (fst (wstepC cc wf d w))) = w_moved w ++ w_rest w
  /\ exists t, w_moved (fst (fst (wstepC cc wf d w))) = w_moved w ++ t.
Proof. exact wstep_payload. Qed.
Print Assumptions C14_moved_is_prefix.

(* no worker (never started, or finished AND reaped): a single 226, nothing else changes *)
Theorem C14_abor_idle : forall st, alive (ss st) = true -> ws st = [] ->
  step genF st Abor = (st, [226%Z]).
Proof. exact (fun st => abor_idle genF st (sound14_abor_known genF (proj1 (repaired14_inv genF C14_facts_ok)))). Qed.
Print Assumptions C14_abor_idle.

(* non-vacuity: reachable states of every transfer kind and every kind of stage satisfy the hypotheses *)
Example C14_nonvacuous :
  forallb (fun evs => let st := at_trace evs in
                      alive (ss st) && Nat.leb (List.length (ws st)) 1 && forallb (at_rest genF) (ws st)
                      && negb (match ws st with [] => true | _ => false end))
    [ pre ++ [Spawn KStor [1]%Z];                                                                  (* Spawned *)
      pre ++ [Spawn KRetr [1;2;3]%Z; WStep 0];                                                     (* WaitingData *)
      pre_data ++ [Spawn KStor [1;2]%Z; WStep 0; WStep 0; WStep 0];                               (* EnteringCtx 1: file open *)
      pre_data ++ [Spawn KRetr [1;2;3]%Z; WStep 0; WStep 0; WStep 0; WStep 0; WStep 0; WStep 0; WStep 0];  (* Loop 2 *)
      pre_data ++ [Spawn KStor [1;2]%Z; WStep 0; WStep 0; WStep 0; WStep 0];                      (* Seeking *)
      pre_data ++ [Spawn KList [1]%Z; WStep 0; WStep 0; WStep 0; WStep 0];                        (* Loop 0 *)
      pre_data ++ [Spawn KRetr [1]%Z; WStep 0; WStep 0; WStep 0; WStep 0; WStep 0; WStep 0; WStep 0];  (* ExitingCtx 1: file close *)
      pre_data ++ [Spawn KStor []; WStep 0; WStep 0; WStep 0; WStep 0; WStep 0; WStep 0; WStep 0; WStep 0]  (* Replied, not reaped *)
    ] = true.
Proof. vm_compute. reflexivity. Qed.

(* the former witnesses of F2, F3, F4, now instances of the theorem *)
(* F2: ABOR while the worker still waits for the data connection / has not started: 426, 226, session alive *)
Example C14_abor_waiting_answered :
  let st := at_trace (pre ++ [Spawn KRetr [1;2;3]%Z; WStep 0]) in
  map w_stage (ws st) = [WaitingData false]
  /\ snd (abor_run genF st) = [426%Z; 226%Z] /\ fst (abor_run genF st) = {| ss := ss st; ws := [] |}.
Proof. vm_compute. repeat split; reflexivity. Qed.
Example C14_abor_spawned_answered :
  let st := at_trace (pre ++ [Spawn KStor [1]%Z]) in
  map w_stage (ws st) = [Spawned]
  /\ snd (abor_run genF st) = [426%Z; 226%Z] /\ fst (abor_run genF st) = {| ss := ss st; ws := [] |}.
Proof. vm_compute. repeat split; reflexivity. Qed.
(* F3: the worker has finished but has not been reaped: a single 226 *)
Example C14_abor_unreaped_answered :
  let st := at_trace (pre_data ++ [Spawn KStor []; WStep 0; WStep 0; WStep 0; WStep 0; WStep 0; WStep 0; WStep 0; WStep 0]) in
  map w_stage (ws st) = [Replied]
  /\ snd (abor_run genF st) = [226%Z] /\ fst (abor_run genF st) = {| ss := ss st; ws := [] |}.
Proof. vm_compute. repeat split; reflexivity. Qed.
(* F4: ABOR while the file open is suspended: 426, 226 and the data stream is closed (ledger slot 4) *)
Example C14_abor_entering_file_closes_stream :
  let st := at_trace (pre_data ++ [Spawn KStor [1;2]%Z; WStep 0; WStep 0; WStep 0]) in
  map w_stage (ws st) = [EnteringCtx 1]
  /\ snd (abor_run genF st) = [426%Z; 226%Z]
  /\ nth 4 (ledger genF st) 0%Z = 1%Z /\ nth 4 (ledger genF (fst (abor_run genF st))) 0%Z = 0%Z.
Proof. vm_compute. repeat split; reflexivity. Qed.
