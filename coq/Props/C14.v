(* C14 — ABOR at any moment stops the transfer, is answered, and keeps the session usable.
   Property statements only; proofs live in Proofs/Transfer.v.  genF = the transfer model
   instantiated with the facts regenerated from server.py (decorator order, async-with order,
   worker decorator, abor() condition, dispatcher except ladders). *)
From Coq Require Import ZArith List Bool String.
From Verif Require Import Lib.Sx Lib.Facts Model.Transfer Proofs.Transfer Proofs.TransferGen Gen.Dispatch Gen.Workers.
Import ListNotations.
Open Scope list_scope.

(* closed obligations over today's source *)
Lemma C14_translator_ok : Dispatch.translator_ok = true /\ Workers.translator_ok = true.
Proof. vm_compute. split; reflexivity. Qed.
(* the two translators agree; abor() cancels every element of extra_workers in one branch and replies 226 in the other *)
Lemma C14_translators_agree : translators_agree = true.
Proof. exact gen_translators_agree. Qed.
Lemma C14_abor_shape_ok : abor_shape_ok = true.
Proof. exact gen_abor_shape_ok. Qed.
Lemma C14_facts_ok : sound14 genF = true.
Proof. vm_compute. reflexivity. Qed.

(* ABOR while the worker is in the transfer body (from the detach to the last __aexit__, any
   number k of blocks moved, any payload), outside the F4 hole: replies 426 then 226; the worker
   ends with the data stream and the file closed; what it had moved is unchanged (a prefix of
   the payload: C14_moved_is_prefix); the session state is exactly that of an idle session (same
   session record, no worker), so every continuation behaves as from a fresh state. *)
Theorem C14_abor_in_body : forall st w,
  reachable genF st -> alive (ss st) = true -> ws st = [w] ->
  in_body (parked_stage genF w) = true -> w_leak w = false -> hole genF w = false ->
  snd (abor_run genF st) = [426%Z; 226%Z]
  /\ fst (abor_run genF st) = {| ss := ss st; ws := [] |}
  /\ (exists w', ws (unwind genF (fst (step genF st Abor))) = [w'] /\ good_w genF w' /\ same_data w w').
Proof. exact (fun st w Hr => abor_in_body genF st w C14_facts_ok (reachable_ok genF st Hr)). Qed.
Print Assumptions C14_abor_in_body.

Theorem C14_moved_is_prefix : forall cc wf d w,
  w_moved (fst (fst (wstepC cc wf d w))) ++ w_rest (fst (fst (wstepC cc wf d w))) = w_moved w ++ w_rest w
  /\ exists t, w_moved (fst (fst (wstepC cc wf d w))) = w_moved w ++ t.
Proof. exact wstep_payload. Qed.
Print Assumptions C14_moved_is_prefix.

(* no worker (never started, or finished AND reaped): a single 226, nothing else changes *)
Theorem C14_abor_idle : forall st, alive (ss st) = true -> ws st = [] ->
  step genF st Abor = (st, [226%Z]).
Proof. exact (fun st => abor_idle genF st (sound14_abor_known genF C14_facts_ok)). Qed.
Print Assumptions C14_abor_idle.

(* THE FULL STATEMENT (kept visible; false on today's code, see the _refuted theorems) *)
Definition abor_any_moment : Prop := forall st,
  reachable genF st -> alive (ss st) = true -> (List.length (ws st) <= 1)%nat ->
  forallb (fun w => negb (w_leak w)) (ws st) = true ->
  abor_ok genF st.

(* proved: the same with the refuted stages excluded.  abor_safe genF w is false exactly when w
   (a) is Spawned or WaitingData (F2: the wait wrapper is outside @worker and the dispatcher does
   not handle a cancelled task), (b) is finished but not reaped, or finishes before it can be
   cancelled (F3: abor() tests the truthiness of the set), (c) is parked on the file open while the
   stream is not yet inside the `async with` (F4), or already carries an abandoned stream. *)
Theorem C14_abor_any_moment_partial : forall st,
  reachable genF st -> alive (ss st) = true -> (List.length (ws st) <= 1)%nat ->
  forallb (abor_safe genF) (ws st) = true ->
  abor_ok genF st.
Proof. exact (fun st Hr => abor_any_moment_partial genF st C14_facts_ok (reachable_ok genF st Hr)). Qed.
Print Assumptions C14_abor_any_moment_partial.

(* non-vacuity: reachable states of every transfer kind in the body satisfy the hypotheses *)
Example C14_partial_nonvacuous :
  forallb (fun evs => let st := at_trace evs in
                      alive (ss st) && Nat.leb (List.length (ws st)) 1 && forallb (abor_safe genF) (ws st)
                      && negb (match ws st with [] => true | _ => false end))
    [ pre_data ++ [Spawn KRetr [1;2;3]%Z; WStep 0; WStep 0; WStep 0; WStep 0; WStep 0; WStep 0];   (* Loop 2 *)
      pre_data ++ [Spawn KStor [1;2]%Z; WStep 0; WStep 0; WStep 0; WStep 0];                      (* Seeking *)
      pre_data ++ [Spawn KList [1]%Z; WStep 0; WStep 0; WStep 0; WStep 0];                        (* Loop 0 *)
      pre_data ++ [Spawn KMlsd []; WStep 0];                                                      (* Detached *)
      pre_data ++ [Spawn KRetr [1]%Z; WStep 0; WStep 0; WStep 0; WStep 0; WStep 0; WStep 0; WStep 0; WStep 0]  (* ExitingCtx 0: file close *)
    ] = true.
Proof. vm_compute. reflexivity. Qed.

(* F2: ABOR while the worker still waits for the data connection (after 150, before the peer
   connects): no reply at all and the session is dropped *)
Theorem C14_abor_waiting_refuted :
  let st := at_trace (pre ++ [Spawn KRetr [1;2;3]%Z; WStep 0]) in
  alive (ss st) = true
  /\ map w_stage (ws st) = [WaitingData false]
  /\ snd (abor_run genF st) = []
  /\ alive (ss (fst (abor_run genF st))) = false.
Proof. vm_compute. repeat split; reflexivity. Qed.
Print Assumptions C14_abor_waiting_refuted.

(* F2, variant: the worker task has been created and not yet run *)
Theorem C14_abor_spawned_refuted :
  let st := at_trace (pre ++ [Spawn KStor [1]%Z]) in
  alive (ss st) = true /\ map w_stage (ws st) = [Spawned]
  /\ snd (abor_run genF st) = [] /\ alive (ss (fst (abor_run genF st))) = false.
Proof. vm_compute. repeat split; reflexivity. Qed.

(* F3: ABOR when the worker has finished but has not been reaped: extra_workers is non-empty, so
   abor() cancels (a no-op on a finished task) and does not reply; nothing ever answers the ABOR *)
Theorem C14_abor_unreaped_refuted :
  let st := at_trace (pre_data ++ [Spawn KStor []; WStep 0; WStep 0; WStep 0; WStep 0; WStep 0; WStep 0; WStep 0; WStep 0]) in
  alive (ss st) = true /\ map w_stage (ws st) = [Replied]
  /\ snd (abor_run genF st) = []
  /\ alive (ss (fst (abor_run genF st))) = true.
Proof. vm_compute. repeat split; reflexivity. Qed.
Print Assumptions C14_abor_unreaped_refuted.

(* F4: ABOR while the file open is suspended (the file context is entered before the stream):
   426, 226 are sent but the detached data stream is closed by nobody (ledger slot 4) *)
Theorem C14_abor_entering_file_refuted :
  let st := at_trace (pre_data ++ [Spawn KStor [1;2]%Z; WStep 0; WStep 0]) in
  alive (ss st) = true /\ map w_stage (ws st) = [EnteringCtx 0]
  /\ snd (abor_run genF st) = [426%Z; 226%Z]
  /\ nth 4 (ledger genF (fst (abor_run genF st))) 0%Z = 1%Z.
Proof. vm_compute. repeat split; reflexivity. Qed.
Print Assumptions C14_abor_entering_file_refuted.

Theorem C14_abor_any_moment_refuted : ~ abor_any_moment.
Proof.
  intros H.
  specialize (H (at_trace (pre ++ [Spawn KRetr [1;2;3]%Z; WStep 0]))).
  assert (R : reachable genF (at_trace (pre ++ [Spawn KRetr [1; 2; 3]%Z; WStep 0])))
    by (exists true, (pre ++ [Spawn KRetr [1; 2; 3]%Z; WStep 0]); reflexivity).
  specialize (H R). vm_compute in H.
  destruct (H eq_refl (le_n 1) eq_refl) as [[X | X] _]; discriminate X.
Qed.
Print Assumptions C14_abor_any_moment_refuted.
