(* C03 — Nothing is served before a completed login; re-USER drops the old login.
   Property statements only; proofs in Proofs/SessionGuard.v, Proofs/SessionLogin.v.
   [gen_table] is the dispatch table REGENERATED from /repo/src/aioftp/server.py on this run. *)
From Coq Require Import ZArith List Bool String.
From Verif Require Import Lib.Sx Lib.PyStr Lib.Facts Model.Session Gen.Dispatch.
From Verif Require Import Proofs.GenTable Proofs.SessionGuard Proofs.SessionLogin.
Import ListNotations.
Open Scope list_scope.

(* closed obligations on today's source: the table is a literal dict looked up by key (no getattr
   dispatch); every verb is login-guarded FIRST, or is USER/PASS, or is one of quit/rest/syst whose
   extracted footprint touches nothing, or purely delegates to a guarded handler; USER carries no
   guard and PASS exactly the 'user' guard *)
Theorem C03_source_obligations :
  translator_ok = true /\ d_table_literal dispatcher = true /\
  check_login_guard gen_table = true /\ login_entries_ok gen_table = true /\
  prelogin_footprints_ok = true.
Proof. vm_compute. repeat split. Qed.
Print Assumptions C03_source_obligations.

(* generic: for EVERY dispatch table passing the check, every user table, every world and event *)
Theorem C03_no_touch_before_login_generic : forall users t w e,
  check_login_guard t = true ->
  s_logged (w_s w) = false ->
  text_eqb (e_verb e) V_DATACONN = false ->
  (forall h, verb_handler t (e_verb e) = Some h -> ~ In h login_names) ->
  same_core w (fst (step users t w e)).
Proof. exact no_touch_before_login. Qed.
Print Assumptions C03_no_touch_before_login_generic.

(* instance: today's table.  While not logged in, no command other than USER/PASS changes the tree,
   the ghost log of backend calls (the backend is not touched at all), the working directory, the
   passive listener, the data connection or the login state. *)
Theorem C03_no_touch_before_login : forall users w e,
  s_logged (w_s w) = false ->
  text_eqb (e_verb e) V_DATACONN = false ->
  (forall h, verb_handler gen_table (e_verb e) = Some h -> ~ In h login_names) ->
  same_core w (fst (step users gen_table w e)).
Proof.
  intros users w e. apply no_touch_before_login.
  exact (proj1 (proj2 (proj2 C03_source_obligations))).
Qed.
Print Assumptions C03_no_touch_before_login.

(* every login-guarded verb is answered with the guard's fail code alone *)
Theorem C03_guarded_verb_refused : forall users t w e h ds dl,
  s_ended (w_s w) = false -> s_logged (w_s w) = false ->
  text_eqb (e_verb e) V_DATACONN = false ->
  verb_handler t (e_verb e) = Some h -> handler_of t h = Some (ds, dl) -> guarded ds = true ->
  exists fc, o_codes (snd (step users t w e)) = [t_of fc].
Proof. exact guarded_verb_refused. Qed.
Print Assumptions C03_guarded_verb_refused.

(* one step, ANY world: the login state changes only through USER (to what the new login alone
   justifies: the previous login is dropped) or through PASS (only for a pending user, only with
   exactly its password) *)
Theorem C03_step_login : forall users w e,
  login_step_ok users gen_table (login_of w) (login_of (fst (step users gen_table w e))) e.
Proof.
  intros users w e. apply step_login_ok.
  exact (proj1 (proj2 (proj2 (proj2 C03_source_obligations)))).
Qed.
Print Assumptions C03_step_login.

Theorem C03_reuser_drops : forall users login,
  snd (user_spec users login) = true ->
  exists i u, user_spec users login = (Some i, true) /\ nth_error users i = Some u /\
              (u_login u = None \/ u_password u = None).
Proof. exact reuser_drops. Qed.
Print Assumptions C03_reuser_drops.

Theorem C03_bad_pass_never_authorises : forall users st pw i,
  pass_spec users st pw = (Some i, true) ->
  st = (Some i, true) \/
  (st = (Some i, false) /\ exists u, nth_error users i = Some u /\ opt_text_eqb (u_password u) (Some pw) = true).
Proof. exact pass_spec_authorises. Qed.
Print Assumptions C03_bad_pass_never_authorises.

(* histories of any length: logged in as a password-protected user => that password was supplied *)
Theorem C03_logged_implies_password_supplied : forall users es w0,
  login_of w0 = (None, false) ->
  forall i u pw,
    login_of (fst (run users gen_table w0 es)) = (Some i, true) ->
    nth_error users i = Some u -> u_login u <> None -> u_password u = Some pw ->
    exists e, In e es /\ is_verb_of gen_table "pass_" e /\ text_eqb pw (e_arg e) = true.
Proof.
  intros users. apply logged_implies_password_supplied.
  exact (proj1 (proj2 (proj2 (proj2 C03_source_obligations)))).
Qed.
Print Assumptions C03_logged_implies_password_supplied.

(* non-vacuity: a concrete un-logged-in world and a guarded verb *)
Example C03_example :
  let w := {| w_s := init_sess; w_fs := NDir [([100], NDir [])]; w_log := [] |} in
  let e := {| e_verb := t_of "retr"; e_arg := [100]; e_data := DNone |} in
  o_codes (snd (step [] gen_table w e)) = [t_of "503"] /\ w_log (fst (step [] gen_table w e)) = [].
Proof. vm_compute. split; reflexivity. Qed.
