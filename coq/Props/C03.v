(* C03 — Nothing is served before a completed login; re-USER drops the old login.
   Property statements only; proofs in Proofs/SessionGuard.v, Proofs/SessionLogin.v.
   [gen_table] is the dispatch table REGENERATED from /repo/src/aioftp/server.py on this run. *)
From Coq Require Import ZArith List Bool String.
From Verif Require Import Lib.Sx Lib.PyStr Lib.Facts Model.Session Gen.Dispatch.
From Verif Require Import Proofs.GenTable Proofs.SessionGuard Proofs.SessionLogin.
Import ListNotations.
Open Scope list_scope.

(* closed obligations on today's source: the table is a literal dict looked up by key (no getattr
   dispatch); every verb is login-guarded FIRST, or is USER/PASS, or is one of quit/rest/syst whose
   extracted footprint touches nothing, or purely delegates to a guarded handler; USER carries no
   guard and PASS exactly the 'user' guard *)
Theorem C03_source_obligations :
  translator_ok = true /\ d_table_literal dispatcher = true /\
  check_login_guard gen_table = true /\ login_entries_ok gen_table = true /\
  prelogin_footprints_ok = true.
Proof. vm_compute. repeat split. Qed.
Print Assumptions C03_source_obligations.

(* generic: for EVERY dispatch table passing the check, every user table, every world and event *)
Theorem C03_no_touch_before_login_generic : forall users t w e,
  check_login_guard t = true ->
  s_logged (w_s w) = false ->
  text_eqb (e_verb e) V_DATACONN = false ->
  (forall h, verb_handler t (e_verb e) = Some h -> ~ In h login_names) ->
  same_core w (fst (step users t w e)).
Proof. exact no_touch_before_login. Qed.
Print Assumptions C03_no_touch_before_login_generic.

(* instance: today's table.  While not logged in, no command other than USER/PASS changes the tree,
   the ghost log of backend calls (the backend is not touched at all), the working directory, the
   passive listener, the data connection or the login state. *)
Theorem C03_no_touch_before_login : forall users w e,
  s_logged (w_s w) = false ->
  text_eqb (e_verb e) V_DATACONN = false ->
  (forall h, verb_handler gen_table (e_verb e) = Some h -> ~ In h login_names) ->
  same_core w (fst (step users gen_table w e)).
Proof.
  intros users w e. apply no_touch_before_login.
  exact (proj1 (proj2 (proj2 C03_source_obligations))).
Qed.
Print Assumptions C03_no_touch_before_login.

(* every login-guarded verb is answered with the guard's fail code alone *)
Theorem C03_guarded_verb_refused : forall users t w e h ds dl,
  s_ended (w_s w) = false -> s_logged (w_s w) = false ->
  text_eqb (e_verb e) V_DATACONN = false ->
  verb_handler t (e_verb e) = Some h -> handler_of t h = Some (ds, dl) -> guarded ds = true ->
  exists fc, o_codes (snd (step users t w e)) = [t_of fc].
Proof. exact guarded_verb_refused. Qed.
Print Assumptions C03_guarded_verb_refused.

(* one step, ANY world: the login state changes only through USER (to what the new login alone
   justifies: the previous login is dropped) or through PASS (only for a pending user, only with
   exactly its password) *)
Theorem C03_step_login : forall users w e,
  login_step_ok users gen_table (login_of w) (login_of (fst (step users gen_table w e))) e.
Proof.
  intros users w e. apply step_login_ok.
  exact (proj1 (proj2 (proj2 (proj2 C03_source_obligations)))).
Qed.
Print Assumptions C03_step_login.

Theorem C03_reuser_drops : forall users login,
  snd (user_spec users login) = true ->
  exists i u, user_spec users login = (Some i, true) /\ nth_error users i = Some u /\
              (u_login u = None \/ u_password u = None).
Proof. exact reuser_drops. Qed.
Print Assumptions C03_reuser_drops.

Theorem C03_bad_pass_never_authorises : forall users st pw i,
  pass_spec users st pw = (Some i, true) ->
  st = (Some i, true) \/
  (st = (Some i, false) /\ exists u, nth_error users i = Some u /\ opt_text_eqb (u_password u) (Some pw) = true).
Proof. exact pass_spec_authorises. Qed.
Print Assumptions C03_bad_pass_never_authorises.

(* histories of any length: logged in as a password-protected user => that password was supplied *)
Theorem C03_logged_implies_password_supplied : forall users es w0,
  login_of w0 = (None, false) ->
  forall i u pw,
    login_of (fst (run users gen_table w0 es)) = (Some i, true) ->
    nth_error users i = Some u -> u_login u <> None -> u_password u = Some pw ->
    exists e, In e es /\ is_verb_of gen_table "pass_" e /\ text_eqb pw (e_arg e) = true.
Proof.
  intros users. apply logged_implies_password_supplied.
  exact (proj1 (proj2 (proj2 (proj2 C03_source_obligations)))).
Qed.
Print Assumptions C03_logged_implies_password_supplied.

(* non-vacuity: a concrete un-logged-in world and a guarded verb *)
Example C03_example :
  let w := {| w_s := init_sess; w_fs := NDir [([100], NDir [])]; w_log := [] |} in
  let e := {| e_verb := t_of "retr"; e_arg := [100]; e_data := DNone |} in
  o_codes (snd (step [] gen_table w e)) = [t_of "503"] /\ w_log (fst (step [] gen_table w e)) = [].
Proof. vm_compute. split; reflexivity. Qed.

(* ====================================================================================================
   Round 3: the login handlers around their suspension points, and transfers served after the command.
   Model/LoginRace.v splits the programs of pass_ / user TRANSLATED from server.py (Gen/Handlers.v) at their
   awaits; Proofs/LoginRace.v. *)
From Verif Require Import Lib.HandlerFacts Model.HandlerProg Model.LoginRace Proofs.HandlerProg Proofs.LoginRace.
From Verif Require Gen.Handlers.

(* closed obligation on today's source: pass_ and user are the reference programs -- their ONLY suspension points are
   `await authenticate(...)` (pass_) and `await notify_logout(...)`, `await get_user(...)` (user); pass_ is
   "already logged in? 503 : authenticate ? (logged := True; 230) : 530".  A new await (e.g. a sleep before the
   reply), a write after it, a changed probe: unclassified or different program, this breaks *)
Theorem C03_login_handlers_are_reference :
  prog_of Gen.Handlers.programs "pass_" = prog_of ref_programs "pass_"
  /\ prog_of Gen.Handlers.programs "user" = prog_of ref_programs "user".
Proof. exact gen_login_programs_reference. Qed.
Print Assumptions C03_login_handlers_are_reference.

(* FULL STATEMENT (for every user manager, pipelined commands included):
     whatever is handled while pass_ / user are suspended in the user manager, a session is logged in only as a user
     whose password it supplied after naming that user.
   REFUTED on the faithful split model (finding F20; the harness replays both witnesses on the real server with a
   MemoryUserManager subclass whose authenticate() / get_user() suspend): *)
Theorem C03_pipelined_user_during_pass_refuted :
  let w1 := user_cmd RU (t_of "alice") RW0 in
  option_map (fun r => (s_user (w_s (fst (fst r))), s_logged (w_s (fst (fst r))), s_cwd (w_s (fst (fst r))), o_codes (snd (fst r))))
    (suspended_pass RU no_self (prog_of Gen.Handlers.programs "pass_") (t_of "alicepw") (user_cmd RU (t_of "admin")) w1)
  = Some (Some 1%nat, true, [t_of "adm"], [code "230"])
  /\ authenticate RU 1 (t_of "alicepw") = false.
Proof. exact pass_race_witness. Qed.
Print Assumptions C03_pipelined_user_during_pass_refuted.

Theorem C03_pipelined_user_during_user_refuted :
  option_map (fun r => (s_user (w_s (fst (fst r))), s_logged (w_s (fst (fst r))), o_codes (snd (fst r))))
    (suspended_user RU no_self (prog_of Gen.Handlers.programs "user") (t_of "admin") (user_cmd RU (t_of "bob")) RW0)
  = Some (Some 1%nat, true, [code "331"]).
Proof. exact user_race_witness. Qed.
Print Assumptions C03_pipelined_user_during_user_refuted.

(* CARVED (_partial): when nothing is handled at the await -- the shipped MemoryUserManager (its coroutines never
   suspend), commands sent one at a time, or the candidate fix's per-connection lock around user()/pass_() -- the
   suspended handlers ARE the sequential bodies, to which C03_step_login / C03_bad_pass_never_authorises /
   C03_logged_implies_password_supplied apply *)
Theorem C03_suspended_login_handlers_partial : forall users self arg d appe w,
  (s_logged (w_s w) = false -> s_user (w_s w) <> None ->
   suspended_pass users self (prog_of Gen.Handlers.programs "pass_") arg (fun x => x) w
   = Some (body users self "pass_" arg d appe w))
  /\ suspended_user users self (prog_of Gen.Handlers.programs "user") arg (fun x => x) w
     = Some (body users self "user" arg d appe w).
Proof.
  intros users self arg d appe w.
  rewrite (proj1 gen_login_programs_reference), (proj2 gen_login_programs_reference).
  split; [intros L U; exact (suspended_pass_alone_is_body users self arg d appe w L U)
         |exact (suspended_user_alone_is_body users self arg d appe w)].
Qed.
Print Assumptions C03_suspended_login_handlers_partial.

(* and whatever IS handled at pass_'s await: a login it performs was earned by the password of the user pending when
   the PASS was read -- the defect is exactly that the session's user may be another one by then *)
Theorem C03_suspended_pass_authenticated_the_old_user : forall users self arg between w r,
  suspended_pass users self (prog_of Gen.Handlers.programs "pass_") arg between w = Some r ->
  s_logged (w_s (between w)) = false ->
  s_logged (w_s (fst (fst r))) = true ->
  exists i, s_user (w_s w) = Some i /\ authenticate users i arg = true
            /\ s_user (w_s (fst (fst r))) = s_user (w_s (between w)).
Proof.
  intros users self arg between w r. rewrite (proj1 gen_login_programs_reference).
  exact (suspended_pass_authenticated_the_old_user users self arg between w r).
Qed.
Print Assumptions C03_suspended_pass_authenticated_the_old_user.

(* ---- a command between the 150 mark and the data connection ----
   the worker LIST / MLSD / RETR / STOR schedule is fixed when the command is handled (path resolved under the login
   and working directory of THAT moment) ... *)
Theorem C03_scheduled_worker_fixed_at_command_time : forall users self arg d appe w,
  scheduled users self (prog_of Gen.Handlers.programs "list") arg d appe w
    = Some (w, worker_den "list_worker" [VReal (resolve (s_cwd (w_s w)) arg)] d)
  /\ scheduled users self (prog_of Gen.Handlers.programs "mlsd") arg d appe w
    = Some (w, worker_den "mlsd_worker" [VReal (resolve (s_cwd (w_s w)) arg)] d)
  /\ scheduled users self (prog_of Gen.Handlers.programs "retr") arg d appe w
    = Some (w, worker_den "retr_worker" [VReal (resolve (s_cwd (w_s w)) arg)] d)
  /\ (is_dir (removelast (resolve (s_cwd (w_s w)) arg)) (w_fs w) = true ->
      scheduled users self (prog_of Gen.Handlers.programs "stor") arg d appe w
      = Some (log_call w "is_dir" (removelast (resolve (s_cwd (w_s w)) arg)),
              worker_den "stor_worker" [VReal (resolve (s_cwd (w_s w)) arg); VText (if appe then t_of "ab" else t_of "wb")] d)).
Proof. rewrite gen_programs. exact scheduled_worker_fixed_at_command_time. Qed.
Print Assumptions C03_scheduled_worker_fixed_at_command_time.

(* ... and what it serves later does not depend on the session of that later moment (who is identified, whether anybody
   is logged in, the working directory): same tree and offset => same listing / bytes, same path handed to the backend.
   (RFC 959: "any file transfer in progress is completed under the old access control parameters") *)
Theorem C03_served_object_independent_of_later_session : forall wn p d k a b,
  worker_den wn [VReal p] d = Some k -> same_store a b ->
  snd (k a) = snd (k b)
  /\ w_fs (fst (k a)) = w_fs (fst (k b))
  /\ exists m, w_log (fst (k a)) = (w_log a ++ [(m, p)])%list /\ w_log (fst (k b)) = (w_log b ++ [(m, p)])%list.
Proof. exact served_object_independent_of_later_session. Qed.
Print Assumptions C03_served_object_independent_of_later_session.

(* ---- Round 4: credentials are compared AFTER the command line became text ----
   closed obligation on today's source: parse_command decodes the line STRICTLY (no errors= argument: a byte sequence that
   is invalid in the server encoding raises, nothing is silently dropped before the comparison) -- and, today, strips
   trailing white space with str.rstrip() (finding F21: that is more than the line terminator) *)
Theorem C03_command_line_decoded_strictly :
  Gen.Handlers.parse_command_decode = ["line.decode(encoding=self.encoding).rstrip()"%string].
Proof. vm_compute. reflexivity. Qed.
Print Assumptions C03_command_line_decoded_strictly.
