(* C18 placeholder while the harness is brought up; replaced by the real statements. *)
From Coq Require Import ZArith List Bool.
From Verif Require Import Lib.Sx Model.FsBase Model.MemFS Model.PosixFS Model.BackendSrv.
