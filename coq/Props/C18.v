(* C18 — The shipped storage backends are interchangeable.
   Property statements only; proofs live in Proofs/Backends.v, Proofs/BackendsMatrix.v (and Proofs/FsFacts.v).

   Models: MemFS.m_run = aioftp.MemoryPathIO (as repaired: 'r+b' on a missing file fails, rename validates
   like a file system), PosixFS.p_run = PathIO/AsyncPathIO through pathlib on a POSIX kernel (validated
   against the real kernel, not proved), BackendSrv.srv_step = the server's handler stack over either.

   FULL STATEMENT (proved, C18_backends_agree / C18_three_backends_agree): for every tree t, every pending
   rename_from and every command history cs not aimed at the root,
       srv_run m_run (rf, t) cs = srv_run p_run (rf, t) cs  and failing commands are inert.
   History: before the repair of MemoryPathIO the statement was refuted on four shapes (F06 REST+STOR to a
   missing file, F07a RNTO into the source's own subtree, F07b RNTO below a file, F17 RNTO onto the vanished
   source's own path; known_findings.json `fixed`) and only a carved `_partial` held; the four witnesses are
   kept below as computed cases (C18_former_*_agrees) and are replayed on three real servers on every run. *)
From Coq Require Import ZArith List Bool.
From Verif Require Import Lib.Sx Model.FsBase Model.MemFS Model.PosixFS Model.BackendSrv Model.FsAgreeDom
                          Proofs.FsFacts Proofs.Backends Proofs.BackendsMatrix Gen.PathIOTable.
Import ListNotations.
Open Scope Z_scope.

(* ---------------- server level ---------------- *)

(* Same replies (codes and transferred payload: retrieved bytes, listings) and same tree after every
   command, on both backends, and a command that fails (any reply >= 400) changes nothing on either -- for
   every tree, every pending rename_from, every history without a mutation aimed at the root itself
   (`shapes_ok cs = forallb (fun c => negb (targets_root c)) cs`: the property's own exclusion). *)
Theorem C18_backends_agree : forall cs rf t,
  shapes_ok cs = true ->
  srv_run m_run (rf, t) cs = srv_run p_run (rf, t) cs
  /\ inert_from t (srv_run m_run (rf, t) cs)
  /\ inert_from t (srv_run p_run (rf, t) cs).
Proof. exact backends_agree. Qed.
Print Assumptions C18_backends_agree.

(* the same, read through the abstract tree (names sorted, file bytes) *)
Theorem C18_backends_agree_abs : forall cs rf t,
  shapes_ok cs = true ->
  map (fun x => (fst x, abs (snd x))) (srv_run m_run (rf, t) cs)
  = map (fun x => (fst x, abs (snd x))) (srv_run p_run (rf, t) cs).
Proof. exact backends_agree_abs. Qed.
Print Assumptions C18_backends_agree_abs.

(* non-vacuity: a 21-command history through every verb (incl. the four formerly refuted shapes) satisfies
   the hypothesis, and it is not trivial: 226/250/257/350 as well as 451/503 replies occur *)
Example C18_agree_nonvacuous :
  wf wt0 /\ shapes_ok hist0 = true /\
  codes_of (srv_run m_run (None, wt0) hist0) =
    [[257]; [150; 226]; [150; 226]; [150; 226]; [150; 226]; [350]; [250]; [150; 226]; [250]; [250]; [451]; [250];
     [250]; [350]; [451]; [150; 451]; [350]; [451]; [350]; [451]; [503]].
Proof. exact agree_nonvacuous. Qed.

(* ---- per-operation agreement, under exactly what the handler's guards establish ---- *)

(* queries (PathConditions themselves, CWD, LIST/MLSD/MLST): unconditional *)
Theorem C18_queries_agree : forall t p,
  m_exists t p = p_exists t p /\ m_is_dir t p = p_is_dir t p /\ m_is_file t p = p_is_file t p
  /\ m_list t p = p_list t p /\ res_eq (m_stat t p) (p_stat t p).
Proof.
  intros t p. repeat split;
    [apply exists_agree|apply is_dir_agree|apply is_file_agree|apply list_agree|apply stat_agree].
Qed.
Print Assumptions C18_queries_agree.

(* MKD: path_must_not_exists; mkdir(parents=True).  Identical result (error class included) and tree:
   MemoryPathIO's walk from the root = pathlib's recursion from the leaf. *)
Theorem C18_mkd_agree : forall t p,
  lookup p t = None -> m_run t (Mkdir p true false) = p_run t (Mkdir p true false).
Proof. exact mkd_agree. Qed.
Print Assumptions C18_mkd_agree.

(* RMD (exists, is_dir) and DELE (exists, is_file): the operations agree on every path *)
Theorem C18_rmd_agree : forall t p, step_agree (m_run t (Rmdir p)) (p_run t (Rmdir p)).
Proof. exact rmdir_agree. Qed.
Print Assumptions C18_rmd_agree.

Theorem C18_dele_agree : forall t p, step_agree (m_run t (Unlink p)) (p_run t (Unlink p)).
Proof. exact unlink_agree. Qed.
Print Assumptions C18_dele_agree.

(* RNTO: destination does not exist (path_must_not_exists); the source may or may not still exist, may
   equal the destination, the destination may lie below a file or inside the source: no further condition *)
Theorem C18_rnto_agree : forall t a b,
  a <> [] -> lookup b t = None ->
  step_agree (m_run t (Rename a b)) (p_run t (Rename a b)).
Proof. exact rename_agree. Qed.
Print Assumptions C18_rnto_agree.

(* STOR / APPE: is_dir(parent); mode r+b iff the transfer's restart offset is non-zero *)
Theorem C18_stor_agree : forall t p m restart blocks,
  (m = WB \/ m = AB) ->
  store m_run t p m restart blocks = store p_run t p m restart blocks.
Proof. exact store_agree. Qed.
Print Assumptions C18_stor_agree.

(* RETR: exists and is_file *)
Theorem C18_retr_agree : forall t p d restart,
  lookup p t = Some (File d) -> retrieve m_run t p restart = retrieve p_run t p restart.
Proof. exact retrieve_agree. Qed.
Print Assumptions C18_retr_agree.

(* one command outside the root carve-out *)
Theorem C18_step_agree : forall rf t c,
  shape_ok c = true -> srv_step m_run (rf, t) c = srv_step p_run (rf, t) c.
Proof. intros rf t c _. exact (srv_step_agree rf t c). Qed.
Print Assumptions C18_step_agree.

Theorem C18_memfs_keeps_names_unique : forall t o, wf t -> wf (snd (m_run t o)).
Proof. exact m_run_wf. Qed.
Print Assumptions C18_memfs_keeps_names_unique.

(* ---- the four formerly refuted histories, as computed cases (each replayed on the real servers by the
   harness, where the three-way oracle must now hold) ---- *)
Example C18_former_F06_witness_agrees :      (* REST 2; STOR /m  (m missing): 150/451 on both, nothing created *)
  codes_of (srv_run m_run (None, wt0) [CStor [nm] 2 [[80; 81]]]) = [[150; 451]] /\
  srv_run m_run (None, wt0) [CStor [nm] 2 [[80; 81]]] = srv_run p_run (None, wt0) [CStor [nm] 2 [[80; 81]]] /\
  last_tree wt0 (srv_run m_run (None, wt0) [CStor [nm] 2 [[80; 81]]]) = wt0.
Proof. exact former_F06_witness_agrees. Qed.

Example C18_former_F07a_witness_agrees :     (* RNFR /d; RNTO /d/e/h: 451 on both, /d still there *)
  codes_of (srv_run m_run (None, wt0) [CRnfr [nd]; CRnto [nd; ne; nh]]) = [[350]; [451]] /\
  srv_run m_run (None, wt0) [CRnfr [nd]; CRnto [nd; ne; nh]] = srv_run p_run (None, wt0) [CRnfr [nd]; CRnto [nd; ne; nh]] /\
  last_tree wt0 (srv_run m_run (None, wt0) [CRnfr [nd]; CRnto [nd; ne; nh]]) = wt0.
Proof. exact former_F07a_witness_agrees. Qed.

Example C18_former_F07b_witness_agrees :     (* RNFR /d; RNTO /g/x (g a file): 451 on both, /d still there *)
  codes_of (srv_run m_run (None, wt0) [CRnfr [nd]; CRnto [ng; nx]]) = [[350]; [451]] /\
  srv_run m_run (None, wt0) [CRnfr [nd]; CRnto [ng; nx]] = srv_run p_run (None, wt0) [CRnfr [nd]; CRnto [ng; nx]] /\
  last_tree wt0 (srv_run m_run (None, wt0) [CRnfr [nd]; CRnto [ng; nx]]) = wt0.
Proof. exact former_F07b_witness_agrees. Qed.

Example C18_former_F17_witness_agrees :      (* RNFR /g; DELE /g; RNTO /g: 451 on both *)
  codes_of (srv_run m_run (None, wt0) [CRnfr [ng]; CDele [ng]; CRnto [ng]]) = [[350]; [250]; [451]] /\
  srv_run m_run (None, wt0) [CRnfr [ng]; CDele [ng]; CRnto [ng]] = srv_run p_run (None, wt0) [CRnfr [ng]; CDele [ng]; CRnto [ng]].
Proof. exact former_F17_witness_agrees. Qed.

(* all three backends in one statement: `a_run` is any backend whose every operation has PathIO's
   outcome -- what C18_fs_backends_equal (below) establishes for AsyncPathIO's wrappers *)
Theorem C18_three_backends_agree : forall a_run : node -> fsop -> result * node,
  (forall t o, a_run t o = p_run t o) ->
  forall cs rf t, shapes_ok cs = true ->
    srv_run m_run (rf, t) cs = srv_run p_run (rf, t) cs
    /\ srv_run a_run (rf, t) cs = srv_run p_run (rf, t) cs
    /\ inert_from t (srv_run m_run (rf, t) cs)
    /\ inert_from t (srv_run p_run (rf, t) cs)
    /\ inert_from t (srv_run a_run (rf, t) cs).
Proof. exact three_backends_agree. Qed.
Print Assumptions C18_three_backends_agree.

(* RETR sends the file block by block (iter_by_block(block_size): read(block_size) until b""); the model's
   `retrieve` takes one read(-1).  For every file, restart offset and block size the blocks concatenate
   to exactly the bytes from the offset on -- the payload of `retrieve`, on every backend *)
Theorem C18_retr_blocks_payload : forall data restart bs,
  0 < bs -> 0 <= restart ->
  concat (read_blocks (S (length data)) data restart bs) = skipn (Z.to_nat restart) data.
Proof. exact retr_blocks_payload. Qed.
Print Assumptions C18_retr_blocks_payload.

(* ---------------- API level: MemoryPathIO vs the file-system backends ---------------- *)
(* Outside the letter of the property (which relates the three backends behind the server and the two
   file-system backends at the API), but it is what makes the server-level statement robust: on the
   decidable domain `api_ok` -- every query, mkdir with every parents/exist_ok, rmdir/unlink on every
   path but the root, rename onto a missing destination, open in every mode on every path
   with every seek/read/write script inside the matrix `hop_cell_ok` / `ab_script_ok` -- MemFS and
   PosixFS give the same result-or-failure (up to the class of the error, also per call of a handle
   script) and the same tree after every operation of every sequence. *)
Theorem C18_api_mem_posix_agree_partial : forall os t,
  api_oks t os = true ->
  map blank_step (run_ops m_run t os) = map blank_step (run_ops p_run t os).
Proof. exact api_seq_sim. Qed.
Print Assumptions C18_api_mem_posix_agree_partial.

(* the open-mode x seek/read/write matrix: every tree, path, mode and script inside it *)
Theorem C18_open_matrix_agree : forall t p m s,
  open_ok t p m s = true ->
  blank_step (m_run t (Open p m s)) = blank_step (p_run t (Open p m s)).
Proof. exact open_sim. Qed.
Print Assumptions C18_open_matrix_agree.

(* the matrix itself: seek agrees in every mode; read in rb / r+b; write in wb / ab / r+b
   ('ab' additionally: no write after a successful seek, ab_script_ok) *)
Theorem C18_cell_matrix :
  (forall m off, hop_cell_ok m (HSeek off) = true) /\
  (forall n, hop_cell_ok RB (HRead n) = true /\ hop_cell_ok RPB (HRead n) = true /\
             hop_cell_ok WB (HRead n) = false /\ hop_cell_ok AB (HRead n) = false) /\
  (forall d, hop_cell_ok RB (HWrite d) = false /\ hop_cell_ok RPB (HWrite d) = true /\
             hop_cell_ok WB (HWrite d) = true /\ hop_cell_ok AB (HWrite d) = true).
Proof. exact cell_matrix. Qed.
Print Assumptions C18_cell_matrix.

(* mkdir agrees for every path and every combination of parents / exist_ok *)
Theorem C18_mkdir_agree : forall t p par eok,
  step_agree (m_run t (Mkdir p par eok)) (p_run t (Mkdir p par eok)).
Proof. exact mkdir_agree_all. Qed.
Print Assumptions C18_mkdir_agree.

(* the scripts the transfer workers issue lie inside the matrix *)
Theorem C18_worker_scripts_in_matrix : forall m restart blocks,
  (m = WB \/ m = AB) ->
  script_ok (if 0 <? restart then RPB else m)
            ((if 0 <? restart then [HSeek restart] else []) ++ map HWrite blocks) = true
  /\ script_ok RB ((if 0 <? restart then [HSeek restart] else []) ++ [HRead (-1)]) = true.
Proof. exact worker_scripts_in_matrix. Qed.
Print Assumptions C18_worker_scripts_in_matrix.

Example C18_api_oks_nonvacuous :
  api_oks wt0
    [Exists [nd]; IsDir [ng]; IsFile [ng]; Mkdir [nm; nx] true false; Mkdir [nd] false true; Mkdir [ng; nx] true true;
     Open [nm; nx; nf] WB [HWrite [1; 2]; HSeek 7; HWrite [3]; HSeek (-1)];
     Open [nm; nx; nf] AB [HWrite [4]; HWrite []; HSeek 0];
     Open [nm; nx; nf] RPB [HSeek 1; HRead 2; HWrite [5]; HSeek 0; HRead (-1)];
     Open [nm; nx; nf] RB [HSeek 3; HRead 1; HRead (-1)]; Open [nd] RB []; Open [nh; nf] WB []; Open [nf] BadMode [];
     List [nm; nx]; Stat [nm; nx; nf]; Rename [nm; nx; nf] [nd; ne; nh]; Rename [nh] [nx]; Unlink [nd; ne; nh];
     Rmdir [nm; nx]; Rmdir [nd]; Unlink [nd]] = true.
Proof. exact api_oks_nonvacuous. Qed.

(* every excluded cell is a divergence (witnesses on the tree /d/{f,e/}, /g; replayed on the real
   backends by the harness stream "api-matrix") *)
Theorem C18_rb_write_cell_refuted :
  exists t p s, wf t /\ open_ok t p RB s = false /\
    m_run t (Open p RB s) = (Ok (VOpen [HUnit]), upd p (fun _ => File [81; 121; 122]) t) /\
    p_run t (Open p RB s) = (Ok (VOpen [HErr EUnsupported]), t).
Proof. exact rb_write_cell_refuted. Qed.
Print Assumptions C18_rb_write_cell_refuted.

Theorem C18_wb_read_cell_refuted :
  exists t p s, wf t /\ open_ok t p WB s = false /\
    fst (m_run t (Open p WB s)) = Ok (VOpen [HUnit; HPos 0; HBytes [81]]) /\
    fst (p_run t (Open p WB s)) = Ok (VOpen [HUnit; HPos 0; HErr EUnsupported]).
Proof. exact wb_read_cell_refuted. Qed.
Print Assumptions C18_wb_read_cell_refuted.

Theorem C18_ab_seek_write_cell_refuted :
  exists t p s, wf t /\ open_ok t p AB s = false /\
    blank (fst (m_run t (Open p AB s))) = blank (fst (p_run t (Open p AB s))) /\
    lookup p (snd (m_run t (Open p AB s))) = Some (File [81; 121; 122]) /\
    lookup p (snd (p_run t (Open p AB s))) = Some (File [120; 121; 122; 81]).
Proof. exact ab_seek_write_cell_refuted. Qed.
Print Assumptions C18_ab_seek_write_cell_refuted.

(* r+b on a missing file was the fourth excluded cell (F06 at the API): inside the domain now *)
Example C18_former_rpb_missing_cell_agrees :
  open_ok wt0 [nm] RPB [] = true /\
  m_run wt0 (Open [nm] RPB []) = (Err ENOENT, wt0) /\ p_run wt0 (Open [nm] RPB []) = (Err ENOENT, wt0).
Proof. exact former_rpb_missing_cell_agrees. Qed.

Theorem C18_rename_over_existing_refuted :
  exists t a b, wf t /\ api_ok t (Rename a b) = false /\
    fst (m_run t (Rename a b)) = Ok VUnit /\ lookup a (snd (m_run t (Rename a b))) = None /\
    p_run t (Rename a b) = (Err EISDIR, t).
Proof. exact rename_over_existing_refuted. Qed.
Print Assumptions C18_rename_over_existing_refuted.

(* ---------------- API level: PathIO vs AsyncPathIO ---------------- *)
(* closed obligations over today's source (Gen.PathIOTable is regenerated on every run) *)
Lemma C18_translator_ok : translator_ok_pathio = true.
Proof. vm_compute. reflexivity. Qed.

Lemma C18_wrappers_forward : blocking_io_forwards = true /\ with_timeout_is_wait_for = true.
Proof. split; vm_compute; reflexivity. Qed.

Lemma C18_same_calls : same_calls table ops = true.
Proof. vm_compute. reflexivity. Qed.

Lemma C18_stacks_known : forall V : Type,
  stacks_known n_universal_exception n_with_timeout n_blocking_io n_defend_file_methods V table = true.
Proof. intro V. vm_compute. reflexivity. Qed.

(* used by C13 as well: universal_exception is the OUTERMOST decorator of every operation of all
   three backends (for `list`: of Lister.__anext__) *)
Lemma C18_all_wrapped : all_wrapped n_universal_exception table = true.
Proof. vm_compute. reflexivity. Qed.

(* with_timeout(None) o _blocking_io is the identity on outcomes (modelled) *)
Theorem C18_with_timeout_none_blocking_io_id : forall (V : Type) dur (r : raw V),
  with_timeout_sem V None dur (blocking_io_sem V r) = r.
Proof. exact with_timeout_none_blocking_io_id. Qed.
Print Assumptions C18_with_timeout_none_blocking_io_id.

(* For EVERY semantics `interp` of the forwarded pathlib/file calls (a function of the call text, the
   signature, the arguments and the state), every state and every sequence over the 14 backend
   operations: PathIO and AsyncPathIO give the same result-or-failure after every operation and the same
   final state -- with path_timeout = None, and with a finite timeout for calls that finish in time. *)
Theorem C18_fs_backends_equal : forall (V S : Type) (interp : list Z -> list Z -> sx -> S -> raw V * S)
                                       timeout (os : list aop) (s : S),
  Forall (fun o : aop => In (fst (fst o)) ops /\ quiet timeout (snd o)) os ->
  api_run n_universal_exception n_with_timeout n_blocking_io n_defend_file_methods V S interp table 0 timeout os s
  = api_run n_universal_exception n_with_timeout n_blocking_io n_defend_file_methods V S interp table 1 timeout os s.
Proof.
  intros V S interp timeout os s F.
  apply fs_backends_equal with (ops := ops); [exact C18_same_calls|apply C18_stacks_known|exact F].
Qed.
Print Assumptions C18_fs_backends_equal.

(* non-vacuity in the dimension "several handles, operations while a handle is open": the hypothesis of
   C18_fs_backends_equal holds for an interleaved sequence -- _open (handle 0), write, stat, _open (handle 1),
   read, close (1), seek (0), write (0), unlink, close (0); the arguments (here: the handle slot) are arbitrary
   data for `interp`.  The harness stream "api-steps" runs such sequences on the real PathIO and AsyncPathIO. *)
Definition C18_op (k : nat) : list Z := nth k ops [].
Definition C18_interleaved : list (list Z * sx * Z) :=
  [(C18_op 8, I 0, 0); (C18_op 10, I 0, 0); (C18_op 7, I 0, 0); (C18_op 8, I 1, 0); (C18_op 11, I 1, 0);
   (C18_op 12, I 1, 0); (C18_op 9, I 0, 0); (C18_op 10, I 0, 0); (C18_op 5, I 0, 0); (C18_op 12, I 0, 0)].
Example C18_fs_backends_equal_interleaved_nonvacuous :
  map (fun o : list Z * sx * Z => fst (fst o)) C18_interleaved
   = [[95;111;112;101;110]; [119;114;105;116;101]; [115;116;97;116]; [95;111;112;101;110]; [114;101;97;100];
      [99;108;111;115;101]; [115;101;101;107]; [119;114;105;116;101]; [117;110;108;105;110;107]; [99;108;111;115;101]]
  /\ Forall (fun o : list Z * sx * Z => In (fst (fst o)) ops /\ quiet None (snd o)) C18_interleaved.
Proof.
  split; [vm_compute; reflexivity|].
  repeat (apply Forall_cons; [split; [vm_compute; repeat (first [left; reflexivity | right])|exact Logic.I]|]).
  apply Forall_nil.
Qed.

(* ---------------- rename: "inside the source" is decided on path COMPONENTS (round 7) ----------------
   MemoryPathIO.rename refuses a destination that lies inside the source (`destination.is_relative_to(source)`,
   EINVAL like rename(2)).  The relation is on the list of names, not on the characters of the path strings. *)

(* the test of the model is exactly "the destination is the source followed by further COMPONENTS" *)
Theorem C18_rename_inside_is_componentwise : forall a b : path,
  is_prefix a b = true <-> exists c : path, b = a ++ c.
Proof. exact is_prefix_spec. Qed.
Print Assumptions C18_rename_inside_is_componentwise.

(* a sibling whose name extends the source's name by a non-empty suffix (report -> report.bak, d -> d2, dd) -- and
   everything below such a sibling -- is NOT inside the source; nor is the shorter name inside the longer one.  For
   every parent path (every depth), every name, every suffix. *)
Theorem C18_rename_sibling_extension_not_inside : forall (ap : path) (an s : name) (rest : path),
  s <> [] ->
  is_prefix (ap ++ [an]) (ap ++ (an ++ s) :: rest) = false /\ is_prefix (ap ++ [an ++ s]) (ap ++ an :: rest) = false.
Proof.
  intros ap an s rest Hs. split; [apply sibling_extension_not_inside|apply sibling_truncation_not_inside]; exact Hs.
Qed.
Print Assumptions C18_rename_sibling_extension_not_inside.

(* hence on the in-memory backend the rename of ANY existing entry (file or directory, any depth) to a missing
   sibling name that extends its own succeeds and moves the entry, exactly as on the file-system backends *)
Theorem C18_rename_sibling_extension_agree : forall t (ap : path) (an s : name) sn,
  s <> [] -> lookup (ap ++ [an]) t = Some sn -> lookup (ap ++ [an ++ s]) t = None ->
  step_agree (m_run t (Rename (ap ++ [an]) (ap ++ [an ++ s]))) (p_run t (Rename (ap ++ [an]) (ap ++ [an ++ s])))
  /\ m_run t (Rename (ap ++ [an]) (ap ++ [an ++ s]))
     = (Ok VUnit, upd ap (on_dir (put (an ++ s) sn)) (upd ap (on_dir (remove_first an)) t)).
Proof.
  intros t ap an s sn Hs L N. split.
  - exact (proj1 (rename_sibling_extension_agree t ap an s sn Hs L N)).
  - exact (m_rename_sibling_extension t ap an s sn Hs L).
Qed.
Print Assumptions C18_rename_sibling_extension_agree.

(* non-vacuity / computed cases on the tree /d/{f,e/}, /g: d -> d2 (directory), d/f -> d/f.bak (file, depth 2): both
   backends answer ok and hold the moved entry; d -> d/x (a true descendant) is refused by both, tree unchanged *)
Definition C18_ext_tree : node :=
  Dir [([100], Dir [([102], File [97;98;99]); ([101], Dir [])]); ([103], File [120])].
Example C18_rename_sibling_extension_cases :
  m_run C18_ext_tree (Rename [[100]] [[100;50]])
    = (Ok VUnit, Dir [([103], File [120]); ([100;50], Dir [([102], File [97;98;99]); ([101], Dir [])])])
  /\ fst (p_run C18_ext_tree (Rename [[100]] [[100;50]])) = Ok VUnit
  /\ abs (snd (p_run C18_ext_tree (Rename [[100]] [[100;50]]))) = abs (snd (m_run C18_ext_tree (Rename [[100]] [[100;50]])))
  /\ fst (m_run C18_ext_tree (Rename [[100];[102]] [[100];[102;46;98;97;107]])) = Ok VUnit
  /\ snd (m_run C18_ext_tree (Rename [[100];[102]] [[100];[102;46;98;97;107]]))
     = snd (p_run C18_ext_tree (Rename [[100];[102]] [[100];[102;46;98;97;107]]))
  /\ m_run C18_ext_tree (Rename [[100]] [[100];[120]]) = (Err EINVAL, C18_ext_tree)
  /\ p_run C18_ext_tree (Rename [[100]] [[100];[120]]) = (Err EINVAL, C18_ext_tree).
Proof. vm_compute. repeat split; reflexivity. Qed.
