(* C07 — placeholder while the proofs are being built *)
From Coq Require Import ZArith List Bool.
From Verif Require Import Lib.Sx Lib.Civil Proofs.CivilFacts.
Open Scope Z_scope.
Theorem C07_epoch_roundtrip : forall e, epoch_of_civil (civil_of_epoch e) = e /\ valid_dt (civil_of_epoch e) = true.
Proof. exact epoch_of_civil_of_epoch. Qed.
Print Assumptions C07_epoch_roundtrip.
