(* C07 — Listings and stats report the backend's truth (MLSD, MLST, LIST fallback).
   Property statements only; proofs live in Proofs/CivilFacts.v, LsDateFacts.v, ListingFacts.v.
   The constants HALF_OF_YEAR_IN_SECONDS / TWO_YEARS_IN_SECONDS are those regenerated from
   /repo/src/aioftp/common.py (Gen/Consts.v); the half year OF THE PROPERTY is the fixed number
   half_year_spec = 15778476 s (365.2425 d / 2) and the one-day window it grants is
   (now - half_year_spec, now - half_year_spec + 1 d]. *)
From Coq Require Import ZArith QArith Qround List Bool.
From Verif Require Import Lib.Sx Lib.PyStr Lib.PyStr2 Lib.Civil Model.LsDate Model.Listing Model.ListingClient.
From Verif Require Import Proofs.PyStr2Facts Proofs.CivilFacts Proofs.LsDateFacts Proofs.ListingFacts Proofs.ListingClientFacts.
From Verif Require Model.Framing.
From Verif Require Import Gen.Consts.
Import ListNotations.
Open Scope Z_scope.

Definition HALF : Z := half_of_year_in_seconds_num.
Definition TWO : Z := two_years_in_seconds_num.

(* closed obligation on today's source: the translator classified common.py / errors.py, both
   constants are integers, HALF lies in [half_year_spec - 82740, half_year_spec] and
   TWO_YEARS >= half_year_spec *)
Theorem C07_constants_ok :
  translator_ok_consts = true /\ half_of_year_in_seconds_den = 1 /\ two_years_in_seconds_den = 1 /\
  consts_ok HALF TWO = true.
Proof. vm_compute. repeat split; reflexivity. Qed.
Print Assumptions C07_constants_ok.

Lemma consts_proof : consts_ok HALF TWO = true.
Proof. exact (proj2 (proj2 (proj2 C07_constants_ok))). Qed.

Lemma half_le_spec : HALF <= half_year_spec.
Proof. vm_compute. discriminate. Qed.

(* ---------------- calendar (all Z) ---------------- *)
Theorem C07_civil_days_roundtrip : forall z,
  let '(y, m, d) := civil_from_days z in days_from_civil y m d = z /\ valid_date y m d = true.
Proof. exact days_from_civil_from_days. Qed.
Print Assumptions C07_civil_days_roundtrip.

Theorem C07_days_civil_roundtrip : forall y m d,
  valid_date y m d = true -> civil_from_days (days_from_civil y m d) = (y, m, d).
Proof. exact civil_from_days_from_civil. Qed.
Print Assumptions C07_days_civil_roundtrip.

Theorem C07_epoch_roundtrip : forall e,
  epoch_of_civil (civil_of_epoch e) = e /\ valid_dt (civil_of_epoch e) = true.
Proof. exact epoch_of_civil_of_epoch. Qed.
Print Assumptions C07_epoch_roundtrip.

Theorem C07_civil_epoch_roundtrip : forall t, valid_dt t = true -> civil_of_epoch (epoch_of_civil t) = t.
Proof. exact civil_of_epoch_of_civil. Qed.
Print Assumptions C07_civil_epoch_roundtrip.

(* ---------------- MLSD / MLST ---------------- *)
(* every entry (any stats, any kind, any non-empty name without trailing whitespace; LF-freeness is
   the line protocol's, C06) is parsed back to exactly its name and the four facts, in order *)
Theorem C07_mlsx_roundtrip : forall st kind name,
  name_ok name ->
  parse_mlsx_line (build_mlsx_string (Some st) kind name)
  = Ok (name, [ (l_size, str_of_Z (st_size st));
                (l_create, format_mlsx_time (st_ctime st));
                (l_modify, format_mlsx_time (st_mtime st));
                (l_type, kind_text kind) ]).
Proof. exact mlsx_roundtrip. Qed.
Print Assumptions C07_mlsx_roundtrip.

(* the size fact is the decimal text of the byte size: int() of it is the size, for every size >= 0 *)
Theorem C07_mlsx_size_exact : forall n, 0 <= n -> int_of_ascii_digits (str_of_Z n) = n.
Proof. intros n H. rewrite (str_of_Z_nonneg n H). exact (int_of_str_of_nonneg n H). Qed.
Print Assumptions C07_mlsx_size_exact.

(* the modify/create facts are the 14 digits of the UTC civil time of the backend's seconds, and
   read back they denote exactly those seconds — for every instant in years 1000..9999 *)
Theorem C07_mlsx_time_exact : forall e,
  1000 <= yr (civil_of_epoch e) <= 9999 ->
  format_mlsx_time e = fmt_14 (civil_of_epoch e) /\
  epoch_of_civil (parse14 (format_mlsx_time e)) = e.
Proof. intros e H. split; [reflexivity|exact (mlsx_time_exact e H)]. Qed.
Print Assumptions C07_mlsx_time_exact.

(* the MLSD worker loop, its lines parsed one by one: each directory entry exactly once, in order,
   none invented, each with its own facts (entries are an arbitrary list; names are single
   components other than "." and "..").  The client's lister loop over them is
   C07_client_mlsd_exact below. *)
Theorem C07_mlsd_entries_exact : forall dir,
  Forall (fun e => entry_name_ok (de_name e)) dir ->
  map parse_mlsx_line (mlsd_lines dir)
  = map (fun e => Ok (de_name e, entry_of (mlsx_facts (de_stat e) (de_kind e)))) dir.
Proof. exact mlsd_entries_exact. Qed.
Print Assumptions C07_mlsd_entries_exact.

(* nothing is invented from a line without a pathname: no SP, or nothing after it, is a ValueError
   (before the fix such a line parsed to the name '.' and was silently skipped) *)
Theorem C07_mlsx_no_name_rejected : forall s,
  (forallb (fun x => negb (x =? 32)) (rstrip s) = true \/
   exists f, rstrip s = f ++ [32] /\ forallb (fun x => negb (x =? 32)) f = true) ->
  parse_mlsx_line s = Err E_VALUE.
Proof. exact mlsx_no_name_rejected. Qed.
Print Assumptions C07_mlsx_no_name_rejected.

(* ---------------- LIST fallback: the date column ---------------- *)
(* within the last half year, except the one-day window, and with the client's clock between the
   server's and one hour later: the client reads the backend's mtime floored to the minute
   (in the common zone UTC+off) — New Year, Feb 29 of leap/century years, %e padding and
   December-listed-in-January are all instances *)
Theorem C07_ls_date_recent : forall off mtime now now',
  now <= now' <= now + HOUR ->
  now - half_year_spec + DAY < mtime <= now ->
  let tm := civil_of_epoch (mtime + off) in
  1000 <= yr tm -> yr (client_now off now') <= 9999 ->
  parse_ls_date_dt HALF TWO (build_list_mtime HALF off mtime now) (client_now off now')
  = Some (minute_floor tm).
Proof. exact (fun off mtime now now' => ls_date_recent HALF TWO off mtime now now' consts_proof). Qed.
Print Assumptions C07_ls_date_recent.

(* older than half a year, or in the future: the day, whatever the client's clock says *)
Theorem C07_ls_date_old_or_future : forall off mtime now nowdt,
  mtime <= now - half_year_spec \/ now < mtime ->
  let tm := civil_of_epoch (mtime + off) in
  1000 <= yr tm <= 9999 ->
  parse_ls_date_dt HALF TWO (build_list_mtime HALF off mtime now) nowdt = Some (day_floor tm).
Proof. exact (fun off mtime now nowdt => ls_date_old_or_future HALF TWO off mtime now nowdt half_le_spec). Qed.
Print Assumptions C07_ls_date_old_or_future.

(* what the two floors are, in seconds *)
Theorem C07_floor_meaning : forall e,
  epoch_of_civil (minute_floor (civil_of_epoch e)) = e - e mod 60 /\
  epoch_of_civil (day_floor (civil_of_epoch e)) = e - e mod 86400.
Proof. intro e. split; [exact (epoch_minute_floor e)|exact (epoch_day_floor e)]. Qed.
Print Assumptions C07_floor_meaning.

(* the exception the property grants is not vacuous: inside the window the inferred year is wrong,
   (a) within one civil year, (b) across New Year *)
Theorem C07_ls_date_window_witness :
  (exists mtime now d,
     now - half_year_spec < mtime <= now - half_year_spec + DAY /\
     parse_ls_date_dt half_year_spec 63115200 (build_list_mtime half_year_spec 0 mtime now) (client_now 0 now) = Some d /\
     yr d = yr (civil_of_epoch mtime) + 1 /\ yr (civil_of_epoch now) = yr (civil_of_epoch mtime)) /\
  (exists mtime now d,
     now - half_year_spec < mtime <= now - half_year_spec + DAY /\
     parse_ls_date_dt half_year_spec 63115200 (build_list_mtime half_year_spec 0 mtime now) (client_now 0 now) = Some d /\
     yr d = yr (civil_of_epoch mtime) + 1 /\ yr (civil_of_epoch now) = yr (civil_of_epoch mtime) + 1).
Proof.
  split.
  - exists (1725148800 - half_year_spec + 1), 1725148800, (mkdt 2025 3 2 9 5 0).
    vm_compute. repeat split; congruence.
  - exists (1740787200 - half_year_spec + 3600), 1740787200, (mkdt 2025 8 30 10 5 0).
    vm_compute. repeat split; congruence.
Qed.
Print Assumptions C07_ls_date_window_witness.

(* ---------------- LIST fallback: the whole line ---------------- *)
(* FULL STATEMENT (refuted below by F13a only): for every entry the LIST line parses back to the
   same name, type and size.  PROVED: for regular files and directories with ANY mode (all 12
   permission bits, the S/T letters included since the F13b fix) whose name has no
   leading/trailing whitespace — name, type, size, link count, permission bits, date as above. *)
Theorem C07_list_roundtrip_partial : forall now st ds name modify,
  (filetype_char (st_mode st) = 45 \/ filetype_char (st_mode st) = 100) ->
  0 <= st_nlink st -> 0 <= st_size st ->
  length ds = 12%nat -> strip_fixed ds -> strip_fixed name ->
  parse_ls_date HALF TWO ds now = Some modify ->
  parse_list_line_unix HALF TWO now (build_list_string_with st ds name)
  = Ok (name, list_info st modify).
Proof. exact (list_roundtrip HALF TWO). Qed.
Print Assumptions C07_list_roundtrip_partial.

Theorem C07_list_line_recent_partial : forall off now now' st name,
  now <= now' <= now + HOUR ->
  now - half_year_spec + DAY < st_mtime st <= now ->
  plain_entry st name ->
  let tm := civil_of_epoch (st_mtime st + off) in
  1000 <= yr tm -> yr (client_now off now') <= 9999 ->
  parse_list_line_unix HALF TWO (client_now off now') (build_list_string HALF off now st name)
  = Ok (name, list_info st (format_date_time tm)).
Proof. exact (fun off now now' st name => list_line_recent HALF TWO off now now' st name consts_proof). Qed.
Print Assumptions C07_list_line_recent_partial.

Theorem C07_list_line_old_or_future_partial : forall off now nowdt st name,
  st_mtime st <= now - half_year_spec \/ now < st_mtime st ->
  plain_entry st name ->
  let tm := civil_of_epoch (st_mtime st + off) in
  1000 <= yr tm <= 9999 ->
  parse_list_line_unix HALF TWO nowdt (build_list_string HALF off now st name)
  = Ok (name, list_info st (fmt_14 (day_floor tm))).
Proof. exact (fun off now nowdt st name => list_line_old_or_future HALF TWO off now nowdt st name half_le_spec). Qed.
Print Assumptions C07_list_line_old_or_future_partial.

(* the LIST worker loop + the client's per-line parser over an arbitrary directory: each entry
   exactly once, in order, with its name, type, size and the date to the format's precision —
   for plain entries outside the one-day window *)
Theorem C07_list_entries_exact_partial : forall off now now' dir,
  now <= now' <= now + HOUR -> yr (client_now off now') <= 9999 ->
  Forall (list_entry_ok off now) dir ->
  map (parse_list_line_unix HALF TWO (client_now off now')) (list_lines HALF off now dir)
  = map (fun e => match de_stat e with
                  | Some st => Ok (de_name e, list_info st (expected_modify off now st))
                  | None => Err 0
                  end) dir.
Proof. exact (fun off now now' dir => list_entries_exact HALF TWO off now now' dir consts_proof). Qed.
Print Assumptions C07_list_entries_exact_partial.

(* F13b repaired — the mode column for ALL modes: the nine letters stat.filemode prints for any
   st_mode are read back by parse_unix_mode as the 12 permission bits (S/T included), exactly,
   except that 't' (sticky AND others-execute) is read without the others-execute bit *)
Theorem C07_list_mode_roundtrip : forall mode,
  parse_unix_mode (perm_chars mode) = Ok (mode_view mode) /\
  ((bit mode 9 && bit mode 0) = false -> mode_view mode = mode mod 4096).
Proof. exact (fun mode => conj (parse_perm_chars mode) (mode_view_exact mode)). Qed.
Print Assumptions C07_list_mode_roundtrip.

(* the former F13b witness (0o104644, '-rwSr--r--') is an ordinary instance now *)
Theorem C07_list_setuid_witness :
  let st := mkstats 5 0 1717243100 1 35236 in
  parse_list_line_unix half_year_spec 63115200 (civil_of_epoch 1717243200)
    (build_list_string half_year_spec 0 1717243200 st [102])
  = Ok ([102], list_info st [50; 48; 50; 52; 48; 54; 48; 49; 49; 49; 53; 56; 48; 48])
  /\ li_mode (list_info st []) = 2468 /\ no_ST (st_mode st) = false.
Proof. exact list_line_setuid_witness. Qed.
Print Assumptions C07_list_setuid_witness.

(* F13a: a name with leading whitespace comes back without it *)
Theorem C07_list_leading_space_refuted :
  exists st name nowdt now name',
    parse_list_line_unix half_year_spec 63115200 nowdt (build_list_string half_year_spec 0 now st name)
    = Ok (name', list_info st [50; 48; 50; 52; 48; 54; 48; 49; 49; 49; 53; 56; 48; 48])
    /\ name <> name' /\ rstrip name = name.
Proof.
  exists (mkstats 5 0 1717243100 1 33188), [32; 97], (civil_of_epoch 1717243200), 1717243200, [97].
  split; [exact list_leading_space_lost|]. split; [discriminate|vm_compute; reflexivity].
Qed.
Print Assumptions C07_list_leading_space_refuted.

(* ---------------- non-vacuity of the hypotheses ---------------- *)
Example C07_recent_hypotheses_satisfiable :
  let off := 10800 in let now := 1709251230 in let now' := now + 3600 in
  let mtime := now - half_year_spec + DAY + 1 in
  now <= now' <= now + HOUR /\ now - half_year_spec + DAY < mtime <= now /\
  1000 <= yr (civil_of_epoch (mtime + off)) /\ yr (client_now off now') <= 9999 /\
  yr (civil_of_epoch (mtime + off)) + 1 = yr (client_now off now').
Proof. vm_compute. repeat split; congruence. Qed.

Example C07_plain_entry_satisfiable :
  plain_entry (mkstats 1099511627776 0 1709251230 1 33188) [97; 32; 98] /\
  plain_entry (mkstats 0 0 951782400 2 16877) [100] /\
  plain_entry (mkstats 5 0 1717243100 1 35236) [102].     (* 0o104644: set-uid without x *)
Proof.
  unfold plain_entry, strip_fixed. cbn [st_mode st_nlink st_size].
  repeat split; try (vm_compute; congruence); try discriminate; try (left; vm_compute; reflexivity);
    try (right; vm_compute; reflexivity).
Qed.

(* ---------------- Client.list() / Client.stat(): the glue around the line parsers ---------------- *)
(* Client.list(raw_command="LIST"), or the fallback after a 50x answer to MLSD, on the lines the
   server's LIST worker writes for an arbitrary directory: every entry that exists exactly once, in
   order, none invented, with name, type, permission bits, link count, size and the date to the
   format's precision — whatever the Windows / custom parsers later in the chain would do.
   FULL STATEMENT (all entries) is refuted by C07_list_leading_space_refuted (F13a) only; PROVED
   for plain entries (regular files and directories of ANY mode, names without leading/trailing
   whitespace) outside the one-day window. *)
Theorem C07_client_list_exact_partial : forall off now now' others dir,
  now <= now' <= now + HOUR -> yr (client_now off now') <= 9999 ->
  Forall (list_item_ok off now) (present dir) ->
  client_collect (parse_list_line (parse_list_line_unix HALF TWO (client_now off now')) others) (fun _ => true)
                 (list_lines HALF off now dir)
  = Ok (map (fun r => (fst r, list_info (snd r) (expected_modify off now (snd r)))) (present dir)).
Proof. exact (fun off now now' others dir => client_list_exact HALF TWO off now now' others dir consts_proof). Qed.
Print Assumptions C07_client_list_exact_partial.

(* the default path: Client.list() over MLSD through the same loop *)
Theorem C07_client_mlsd_exact : forall dir,
  Forall (fun e => entry_name_ok (de_name e)) dir ->
  client_collect parse_mlsx_line entry_has_type (mlsd_lines dir)
  = Ok (map (fun e => (de_name e, entry_of (mlsx_facts (de_stat e) (de_kind e)))) dir).
Proof. exact client_mlsd_collect. Qed.
Print Assumptions C07_client_mlsd_exact.

(* a parsed line without a type fact makes the listing a ValueError — also when it is a "." line *)
Theorem C07_client_list_typeless_rejected : forall pre l post r,
  Forall (fun x => exists r, parse_mlsx_line x = Ok r /\ entry_has_type (snd r) = true) pre ->
  parse_mlsx_line l = Ok r -> entry_has_type (snd r) = false ->
  client_collect parse_mlsx_line entry_has_type (pre ++ l :: post) = Err E_VALUE.
Proof. exact (client_collect_typeless parse_mlsx_line entry_has_type). Qed.
Print Assumptions C07_client_list_typeless_rejected.

(* which command reads the listing: MLSD unless it is answered 50x (then LIST, only when the caller
   did not force MLSD), LIST when forced *)
Theorem C07_list_plan :
  list_plan_of 0 false = UseMLSD /\ list_plan_of 0 true = UseLIST /\
  list_plan_of 1 false = UseMLSD /\ list_plan_of 1 true = RaiseStatus /\
  (forall b, list_plan_of 2 b = UseLIST).
Proof. exact list_plan_cases. Qed.
Print Assumptions C07_list_plan.

(* HISTORIES on one connection: the plan of a list() call is a function of that call alone (its raw_command and
   whether ITS MLSD was answered 50x) — whatever was called, and whatever was refused, earlier on the connection.
   In particular after any history a default / forced-MLSD listing whose MLSD is accepted is read as MLSD
   (C07_client_mlsd_exact: second-exact UTC times), never through the LIST fallback. *)
Theorem C07_list_plan_history_independent : forall h raw b,
  list_plans (h ++ [(raw, b)]) = list_plans h ++ [list_plan_of raw b].
Proof. exact list_plan_history_independent. Qed.
Print Assumptions C07_list_plan_history_independent.

Theorem C07_list_plan_after_any_history : forall h raw,
  last (list_plans (h ++ [(raw, false)])) RaiseStatus = (if raw =? 2 then UseLIST else UseMLSD).
Proof. exact list_plan_after_any_history. Qed.
Print Assumptions C07_list_plan_after_any_history.

Example C07_list_plan_history_witness :   (* refused before login (50x), then accepted: MLSD *)
  list_plans [(0, true); (0, false)] = [UseLIST; UseMLSD].
Proof. reflexivity. Qed.

(* the LIST fallback tells the same type and size as MLSD (and the link count and permission bits
   of the backend) for every entry of a backend whose is_file/is_dir agree with st_mode *)
Theorem C07_list_agrees_with_mlsd : forall st kind modify,
  kind_consistent st kind ->
  let info := list_info st modify in
  let entry := entry_of (mlsx_facts (Some st) kind) in
  dict_get l_type entry = Some (li_type info) /\
  dict_get l_size entry = Some (li_size info) /\
  li_size info = str_of_Z (st_size st) /\
  li_links info = str_of_Z (st_nlink st) /\
  li_mode info = mode_view (st_mode st).
Proof. exact list_agrees_with_mlsd. Qed.
Print Assumptions C07_list_agrees_with_mlsd.

(* MLST: Server.mlst's reply through write_response, the wire and the client's parse_response
   (the C06 framing model), then Client.stat's info[1].lstrip() and parse_mlsx_line: exactly the
   entry's own facts, for every stats/kind, every name without LF and trailing whitespace, and
   whatever follows on the control stream *)
Theorem C07_mlst_roundtrip : forall st kind name k,
  name_ok name -> avoids 10 name ->
  exists wl info,
    Model.Framing.write_response c250 (mlst_lines st kind name) true = Some wl /\
    Model.Framing.parse_response (Model.Framing.split_lines (Model.Framing.wire wl ++ k))
      = Model.Framing.POk c250 info (Model.Framing.split_lines k) /\
    client_stat_mlst info = Ok (entry_of (mlsx_facts st kind)).
Proof. exact mlst_roundtrip. Qed.
Print Assumptions C07_mlst_roundtrip.

(* Client.stat's fallback (MLST answered 50x): the parent's listing searched for path.name gives
   that entry's own line — entries of one directory have distinct names — and a name that is not
   there is reported missing, not invented *)
Theorem C07_stat_via_list_exact : forall off now dir r,
  NoDup (map fst (present dir)) -> In r (present dir) ->
  client_stat_via_list (fst r)
    (map (fun r => (fst r, list_info (snd r) (expected_modify off now (snd r)))) (present dir))
  = Some (list_info (snd r) (expected_modify off now (snd r))).
Proof. exact stat_via_list_exact. Qed.
Print Assumptions C07_stat_via_list_exact.

Theorem C07_stat_via_mlsd_exact : forall dir e,
  NoDup (map de_name dir) -> In e dir ->
  client_stat_via_list (de_name e)
    (map (fun e => (de_name e, entry_of (mlsx_facts (de_stat e) (de_kind e)))) dir)
  = Some (entry_of (mlsx_facts (de_stat e) (de_kind e))).
Proof. exact stat_via_mlsd_exact. Qed.
Print Assumptions C07_stat_via_mlsd_exact.

Theorem C07_stat_via_list_missing : forall off now dir n,
  ~ In n (map fst (present dir)) ->
  client_stat_via_list n
    (map (fun r => (fst r, list_info (snd r) (expected_modify off now (snd r)))) (present dir)) = None.
Proof. exact stat_via_list_missing. Qed.
Print Assumptions C07_stat_via_list_missing.

(* non-vacuity: a directory with a file, a vanished entry, a directory *)
Example C07_client_list_hypotheses_satisfiable :
  let now := 1709251230 in
  let dir := [ mkdentry [97; 32; 98] (Some (mkstats 1099511627776 0 1709251230 1 33188)) K_FILE;
               mkdentry [103] None K_UNKNOWN;
               mkdentry [100] (Some (mkstats 0 0 951782400 2 16877)) K_DIR ] in
  Forall (list_item_ok 10800 now) (present dir) /\ NoDup (map fst (present dir)) /\
  kind_consistent (mkstats 0 0 951782400 2 16877) K_DIR.
Proof.
  cbn zeta. split; [|split].
  - unfold present. cbn [flat_map de_stat de_name app].
    apply Forall_cons; [|apply Forall_cons; [|apply Forall_nil]]; (split; [|split; [|split]]); cbn [fst snd st_mtime].
    + exact (proj1 C07_plain_entry_satisfiable).
    + split; discriminate.
    + vm_compute. split; congruence.
    + left. vm_compute. split; [reflexivity|congruence].
    + exact (proj1 (proj2 C07_plain_entry_satisfiable)).
    + split; discriminate.
    + vm_compute. split; congruence.
    + right. left. vm_compute. congruence.
  - unfold present. cbn [flat_map de_stat de_name app map fst].
    apply NoDup_cons; [cbn [In]; intros [H|[]]; discriminate|]. apply NoDup_cons; [intros []|apply NoDup_nil].
  - right. split; reflexivity.
Qed.

(* ---------------- round 3: backend faults at one entry; zones with DST ---------------- *)
(* "each once, none invented" under backend faults: the workers call the backend once per entry and
   do not catch its errors, so (1) a fault at ANY entry of an arbitrary directory fails the command
   (451 after 150; no 2xx listing ever hides an existing entry whose stat failed) and (2) a listing
   that completes is the complete directory, as the client reads it *)
Theorem C07_mlsd_complete_or_fails : forall faulty dir,
  Forall (fun e => entry_name_ok (de_name e)) dir ->
  (existsb faulty dir = true -> mlsd_worker faulty dir = None) /\
  (forall ls, mlsd_worker faulty dir = Some ls ->
     existsb faulty dir = false /\
     client_collect parse_mlsx_line entry_has_type ls
     = Ok (map (fun e => (de_name e, entry_of (mlsx_facts (de_stat e) (de_kind e)))) dir)).
Proof. exact mlsd_complete_or_fails. Qed.
Print Assumptions C07_mlsd_complete_or_fails.

Theorem C07_list_complete_or_fails_partial : forall off now now' others faulty dir,
  now <= now' <= now + HOUR -> yr (client_now off now') <= 9999 ->
  Forall (list_item_ok off now) (present dir) ->
  (existsb faulty dir = true -> list_worker HALF off now faulty dir = None) /\
  (forall ls, list_worker HALF off now faulty dir = Some ls ->
     existsb faulty dir = false /\
     client_collect (parse_list_line (parse_list_line_unix HALF TWO (client_now off now')) others) (fun _ => true) ls
     = Ok (map (fun r => (fst r, list_info (snd r) (expected_modify off now (snd r)))) (present dir))).
Proof. exact (fun off now now' others faulty dir => list_complete_or_fails HALF TWO off now now' others faulty dir consts_proof). Qed.
Print Assumptions C07_list_complete_or_fails_partial.

(* zones with DST: the offset at the file's instant (off_m) and at the client's clock (off_n) may
   differ.  PROVED: C07_ls_date_old_or_future holds for ANY client clock (so for every zone), and
   the recent case holds whenever the client's local clock, shifted by the offset difference, is
   still within [now, now + 1 h] — e.g. clocks went forward between mtime and now and the two
   machines' clocks agree.  NOT PROVED (validated by the DST streams of the harness only): the
   recent case when clocks went back between mtime and now (the shifted clock is up to 1 h
   BEHIND the server's), and localtime itself. *)
Theorem C07_ls_date_recent_two_offsets_partial : forall off_m off_n mtime now now',
  now <= now' + (off_n - off_m) <= now + HOUR ->
  now - half_year_spec + DAY < mtime <= now ->
  let tm := civil_of_epoch (mtime + off_m) in
  1000 <= yr tm -> yr (client_now off_n now') <= 9999 ->
  parse_ls_date_dt HALF TWO (build_list_mtime HALF off_m mtime now) (client_now off_n now')
  = Some (minute_floor tm).
Proof. exact (fun off_m off_n mtime now now' => ls_date_recent_two_offsets HALF TWO off_m off_n mtime now now' consts_proof). Qed.
Print Assumptions C07_ls_date_recent_two_offsets_partial.

Example C07_two_offsets_satisfiable :   (* CET -> CEST: mtime 2024-03-30 12:00Z, now 2024-03-31 12:00Z *)
  let off_m := 3600 in let off_n := 7200 in let now := 1711886400 in let mtime := 1711800000 in
  now <= now + (off_n - off_m) <= now + HOUR /\ now - half_year_spec + DAY < mtime <= now /\
  1000 <= yr (civil_of_epoch (mtime + off_m)) /\ yr (client_now off_n now) <= 9999.
Proof. vm_compute. repeat split; congruence. Qed.

Example C07_fault_fails_listing :
  mlsd_worker (fun e => de_kind e =? 7) [mkdentry [97] None 0; mkdentry [98] None 7; mkdentry [99] None 0] = None.
Proof. reflexivity. Qed.

(* ---------------- round 4: sub-second timestamps ---------------- *)
(* "modification time in UTC seconds" for a backend time with a fractional part (a float is an
   exact rational): the Modify/Create fact of q denotes the second e with e <= q < e + 1 — the
   floor, never the next second (so 23:59:59.9999997 stays on its day, month and year) *)
Theorem C07_mlsx_time_real_floor : forall q : Q,
  1000 <= yr (civil_of_epoch (Qfloor q)) <= 9999 ->
  let e := epoch_of_civil (parse14 (format_mlsx_time_real q)) in
  (inject_Z e <= q)%Q /\ (q < inject_Z (e + 1))%Q.
Proof. exact mlsx_time_real_floor. Qed.
Print Assumptions C07_mlsx_time_real_floor.

Example C07_mlsx_time_real_witness :   (* 1999-12-31 23:59:59.9999997 *)
  format_mlsx_time_real (9466847999999997 # 10000000) = [49;57;57;57;49;50;51;49;50;51;53;57;53;57].
Proof. vm_compute. reflexivity. Qed.

(* non-vacuity of C07_client_list_typeless_rejected / C07_mlsx_no_name_rejected:
   "x=1; ." parses to the name "." with no type fact; "Type=file;" has no pathname *)
Example C07_typeless_line_exists :
  parse_mlsx_line [120; 61; 49; 59; 32; 46] = Ok ([46], [([120], [49])]) /\
  entry_has_type [([120], [49])] = false /\
  parse_mlsx_line [84; 121; 112; 101; 61; 102; 105; 108; 101; 59] = Err E_VALUE.
Proof. vm_compute. repeat split; reflexivity. Qed.
