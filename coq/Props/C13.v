(* C13 — Backend failures are contained: 451, data channel closed, session lives on.
   Property statements only; proofs in Proofs/Faults.v (call / loop / context / handler specs) and
   Proofs/FaultsStep.v (dispatcher level).  Model: Model/Faults.v, the sequential session semantics with
   a fault oracle ([fw_plan]: head = "the next backend call raises"; a genuine backend error raises the
   same way) at EVERY backend call site: PathConditions probes, body calls, and in the workers open /
   seek / each read / each write / close / each list step / per-entry exists, stat, is_file, is_dir.
   [raised w0 w'] = at least one backend call of the command raised (ghost counter [fw_faults]).
   The structural parameters are the facts REGENERATED from /repo/src/aioftp/{server,pathio}.py on this
   run: [gen_table] (decorator stacks), [pathcond_defs] (PathConditions probes), [gen_react] (the
   dispatcher's `except errors.PathIOError` entry), [gen_wrapped] (universal_exception outermost on the
   operation in all three shipped backends), [gen_cstor] ... (items of each worker's `async with`, in
   source order). *)
From Coq Require Import ZArith List Bool String Arith.
From Verif Require Import Lib.Sx Lib.PyStr Lib.Facts Model.Session Model.Faults Model.FaultsCheck Model.FaultsRound.
From Verif Require Import Gen.Dispatch Gen.Faultsites Proofs.GenTable Proofs.GenFaults Proofs.Faults Proofs.FaultsStep Proofs.FaultsUsable Proofs.FaultsRound.
Import ListNotations.
Open Scope list_scope.
Open Scope nat_scope.

(* ------------------------------------------------------------------ closed obligations on today's source *)
(* translators did not fail closed; every backend operation of PathIO / AsyncPathIO / MemoryPathIO (the list
   step included) carries universal_exception OUTERMOST; universal_exception passes exactly CancelledError /
   NotImplementedError / StopAsyncIteration and turns every other Exception into PathIOError; the file
   context reaches the backend with _open on enter and close on exit and open() itself is lazy; the
   dispatcher's entry for PathIOError is [response 451; continue]; the backend call sites of every handler,
   helper and worker are exactly the ones the model's bodies make (nobody else has one; only RNTO touches
   connection state before its call); every worker detaches the data connection first, replies after its
   contexts and has a known context shape; the PathConditions table is the model's; no handler, helper,
   worker or decorator between a backend call and the dispatcher has a `with` or a try catching anything
   but CancelledError / TimeoutError (the exception does reach the dispatcher); and [params_ok]: the
   single premise of the theorems below *)
Theorem C13_source_obligations :
  translator_ok = true /\ faultsites_ok = true /\ all_wrapped = true /\ ue_ok = true /\ filectx_ok = true /\
  react_ok gen_react = true /\ sites_ok = true /\ workers_ok = true /\ conds_ok = true /\ propagates_ok = true /\
  params_ok pathcond_defs gen_react gen_wrapped gen_cstor gen_cretr gen_clist gen_cmlsd = true.
Proof. vm_compute. repeat split. Qed.
Print Assumptions C13_source_obligations.

Definition gen_params_ok :
  params_ok pathcond_defs gen_react gen_wrapped gen_cstor gen_cretr gen_clist gen_cmlsd = true :=
  proj2 (proj2 (proj2 (proj2 (proj2 (proj2 (proj2 (proj2 (proj2 (proj2 C13_source_obligations))))))))).

Notation gstep users blk :=
  (fstep users gen_table pathcond_defs gen_react gen_wrapped gen_cstor gen_cretr gen_clist gen_cmlsd blk).
Notation grun users blk :=
  (frun users gen_table pathcond_defs gen_react gen_wrapped gen_cstor gen_cretr gen_clist gen_cmlsd blk).
Notation grun2 users blk :=
  (frun2 users gen_table pathcond_defs gen_react gen_wrapped gen_cstor gen_cretr gen_clist gen_cmlsd blk).
Notation gstep2 users blk :=
  (step2 users gen_table pathcond_defs gen_react gen_wrapped gen_cstor gen_cretr gen_clist gen_cmlsd blk).

(* ------------------------------------------------------------------ 451, exactly one, never a success reply *)
(* generic: EVERY parameter set passing the check, every user table, block size, world (= every prior
   history, tree, remaining fault plan - single, repeated, or none but a genuine backend error) and command *)
Theorem C13_fault_gives_451_generic :
  forall users table conds react wrapped cstor cretr clist cmlsd blk,
  params_ok conds react wrapped cstor cretr clist cmlsd = true ->
  forall w0 e,
  let w' := fstep users table conds react wrapped cstor cretr clist cmlsd blk w0 e in
  raised w0 w' ->
  (fw_codes w' = [c451] \/ fw_codes w' = [c150; c451]) /\ one_451_no_2xx (fw_codes w').
Proof. exact fault_gives_451. Qed.
Print Assumptions C13_fault_gives_451_generic.

(* instance: today's source *)
Theorem C13_fault_gives_451 : forall users blk w0 e,
  raised w0 (gstep users blk w0 e) ->
  (fw_codes (gstep users blk w0 e) = [c451] \/ fw_codes (gstep users blk w0 e) = [c150; c451]) /\
  one_451_no_2xx (fw_codes (gstep users blk w0 e)).
Proof.
  exact (fun users blk => fault_gives_451 users gen_table pathcond_defs gen_react gen_wrapped gen_cstor gen_cretr
                                          gen_clist gen_cmlsd blk gen_params_ok).
Qed.
Print Assumptions C13_fault_gives_451.

(* converse: a command none of whose backend calls raised never goes through the dispatcher's except
   path: it is answered by its handler *)
Theorem C13_no_fault_normal_path : forall users blk w0 e h,
  s_ended (fw_s w0) = false -> text_eqb (e_verb e) V_DATACONN = false ->
  verb_handler gen_table (e_verb e) = Some h ->
  fw_faults (gstep users blk w0 e) = fw_faults w0 ->
  exists keep w2,
    fhandler users gen_table pathcond_defs gen_wrapped gen_cstor gen_cretr gen_clist gen_cmlsd blk 3 h
             (e_arg e) (e_data e) false
             (if is_transfer (e_verb e) then fresh w0 else upd_s (fresh w0) (set_rest (fw_s (fresh w0)) 0%Z))
    = Ok keep w2 /\
    gstep users blk w0 e = (if keep then clear_rest (e_verb e) w2 else end_fw (clear_rest (e_verb e) w2)).
Proof.
  exact (fun users blk => no_fault_normal_path users gen_table pathcond_defs gen_react gen_wrapped gen_cstor
                                               gen_cretr gen_clist gen_cmlsd blk gen_params_ok).
Qed.
Print Assumptions C13_no_fault_normal_path.

(* ------------------------------------------------------------------ the session survives *)
(* not ended; user, login state, cwd, passive listener unchanged; the restart offset is 0, by the
   dispatcher's own rule (cleared at dispatch of every known verb; a transfer command consumes it) exactly as
   without a fault; the
   pending rename is unchanged unless the raising call was RNTO's rename (RNTO deletes it first, as without
   a fault); the data connection is unchanged unless the command had taken it (150 sent).  The next
   command runs [fstep] from this state: the fault leaves nothing else behind. *)
Theorem C13_session_survives : forall users blk w0 e,
  raised w0 (gstep users blk w0 e) ->
  ctl_kept (fw_s w0) (fw_s (gstep users blk w0 e)) /\ rnfr_rule w0 (gstep users blk w0 e) /\
  (s_data (fw_s (gstep users blk w0 e)) = s_data (fw_s w0) \/
   (In c150 (fw_codes (gstep users blk w0 e)) /\ s_data (fw_s w0) = true /\
    s_data (fw_s (gstep users blk w0 e)) = false)).
Proof.
  exact (fun users blk => session_survives users gen_table pathcond_defs gen_react gen_wrapped gen_cstor gen_cretr
                                           gen_clist gen_cmlsd blk gen_params_ok).
Qed.
Print Assumptions C13_session_survives.

(* "usable for further commands": the probes PWD and PASV, sent right after the command in which a backend
   call raised, are answered 257 with the directory the session was in before that command, and 227 with
   a listener; obligations: both verbs carry the login guard only *)
Theorem C13_probe_obligations :
  login_only gen_table "pwd" "pwd" = true /\ login_only gen_table "pasv" "pasv" = true.
Proof. vm_compute. split; reflexivity. Qed.
Print Assumptions C13_probe_obligations.

Theorem C13_usable_after_fault : forall users blk w0 e,
  s_logged (fw_s w0) = true ->
  raised w0 (gstep users blk w0 e) ->
  let w1 := gstep users blk w0 e in
  (fw_codes (gstep users blk w1 (probe_ev "pwd")) = [code "257"] /\
   fw_info (gstep users blk w1 (probe_ev "pwd")) = quoted (dbl_quote (path_str (s_cwd (fw_s w0))))) /\
  (fw_codes (gstep users blk w1 (probe_ev "pasv")) = [code "227"] /\
   s_passive (fw_s (gstep users blk w1 (probe_ev "pasv"))) = true /\
   s_ended (fw_s (gstep users blk w1 (probe_ev "pasv"))) = false).
Proof.
  exact (fun users blk => usable_after_fault users gen_table pathcond_defs gen_react gen_wrapped gen_cstor gen_cretr
                                             gen_clist gen_cmlsd blk (proj1 C13_probe_obligations)
                                             (proj2 C13_probe_obligations) gen_params_ok).
Qed.
Print Assumptions C13_usable_after_fault.

(* whole histories: at every command of every run - whatever came before, earlier faults included - a
   backend failure is contained ([contained]: session state as in C13_session_survives, the 451 alone or
   150;451, the data stream closed or, for a file-first parameter set only, left by open()) and answered by one 451 and no 2xx;
   and no history of backend failures ever ends a session *)
Theorem C13_every_history : forall users blk es w,
  all_steps users gen_table pathcond_defs gen_react gen_wrapped gen_cstor gen_cretr gen_clist gen_cmlsd blk
    (fun w0 e w' => raised w0 w' ->
       contained gen_cstor gen_cretr w0 w' /\ one_451_no_2xx (fw_codes w')) w es.
Proof.
  exact (fun users blk => run_contained users gen_table pathcond_defs gen_react gen_wrapped gen_cstor gen_cretr
                                        gen_clist gen_cmlsd blk gen_params_ok).
Qed.
Print Assumptions C13_every_history.

Theorem C13_faults_never_end_session : forall users blk es w,
  all_steps users gen_table pathcond_defs gen_react gen_wrapped gen_cstor gen_cretr gen_clist gen_cmlsd blk
    (fun w0 e w' => raised w0 w' -> s_ended (fw_s w') = false) w es.
Proof.
  exact (fun users blk => faults_never_end_session users gen_table pathcond_defs gen_react gen_wrapped gen_cstor
                                                   gen_cretr gen_clist gen_cmlsd blk gen_params_ok).
Qed.
Print Assumptions C13_faults_never_end_session.

(* ------------------------------------------------------------------ several tasks done in one wake-up *)
(* `asyncio.wait(.., FIRST_COMPLETED)` hands the dispatcher EVERY task of the session that is done at that
   moment: a worker that raised, another command that raised, parse_command with the next line.  Closed
   obligation: each `task.result()` stands under its own try inside the loop over the done tasks. *)
Theorem C13_round_obligation : dispatcher_try_per_task = true.
Proof. vm_compute. reflexivity. Qed.
Print Assumptions C13_round_obligation.

(* the SHAPE of the failure: the dispatcher's PathIOError clause never reads the exception object (at most hands it
   to a logger call), so its reaction - [gen_react], a function of the clause alone - is the same for a PathIOError made by
   universal_exception (reason = exc_info), one raised by the backend itself (reason = None or of any shape) and any
   subclass, and the clause itself cannot raise on one of them.  [ORaise true] below is ANY such exception. *)
Theorem C13_shape_obligation : pio_clause_payload_free = true.
Proof. vm_compute. reflexivity. Qed.
Print Assumptions C13_shape_obligation.

Definition gen_react_ok : react_ok gen_react = true :=
  proj1 (proj2 (proj2 (proj2 (proj2 (proj2 C13_source_obligations))))).

(* one wake-up with ANY finished tasks in ANY order (none of which ends the session by itself: a handler
   returning False, a non-PathIOError): every task that raised a PathIOError gets its own 451, every command
   line is dispatched (unknown verb: 502) and parse_command re-armed for each, the dispatcher says nothing
   else and stays in its loop *)
Theorem C13_same_wakeup_contained : forall done,
  forallb (fun o => negb (is_ender o)) done = true ->
  let st := round gen_react dispatcher_try_per_task done in
  n451 (r_codes st) = cnt is_pio done /\ n502 (r_codes st) = cnt is_unknown_line done /\
  List.length (r_codes st) = cnt is_pio done + cnt is_unknown_line done /\
  r_spawned st = cnt is_known_line done /\ r_reparse st = cnt is_line done /\ r_alive st = true.
Proof. rewrite C13_round_obligation. exact (round_contained gen_react gen_react_ok). Qed.
Print Assumptions C13_same_wakeup_contained.

(* why the obligation matters: with ONE try around the collection of all results, two failures get one
   451, and a failure next to the next command line drops the line and never re-arms parse_command *)
Theorem C13_batch_try_drops :
  n451 (r_codes (round gen_react false [ORaise true; ORaise true])) = 1 /\
  r_reparse (round gen_react false [ORaise true; OLine true]) = 0 /\
  r_spawned (round gen_react false [OLine true; ORaise true]) = 0.
Proof. exact (batch_drops gen_react gen_react_ok). Qed.
Print Assumptions C13_batch_try_drops.

Example C13_example_wakeup :
  let st := round gen_react dispatcher_try_per_task [ORaise true; OLine true; ORaise true; OLine false; OBool true] in
  r_codes st = [c451; c451; code "502"] /\ r_spawned st = 1 /\ r_reparse st = 2 /\ r_alive st = true.
Proof. vm_compute. repeat split. Qed.

(* ------------------------------------------------------------------ other sessions *)
(* two sessions on one backend (Model/Faults.v [step2]): whatever the first session does - any commands,
   any faults - the record of the second is untouched, and the second's own command is a step of the
   single-session semantics from its own record (only the backend state is shared) *)
Theorem C13_others_unaffected : forall users blk es x,
  Forall (fun we => fst we = true) es -> d_b (fst (grun2 users blk x es)) = d_b x.
Proof.
  exact (fun users blk => others_unaffected users gen_table pathcond_defs gen_react gen_wrapped gen_cstor gen_cretr
                                            gen_clist gen_cmlsd blk).
Qed.
Print Assumptions C13_others_unaffected.

Theorem C13_other_steps_alone : forall users blk x e,
  d_b (gstep2 users blk false x e) = fw_s (gstep users blk (upd_s (d_w x) (d_b x)) e) /\
  d_a (gstep2 users blk false x e) = d_a x.
Proof.
  exact (fun users blk => other_steps_alone users gen_table pathcond_defs gen_react gen_wrapped gen_cstor gen_cretr
                                            gen_clist gen_cmlsd blk).
Qed.
Print Assumptions C13_other_steps_alone.

(* ------------------------------------------------------------------ the data connection *)
(* closed obligation: both transfer workers enter the data stream context BEFORE the file (F04 repaired:
   `async with stream, file_out:` / `async with stream, file_in:`); the old order computes false *)
Theorem C13_stream_first_obligation : stream_first_ok gen_cstor gen_cretr = true.
Proof. vm_compute. reflexivity. Qed.
Print Assumptions C13_stream_first_obligation.

(* once 150 has been sent (the worker detached the data connection) the stream is closed after EVERY
   backend failure: at open, seek, any read, any write, close (also a close that raises while another
   exception unwinds), any list step, any per-entry exists / stat / is_file / is_dir *)
Theorem C13_data_closed : forall users blk w0 e,
  raised w0 (gstep users blk w0 e) -> In c150 (fw_codes (gstep users blk w0 e)) ->
  fw_dst (gstep users blk w0 e) = StClosed.
Proof.
  exact (fun users blk w0 e =>
           data_closed_stream_first users gen_table pathcond_defs gen_react gen_wrapped gen_cstor gen_cretr gen_clist
                                    gen_cmlsd blk gen_params_ok w0 e C13_stream_first_obligation).
Qed.
Print Assumptions C13_data_closed.

(* "data connection belonging to it": a fault before 150 ends the command with a final 451 alone; the
   command never took the data connection, it is still the session's, the peer awaits no data *)
Theorem C13_fault_before_150 : forall users blk w0 e,
  raised w0 (gstep users blk w0 e) -> ~ In c150 (fw_codes (gstep users blk w0 e)) ->
  fw_codes (gstep users blk w0 e) = [c451] /\ fw_dst (gstep users blk w0 e) = StNone /\
  s_data (fw_s (gstep users blk w0 e)) = s_data (fw_s w0).
Proof.
  exact (fun users blk => fault_before_150 users gen_table pathcond_defs gen_react gen_wrapped gen_cstor gen_cretr
                                           gen_clist gen_cmlsd blk gen_params_ok).
Qed.
Print Assumptions C13_fault_before_150.

(* generic form: for EVERY parameter set in which both transfer workers enter the stream first *)
Theorem C13_data_closed_stream_first :
  forall users table conds react wrapped cstor cretr clist cmlsd blk,
  params_ok conds react wrapped cstor cretr clist cmlsd = true ->
  stream_first_ok cstor cretr = true ->
  forall w0 e,
  let w' := fstep users table conds react wrapped cstor cretr clist cmlsd blk w0 e in
  raised w0 w' -> In c150 (fw_codes w') -> fw_dst w' = StClosed.
Proof.
  exact (fun users table conds react wrapped cstor cretr clist cmlsd blk ok sf w0 e =>
           data_closed_stream_first users table conds react wrapped cstor cretr clist cmlsd blk ok w0 e sf).
Qed.
Print Assumptions C13_data_closed_stream_first.

(* ------------------------------------------------------------------ witnesses *)
Definition x_users : list user :=
  [{| u_login := Some (t_of "u"); u_password := Some (t_of "pw"); u_home := []; u_perms := [] |}].
Definition x_tree : node :=
  NDir [(t_of "g", NFile [48; 49; 50; 51; 52; 53; 54; 55; 56; 57]%Z); (t_of "d", NDir [])].
Definition ev (v a : string) : event := {| e_verb := t_of v; e_arg := t_of a; e_data := DNone |}.
Definition ev_data (v a : string) (b : list Z) : event := {| e_verb := t_of v; e_arg := t_of a; e_data := DSend b |}.
Definition dataconn : event := {| e_verb := V_DATACONN; e_arg := []; e_data := DNone |}.
Definition x_login : list event := [ev "user" "u"; ev "pass" "pw"; ev "pasv" ""; dataconn].
(* the world after USER u; PASS pw; PASV; <connect> with fault plan [plan] still ahead *)
Definition x_world (plan : list bool) : fw := fst (grun x_users 4 (init_fw x_tree plan) x_login).

(* the former witness of F04 (open() raising in RETR g / STOR new): 150, 451, stream closed *)
Example C13_former_witness :
  let w' := gstep x_users 4 (x_world [false; false; true]) (ev "retr" "g") in
  let v' := gstep x_users 4 (x_world [false; true]) (ev_data "stor" "new" [1; 2; 3]%Z) in
  fw_codes w' = [c150; c451] /\ fw_dst w' = StClosed /\ fw_codes v' = [c150; c451] /\ fw_dst v' = StClosed.
Proof. vm_compute. repeat split. Qed.

(* ------------------------------------------------------------------ non-vacuity *)
(* hypotheses are satisfiable and the conclusions are the non-trivial ones: a fault at every kind of
   position of RETR g (block size 4: reads return 4+4+2+0 bytes) *)
Example C13_example_positions :
  let codes plan := fw_codes (gstep x_users 4 (x_world plan) (ev "retr" "g")) in
  let dst plan := fw_dst (gstep x_users 4 (x_world plan) (ev "retr" "g")) in
  let faults plan := fw_faults (gstep x_users 4 (x_world plan) (ev "retr" "g")) in
  (* no fault: 150 226, stream closed *)
  (codes [] = [c150; code "226"] /\ dst [] = StClosed /\ faults [] = 0) /\
  (* exists (PathConditions, before 150) *)
  (codes [true] = [c451] /\ dst [true] = StNone /\ faults [true] = 1) /\
  (* second read *)
  (codes [false; false; false; false; true] = [c150; c451] /\ dst [false; false; false; false; true] = StClosed) /\
  (* close, after a complete transfer: still 451, never 226 *)
  (codes [false; false; false; false; false; false; false; true] = [c150; c451]
   /\ dst [false; false; false; false; false; false; false; true] = StClosed) /\
  (* read AND close (the close raises while the read's exception unwinds): one 451 *)
  (codes [false; false; false; true; true] = [c150; c451] /\ faults [false; false; false; true; true] = 2).
Proof. vm_compute. repeat split. Qed.

(* after the fault at open the session goes on: PWD, a fresh PASV + connection, and the same RETR now
   completes and delivers the whole file; a second session on the same backend is served as well *)
Example C13_example_survives :
  let w1 := gstep x_users 4 (x_world [false; false; true]) (ev "retr" "g") in
  let w2 := gstep x_users 4 w1 (ev "pwd" "") in
  let w3 := fst (grun x_users 4 w2 [ev "pasv" ""; dataconn; ev "retr" "g"]) in
  fw_codes w2 = [code "257"] /\ fw_codes w3 = [c150; code "226"] /\ fw_dst w3 = StClosed /\
  List.concat (rev (fw_sent w3)) = [48; 49; 50; 51; 52; 53; 54; 55; 56; 57]%Z /\ fw_faults w3 = 1.
Proof. vm_compute. repeat split. Qed.

Example C13_example_two_sessions :
  let x0 := {| d_a := init_sess; d_b := init_sess; d_w := init_fw x_tree [false; false; true] |} in
  let a e := (true, e) in
  let b e := (false, e) in
  let x1 := fst (grun2 x_users 4 x0 (map b x_login ++ map a x_login ++ [a (ev "retr" "g")])) in
  let x2 := fst (grun2 x_users 4 x1 [b (ev "retr" "g")]) in
  fw_codes (d_w x1) = [c150; c451] /\ d_b x1 = fw_s (x_world []) /\
  fw_codes (d_w x2) = [c150; code "226"] /\ s_ended (d_b x2) = false.
Proof. vm_compute. repeat split. Qed.

(* REST 3; RETR g with seek() raising (exists, is_file, open pass): 150, 451, stream closed, and the offset
   does not survive the failed transfer: the next RETR (fresh PASV) delivers the whole file *)
Example C13_example_offset :
  let w0 := gstep x_users 4 (x_world [false; false; false; true]) (ev "rest" "3") in
  let w1 := gstep x_users 4 w0 (ev "retr" "g") in
  let w2 := fst (grun x_users 4 w1 [ev "pasv" ""; dataconn; ev "retr" "g"]) in
  s_rest (fw_s w0) = 3%Z /\ fw_codes w1 = [c150; c451] /\ fw_dst w1 = StClosed /\ s_rest (fw_s w1) = 0%Z /\
  fw_log w1 = [("close", false); ("seek", true); ("open", false); ("is_file", false); ("exists", false)]%string /\
  fw_codes w2 = [c150; code "226"] /\ List.concat (rev (fw_sent w2)) = [48; 49; 50; 51; 52; 53; 54; 55; 56; 57]%Z.
Proof. vm_compute. repeat split. Qed.

(* after a failed transfer the passive listener is still the session's: a NEW connection to the SAME listener (no
   new PASV) carries the next transfer, complete *)
Example C13_example_same_listener :
  let w1 := gstep x_users 4 (x_world [false; false; false; true]) (ev "retr" "g") in
  let w2 := fst (grun x_users 4 w1 [dataconn; ev "retr" "g"]) in
  fw_codes w1 = [c150; c451] /\ s_passive (fw_s w1) = true /\ s_data (fw_s w1) = false /\
  fw_codes w2 = [c150; code "226"] /\ fw_dst w2 = StClosed /\
  List.concat (rev (fw_sent w2)) = [48; 49; 50; 51; 52; 53; 54; 55; 56; 57]%Z.
Proof. vm_compute. repeat split. Qed.

(* the generic stream-first theorem is not vacuous either *)
Example C13_example_stream_first :
  let w' := fstep x_users gen_table pathcond_defs gen_react gen_wrapped (ctx_stream_first "file")
                  (ctx_stream_first "file") gen_clist gen_cmlsd 4 (x_world [false; false; true]) (ev "retr" "g") in
  params_ok pathcond_defs gen_react gen_wrapped (ctx_stream_first "file") (ctx_stream_first "file")
            gen_clist gen_cmlsd = true /\
  stream_first_ok (ctx_stream_first "file") (ctx_stream_first "file") = true /\
  fw_codes w' = [c150; c451] /\ fw_dst w' = StClosed.
Proof. vm_compute. repeat split. Qed.
