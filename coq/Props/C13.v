(* C13 — placeholder while the harness is brought up *)
From Coq Require Import ZArith List Bool String.
From Verif Require Import Lib.Sx Lib.Facts Model.Session Model.Faults Gen.Dispatch Gen.Faultsites Proofs.GenTable Proofs.GenFaults.
Theorem C13_source_obligations :
  translator_ok = true /\ faultsites_ok = true /\ all_wrapped = true /\ ue_ok = true /\ filectx_ok = true /\
  react_ok gen_react = true /\ sites_ok = true /\ workers_ok = true /\ conds_ok = true.
Proof. vm_compute. repeat split. Qed.
Print Assumptions C13_source_obligations.
