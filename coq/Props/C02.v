(* C02 — Every client-supplied path stays inside the user's base directory.
   Property statements only; proofs live in Proofs/Paths.v and Proofs/PathsWin.v. *)
From Coq Require Import ZArith List Bool.
From Verif Require Import Lib.Sx Lib.PyStr Lib.PosixPath Lib.WinPath Model.Paths Model.PathsWin Model.PathsSess
  Model.ResolveCheck Proofs.PosixPathFacts Proofs.Paths Proofs.PathsWin Proofs.PathsSess.
From Verif Require Gen.Resolve Gen.Dispatch.
Import ListNotations.
Open Scope Z_scope.

(* ===== POSIX flavour of base_path =====
   For EVERY base path (absolute, relative, with '..', any parsed form), EVERY absolute working
   directory (abs_wf: anchored, parsed components; it may contain '..' as a configured home_path
   may) and EVERY string s, get_paths never raises and returns
     real    = base + the components of normalize cwd s
     virtual = '/' + the components of normalize cwd s
   where normalize is the independent stack specification (push a name, pop on '..' with nothing to
   pop at the root, skip '.' and ''). *)
Theorem C02_get_paths_spec : forall base cwd s, abs_wf cwd ->
  get_paths base cwd s
  = Some (mkp (anchor base) (parts base ++ normalize (parts cwd) s),
          mkp 1 (normalize (parts cwd) s)).
Proof. exact get_paths_spec. Qed.
Print Assumptions C02_get_paths_spec.

(* the virtual result is '/'-anchored, made of proper components, without '..' *)
Theorem C02_virt_normal : forall base cwd s real virt, abs_wf cwd ->
  get_paths base cwd s = Some (real, virt) -> normal virt.
Proof. exact virt_normal. Qed.
Print Assumptions C02_virt_normal.

Theorem C02_virt_spec : forall base cwd s real virt, abs_wf cwd ->
  get_paths base cwd s = Some (real, virt) ->
  anchor virt = 1 /\ parts virt = normalize (parts cwd) s.
Proof. exact virt_spec. Qed.
Print Assumptions C02_virt_spec.

(* spellings with the same normal form ('..' detours, '//', '.', '', another cwd) give the
   same real and the same virtual path *)
Theorem C02_alias_same : forall base cwd1 s1 cwd2 s2, abs_wf cwd1 -> abs_wf cwd2 ->
  normalize (parts cwd1) s1 = normalize (parts cwd2) s2 ->
  get_paths base cwd1 s1 = get_paths base cwd2 s2.
Proof. exact alias_same. Qed.
Print Assumptions C02_alias_same.

Theorem C02_real_is_base_plus_virt : forall base cwd s real virt, abs_wf cwd ->
  get_paths base cwd s = Some (real, virt) ->
  anchor real = anchor base /\ parts real = parts base ++ parts virt.
Proof. exact real_is_base_plus_virt. Qed.
Print Assumptions C02_real_is_base_plus_virt.

(* confinement: base is a prefix of real and what follows contains no '..' *)
Theorem C02_confined : forall base cwd s real virt, abs_wf cwd ->
  get_paths base cwd s = Some (real, virt) -> confined base real = true.
Proof. exact confined_thm. Qed.
Print Assumptions C02_confined.

(* going up stops at the virtual root: n >= depth times '../' from anywhere is '/' *)
Theorem C02_up_clamps : forall cwdp n, (length cwdp <= n)%nat -> normalize cwdp (updirs n) = [].
Proof. exact up_clamps. Qed.
Print Assumptions C02_up_clamps.

(* the normal form is a fixed point: PWD after CWD reports what a later CWD of it resolves to *)
Theorem C02_normalize_fixed : forall p, normal p -> normalize (parts p) [] = parts p.
Proof. exact normalize_fixed. Qed.
Print Assumptions C02_normalize_fixed.

(* along ANY history of CWD/CDUP commands (accepted or refused) from any absolute home_path the
   working directory is home_path itself or normalised *)
Theorem C02_cwd_invariant : forall base home h, abs_wf home ->
  nav_run base home h = home \/ normal (nav_run base home h).
Proof. exact cwd_invariant. Qed.
Print Assumptions C02_cwd_invariant.

Theorem C02_cdup_is_parent : forall base cwd, normal cwd ->
  nav_step base cwd (Cdup true) = parent cwd.
Proof. exact cdup_is_parent. Qed.
Print Assumptions C02_cdup_is_parent.

(* every PurePosixPath(str) is a well-formed parsed path, so `abs_wf (parse c)` holds for every
   absolute home_path / working directory string c *)
Theorem C02_parse_wf : forall s, wf (parse s).
Proof. exact parse_wf. Qed.
Print Assumptions C02_parse_wf.

(* non-vacuity: the hypotheses are satisfiable and the equations compute *)
Definition t_slash := [SLASH].
Example C02_ex_detour :    (* base /srv/ftp, cwd /x, path "/a/../b/.."  ->  /srv/ftp, / *)
  get_paths (parse [47;115;114;118;47;102;116;112]) (parse [47;120]) [47;97;47;46;46;47;98;47;46;46]
  = Some (mkp 1 [[115;114;118];[102;116;112]], mkp 1 []).
Proof. vm_compute. reflexivity. Qed.
Example C02_ex_two_slash : (* cwd /x, path "//x/../y" -> virtual /y *)
  get_paths (parse [47;115]) (parse [47;120]) [47;47;120;47;46;46;47;121]
  = Some (mkp 1 [[115];[121]], mkp 1 [[121]]).
Proof. vm_compute. reflexivity. Qed.
Example C02_ex_relative_base : (* base "r/../b" (relative, with '..'), cwd "/a/../c", path "../../../d" *)
  get_paths (parse [114;47;46;46;47;98]) (parse [47;97;47;46;46;47;99]) [46;46;47;46;46;47;46;46;47;100]
  = Some (mkp 0 [[114];[46;46];[98];[100]], mkp 1 [[100]]).
Proof. vm_compute. reflexivity. Qed.
Example C02_ex_abs_wf : abs_wf (parse [47;97;47;46;46;47;99]).
Proof. split; [discriminate|apply parse_wf]. Qed.

(* ===== a segment is '..' only when it is EXACTLY '..' =====
   "with any mix of '..', '.'": the quantifier also contains segments that merely LOOK like '..' or '.' -- decorated with
   blanks, TABs, NBSP or any other code point before / after (dot dot blank, blank dot dot, dot dot TAB).  `name_seg x` = x is
   non-empty, contains no '/', and is neither "." nor "..".  Every such segment is an ordinary name: pushed, never popped, and
   handed to the backend unchanged (no trimming between the '..' test and the backend), for every base, every working
   directory, every sequence of names and every decoration w. *)
Theorem C02_names_are_kept : forall base cwd l, abs_wf cwd -> Forall name_seg l -> l <> [] ->
  get_paths base cwd (SLASH :: join [SLASH] l) = Some (mkp (anchor base) (parts base ++ l), mkp 1 l).
Proof. exact get_paths_names_kept. Qed.
Print Assumptions C02_names_are_kept.

Theorem C02_decorated_dotdot_is_a_name_r : forall w, w <> [] -> nosep SLASH w -> name_seg (dotdot ++ w).
Proof. exact decorated_dotdot_name_r. Qed.
Print Assumptions C02_decorated_dotdot_is_a_name_r.

Theorem C02_decorated_dotdot_is_a_name_l : forall w, w <> [] -> nosep SLASH w -> name_seg (w ++ dotdot).
Proof. exact decorated_dotdot_name_l. Qed.
Print Assumptions C02_decorated_dotdot_is_a_name_l.

Theorem C02_decorated_dotdot_not_folded : forall base cwd w l, abs_wf cwd -> w <> [] -> nosep SLASH w -> Forall name_seg l ->
  get_paths base cwd (SLASH :: join [SLASH] ((dotdot ++ w) :: l))
  = Some (mkp (anchor base) (parts base ++ (dotdot ++ w) :: l), mkp 1 ((dotdot ++ w) :: l)).
Proof. exact decorated_dotdot_not_folded. Qed.
Print Assumptions C02_decorated_dotdot_not_folded.

Example C02_ex_blank_dotdot :   (* base /srv/ftp, cwd /, path "<dot dot blank>/outside.txt" -> /srv/ftp/<dot dot blank>/outside.txt *)
  get_paths (parse [47;115;114;118;47;102;116;112]) (parse [47]) [46;46;32;47;111;117;116;115;105;100;101;46;116;120;116]
  = Some (mkp 1 [[115;114;118];[102;116;112];[46;46;32];[111;117;116;115;105;100;101;46;116;120;116]], mkp 1 [[46;46;32];[111;117;116;115;105;100;101;46;116;120;116]]).
Proof. vm_compute. reflexivity. Qed.
Example C02_ex_tab_nbsp_dotdot : (* cwd /pub, path "..<TAB>/<blank>../.<NBSP>/../x" -> /pub/'..<TAB>'/'<blank>..'/x *)
  get_paths (parse [47;115;114;118;47;102;116;112]) (parse [47;112;117;98]) [46;46;9;47;32;46;46;47;46;160;47;46;46;47;120]
  = Some (mkp 1 [[115;114;118];[102;116;112];[112;117;98];[46;46;9];[32;46;46];[120]], mkp 1 [[112;117;98];[46;46;9];[32;46;46];[120]]).
Proof. vm_compute. reflexivity. Qed.
Example C02_ex_name_seg : name_seg [46;46;32] /\ name_seg [46;32] /\ name_seg [32;46;46].
Proof. repeat split; try discriminate. Qed.

(* ===== Windows flavour of base_path (pathlib.PureWindowsPath) =====
   FULL STATEMENT (does not hold): for every base, cwd, s: get_paths_win base cwd s = WOk real virt
   implies wconfined base real = true /\ wlocated base real virt = true.
   Refuted by the faithful model (finding F11, replayed on the real code by harness/props/c02.py): *)
Theorem C02_confined_win_refuted :
  exists base_raw b cwd s real virt,
    abs_wf cwd /\ wparse base_raw = Some b /\
    get_paths_win base_raw cwd s = WOk real virt /\ wconfined b real = false.
Proof. exact confined_win_refuted. Qed.
Print Assumptions C02_confined_win_refuted.

Theorem C02_drive_escape_win_refuted :
  exists base_raw b cwd s real virt,
    abs_wf cwd /\ wparse base_raw = Some b /\
    get_paths_win base_raw cwd s = WOk real virt /\ wconfined b real = false.
Proof. exact drive_escape_win_refuted. Qed.
Print Assumptions C02_drive_escape_win_refuted.

Theorem C02_virt_is_location_win_refuted :
  exists base_raw b cwd s real virt,
    abs_wf cwd /\ wparse base_raw = Some b /\
    get_paths_win base_raw cwd s = WOk real virt /\ wlocated b real virt = false.
Proof. exact virt_is_location_win_refuted. Qed.
Print Assumptions C02_virt_is_location_win_refuted.

(* PARTIAL: what is missing is exactly the inputs one of whose resolved components contains a
   backslash or a colon (and base paths in UNC/device form, outside the WinPath fragment).
   For every other input, every modelled base and every absolute cwd the Windows flavour
   behaves like the POSIX one. *)
Theorem C02_confined_win_partial : forall base_raw b cwd s real virt,
  wparse base_raw = Some b -> abs_wf cwd ->
  forallb plain (normalize (parts cwd) s) = true ->
  get_paths_win base_raw cwd s = WOk real virt ->
  wconfined b real = true /\ wlocated b real virt = true /\ normal virt
  /\ parts virt = normalize (parts cwd) s.
Proof. exact confined_win_partial_oracle. Qed.
Print Assumptions C02_confined_win_partial.

Theorem C02_get_paths_win_partial_total : forall base_raw b cwd s,
  wparse base_raw = Some b -> abs_wf cwd ->
  forallb plain (normalize (parts cwd) s) = true ->
  get_paths_win base_raw cwd s
  = WOk (mkw (wdrive b) (wroot b) (wparts b ++ normalize (parts cwd) s)) (mkp 1 (normalize (parts cwd) s)).
Proof. exact confined_win_partial. Qed.
Print Assumptions C02_get_paths_win_partial_total.

Example C02_ex_win_plain :  (* base C:\ftp, cwd /, path "a/../b" -> C:\ftp\b, /b *)
  get_paths_win w_base w_root [97;47;46;46;47;98]
  = WOk (mkw [67;58] true [[102;116;112];[98]]) (mkp 1 [[98]]).
Proof. vm_compute. reflexivity. Qed.

(* ===== histories on ONE control connection with several logins =====
   The Connection object survives USER/PASS; Server.user() replaces connection.user and sets
   current_directory to the new user's home_path.  Model/PathsSess.v: `sess_run users st h` lists,
   command by command, (base_path of the user logged in when the command ran, real paths handed
   to connection.path_io) for the handlers as written (CWD/CDUP, the single-path commands,
   STOR/APPE with their is_dir(real_path.parent) probe, RNFR/RNTO with connection.rename_from).
   `pspec_run` is an independent bookkeeping over (index of current user, stack of names, rename
   source as (owner, names)) whose outputs are labels (owner, names, parent?); `realise` maps a
   label to  base_path(owner) ++ names  (or its parent).

   For EVERY user table whose home paths are absolute, every first login and EVERY history: *)
Theorem C02_session_spec : forall users i u h, homes_ok users -> nth_error users i = Some u ->
  sess_run users (sess_start u) h
  = map (fun co => (base_of users (fst co), map (realise users) (snd co)))
        (pspec_run users (spec_start i u) h).
Proof. exact session_spec. Qed.
Print Assumptions C02_session_spec.

(* what a path command resolves to is a function of the CURRENT user's base, the CURRENT working
   directory and the argument: nothing an earlier command or an earlier login did can influence it
   (the obligation the correspondence stream `relogin` checks on one reused Connection object) *)
Theorem C02_path_output_history_independent : forall users st1 st2 s,
  s_base st1 = s_base st2 -> s_cwd st1 = s_cwd st2 ->
  snd (sess_step users st1 (EPath s)) = snd (sess_step users st2 (EPath s)).
Proof. exact path_output_history_independent. Qed.
Print Assumptions C02_path_output_history_independent.

(* ... and the models may take get_paths to be such a function because TODAY's source says so
   (Gen/Resolve.v is regenerated from server.py on every run): Server.get_paths is a plain @staticmethod of
   (connection, path) that reads nothing of the connection but current_directory and user(.base_path), stores
   or deletes nothing on it, uses the name `connection` in no other way (no `in` test, no call), loads no
   module-level name but pathlib, has no global/nonlocal, nested definition or attribute store. *)
Theorem C02_translator_ok : Gen.Resolve.translator_ok = true.
Proof. vm_compute. reflexivity. Qed.

Theorem C02_get_paths_reads_only_user_and_cwd :
  check_get_paths_pure Gen.Resolve.gp_decorators Gen.Resolve.gp_params Gen.Resolve.gp_conn_reads
    Gen.Resolve.gp_conn_writes Gen.Resolve.gp_conn_other Gen.Resolve.gp_free_names Gen.Resolve.gp_scope = true.
Proof. vm_compute. reflexivity. Qed.
Print Assumptions C02_get_paths_reads_only_user_and_cwd.

(* the transfers (LIST MLSD RETR STOR APPE) are carried out by a worker task when the data connection has arrived;
   the path it hands to the backend is the real_path the handler resolved when the command was handled -- bound once,
   by get_paths(connection, rest), before the task exists -- and never one resolved again later (after a CWD or a
   re-login): the location addressed is base ++ normalize(cwd at the command, argument).  Same closed check as
   C04_workers_use_authorised_path; the behaviour is proved in Props/C04.v (C04_transfer_target_today). *)
Theorem C02_transfers_use_the_path_resolved_at_the_command :
  check_worker_paths Gen.Resolve.worker_paths Gen.Resolve.handler_resolves = true.
Proof. vm_compute. reflexivity. Qed.
Print Assumptions C02_transfers_use_the_path_resolved_at_the_command.

(* a rename acts on the location the RNFR named when it was handled (and checked), not on whatever the RNFR argument
   means under the working directory of the RNTO: closed check on the regenerated Gen/Dispatch.v *)
Theorem C02_rename_source_resolved_at_rnfr : rename_source_resolved_at_rnfr Gen.Dispatch.handlers = true.
Proof. vm_compute. reflexivity. Qed.
Print Assumptions C02_rename_source_resolved_at_rnfr.

(* Server.user() drops a pending rename source (repair of F18, /repo 8b539d4): a closed check on the
   regenerated handler facts -- it computes false on the former shape of user(), whose `del` statements were
   only `user` and `logged` *)
Theorem C02_user_drops_rename_source :
  user_drops_rename_source Gen.Dispatch.handlers = true.
Proof. vm_compute. reflexivity. Qed.
Print Assumptions C02_user_drops_rename_source.

(* hence no path resolved under a PREVIOUS login is ever handed to the backend after a re-login: every
   labelled output of every command of every history is owned by the user logged in when the command ran
   (former finding F18: RNFR; re-login; RNTO used the old user's real path) *)
Theorem C02_session_no_path_from_previous_login : forall users i u h,
  homes_ok users -> nth_error users i = Some u ->
  Forall (fun co => Forall (fun l => l_owner l = fst co) (snd co)) (pspec_run users (spec_start i u) h).
Proof. exact session_owner_current. Qed.
Print Assumptions C02_session_no_path_from_previous_login.

(* FULL STATEMENT (does not hold): every path handed to the backend by a command lies inside the
   base directory of the user logged in when the command runs:
     Forall (fun bo => Forall (fun p => confined (fst bo) p = true) (snd bo)) (sess_run users (sess_start u) h).
   Refuted by the faithful model (replayed on the real server by harness/props/c02.py):
   F19  STOR/APPE whose target is the virtual root: is_dir(base_path.parent) is asked. *)
Theorem C02_session_stor_root_parent_refuted :
  exists users i u h, homes_ok users /\ nth_error users i = Some u /\
    Exists (fun bo => Exists (fun p => confined (fst bo) p = false) (snd bo)) (sess_run users (sess_start u) h).
Proof. exact stor_root_parent_refuted. Qed.
Print Assumptions C02_session_stor_root_parent_refuted.

(* PARTIAL, on the handler model itself, for EVERY history (logins, CWD/CDUP, path commands, STOR/APPE,
   RNFR/RNTO): every path handed to the backend lies inside the base of the user logged in when the command
   ran, or is exactly the parent of that base (the probe of F19).  Missing for the full statement: that one shape. *)
Theorem C02_session_confined_partial : forall users i u h, homes_ok users -> nth_error users i = Some u ->
  Forall (fun bo => Forall (fun p => confined (fst bo) p = true \/ p = parent (fst bo)) (snd bo))
         (sess_run users (sess_start u) h).
Proof. exact session_confined. Qed.
Print Assumptions C02_session_confined_partial.

(* histories without STOR/APPE: the full statement *)
Theorem C02_session_confined_plain : forall users i u h, homes_ok users -> nth_error users i = Some u ->
  forallb plain_ev h = true ->
  Forall (fun bo => Forall (fun p => confined (fst bo) p = true) (snd bo)) (sess_run users (sess_start u) h).
Proof. exact session_confined_plain. Qed.
Print Assumptions C02_session_confined_plain.

Example C02_ex_session :   (* alice /alice, bob /bob: MLST /f ; login bob ; MLST /f  ->  /alice/f then /bob/f *)
  sess_run [t_alice; t_bob] (sess_start t_alice) [EPath [47;102]; ELogin 1; EPath [47;102]]
  = [ (u_base t_alice, [mkp 1 [[97;108;105;99;101];[102]]]); (u_base t_alice, []);
      (u_base t_bob, [mkp 1 [[98;111;98];[102]]]) ].
Proof. vm_compute. reflexivity. Qed.
Example C02_ex_homes_ok : homes_ok [t_alice; t_bob].
Proof. repeat constructor; cbn; discriminate. Qed.
