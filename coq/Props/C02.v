(* C02 — Every client-supplied path stays inside the user's base directory.
   Property statements only; proofs live in Proofs/Paths.v and Proofs/PathsWin.v. *)
From Coq Require Import ZArith List Bool.
From Verif Require Import Lib.Sx Lib.PyStr Lib.PosixPath Lib.WinPath Model.Paths Model.PathsWin
  Proofs.PosixPathFacts Proofs.Paths Proofs.PathsWin.
Import ListNotations.
Open Scope Z_scope.

(* ===== POSIX flavour of base_path =====
   For EVERY base path (absolute, relative, with '..', any parsed form), EVERY absolute working
   directory (abs_wf: anchored, parsed components; it may contain '..' as a configured home_path
   may) and EVERY string s, get_paths never raises and returns
     real    = base + the components of normalize cwd s
     virtual = '/' + the components of normalize cwd s
   where normalize is the independent stack specification (push a name, pop on '..' with nothing to
   pop at the root, skip '.' and ''). *)
Theorem C02_get_paths_spec : forall base cwd s, abs_wf cwd ->
  get_paths base cwd s
  = Some (mkp (anchor base) (parts base ++ normalize (parts cwd) s),
          mkp 1 (normalize (parts cwd) s)).
Proof. exact get_paths_spec. Qed.
Print Assumptions C02_get_paths_spec.

(* the virtual result is '/'-anchored, made of proper components, without '..' *)
Theorem C02_virt_normal : forall base cwd s real virt, abs_wf cwd ->
  get_paths base cwd s = Some (real, virt) -> normal virt.
Proof. exact virt_normal. Qed.
Print Assumptions C02_virt_normal.

Theorem C02_virt_spec : forall base cwd s real virt, abs_wf cwd ->
  get_paths base cwd s = Some (real, virt) ->
  anchor virt = 1 /\ parts virt = normalize (parts cwd) s.
Proof. exact virt_spec. Qed.
Print Assumptions C02_virt_spec.

(* spellings with the same normal form ('..' detours, '//', '.', '', another cwd) give the
   same real and the same virtual path *)
Theorem C02_alias_same : forall base cwd1 s1 cwd2 s2, abs_wf cwd1 -> abs_wf cwd2 ->
  normalize (parts cwd1) s1 = normalize (parts cwd2) s2 ->
  get_paths base cwd1 s1 = get_paths base cwd2 s2.
Proof. exact alias_same. Qed.
Print Assumptions C02_alias_same.

Theorem C02_real_is_base_plus_virt : forall base cwd s real virt, abs_wf cwd ->
  get_paths base cwd s = Some (real, virt) ->
  anchor real = anchor base /\ parts real = parts base ++ parts virt.
Proof. exact real_is_base_plus_virt. Qed.
Print Assumptions C02_real_is_base_plus_virt.

(* confinement: base is a prefix of real and what follows contains no '..' *)
Theorem C02_confined : forall base cwd s real virt, abs_wf cwd ->
  get_paths base cwd s = Some (real, virt) -> confined base real = true.
Proof. exact confined_thm. Qed.
Print Assumptions C02_confined.

(* going up stops at the virtual root: n >= depth times '../' from anywhere is '/' *)
Theorem C02_up_clamps : forall cwdp n, (length cwdp <= n)%nat -> normalize cwdp (updirs n) = [].
Proof. exact up_clamps. Qed.
Print Assumptions C02_up_clamps.

(* the normal form is a fixed point: PWD after CWD reports what a later CWD of it resolves to *)
Theorem C02_normalize_fixed : forall p, normal p -> normalize (parts p) [] = parts p.
Proof. exact normalize_fixed. Qed.
Print Assumptions C02_normalize_fixed.

(* along ANY history of CWD/CDUP commands (accepted or refused) from any absolute home_path the
   working directory is home_path itself or normalised *)
Theorem C02_cwd_invariant : forall base home h, abs_wf home ->
  nav_run base home h = home \/ normal (nav_run base home h).
Proof. exact cwd_invariant. Qed.
Print Assumptions C02_cwd_invariant.

Theorem C02_cdup_is_parent : forall base cwd, normal cwd ->
  nav_step base cwd (Cdup true) = parent cwd.
Proof. exact cdup_is_parent. Qed.
Print Assumptions C02_cdup_is_parent.

(* every PurePosixPath(str) is a well-formed parsed path, so `abs_wf (parse c)` holds for every
   absolute home_path / working directory string c *)
Theorem C02_parse_wf : forall s, wf (parse s).
Proof. exact parse_wf. Qed.
Print Assumptions C02_parse_wf.

(* non-vacuity: the hypotheses are satisfiable and the equations compute *)
Definition t_slash := [SLASH].
Example C02_ex_detour :    (* base /srv/ftp, cwd /x, path "/a/../b/.."  ->  /srv/ftp, / *)
  get_paths (parse [47;115;114;118;47;102;116;112]) (parse [47;120]) [47;97;47;46;46;47;98;47;46;46]
  = Some (mkp 1 [[115;114;118];[102;116;112]], mkp 1 []).
Proof. vm_compute. reflexivity. Qed.
Example C02_ex_two_slash : (* cwd /x, path "//x/../y" -> virtual /y *)
  get_paths (parse [47;115]) (parse [47;120]) [47;47;120;47;46;46;47;121]
  = Some (mkp 1 [[115];[121]], mkp 1 [[121]]).
Proof. vm_compute. reflexivity. Qed.
Example C02_ex_relative_base : (* base "r/../b" (relative, with '..'), cwd "/a/../c", path "../../../d" *)
  get_paths (parse [114;47;46;46;47;98]) (parse [47;97;47;46;46;47;99]) [46;46;47;46;46;47;46;46;47;100]
  = Some (mkp 0 [[114];[46;46];[98];[100]], mkp 1 [[100]]).
Proof. vm_compute. reflexivity. Qed.
Example C02_ex_abs_wf : abs_wf (parse [47;97;47;46;46;47;99]).
Proof. split; [discriminate|apply parse_wf]. Qed.

(* ===== Windows flavour of base_path (pathlib.PureWindowsPath) =====
   FULL STATEMENT (does not hold): for every base, cwd, s: get_paths_win base cwd s = WOk real virt
   implies wconfined base real = true /\ wlocated base real virt = true.
   Refuted by the faithful model (finding F11, replayed on the real code by harness/props/c02.py): *)
Theorem C02_confined_win_refuted :
  exists base_raw b cwd s real virt,
    abs_wf cwd /\ wparse base_raw = Some b /\
    get_paths_win base_raw cwd s = WOk real virt /\ wconfined b real = false.
Proof. exact confined_win_refuted. Qed.
Print Assumptions C02_confined_win_refuted.

Theorem C02_drive_escape_win_refuted :
  exists base_raw b cwd s real virt,
    abs_wf cwd /\ wparse base_raw = Some b /\
    get_paths_win base_raw cwd s = WOk real virt /\ wconfined b real = false.
Proof. exact drive_escape_win_refuted. Qed.
Print Assumptions C02_drive_escape_win_refuted.

Theorem C02_virt_is_location_win_refuted :
  exists base_raw b cwd s real virt,
    abs_wf cwd /\ wparse base_raw = Some b /\
    get_paths_win base_raw cwd s = WOk real virt /\ wlocated b real virt = false.
Proof. exact virt_is_location_win_refuted. Qed.
Print Assumptions C02_virt_is_location_win_refuted.

(* PARTIAL: what is missing is exactly the inputs one of whose resolved components contains a
   backslash or a colon (and base paths in UNC/device form, outside the WinPath fragment).
   For every other input, every modelled base and every absolute cwd the Windows flavour
   behaves like the POSIX one. *)
Theorem C02_confined_win_partial : forall base_raw b cwd s real virt,
  wparse base_raw = Some b -> abs_wf cwd ->
  forallb plain (normalize (parts cwd) s) = true ->
  get_paths_win base_raw cwd s = WOk real virt ->
  wconfined b real = true /\ wlocated b real virt = true /\ normal virt
  /\ parts virt = normalize (parts cwd) s.
Proof. exact confined_win_partial_oracle. Qed.
Print Assumptions C02_confined_win_partial.

Theorem C02_get_paths_win_partial_total : forall base_raw b cwd s,
  wparse base_raw = Some b -> abs_wf cwd ->
  forallb plain (normalize (parts cwd) s) = true ->
  get_paths_win base_raw cwd s
  = WOk (mkw (wdrive b) (wroot b) (wparts b ++ normalize (parts cwd) s)) (mkp 1 (normalize (parts cwd) s)).
Proof. exact confined_win_partial. Qed.
Print Assumptions C02_get_paths_win_partial_total.

Example C02_ex_win_plain :  (* base C:\ftp, cwd /, path "a/../b" -> C:\ftp\b, /b *)
  get_paths_win w_base w_root [97;47;46;46;47;98]
  = WOk (mkw [67;58] true [[102;116;112];[98]]) (mkp 1 [[98]]).
Proof. vm_compute. reflexivity. Qed.
