(* C09 — Client tree operations (upload, download, recursive list, remove) are faithful.
   Property statements only; proofs live in Proofs/ClientTree.v.

   Vocabulary (Model/ClientTree.v): a tree is a rose tree of files and directories; the remote file
   system is a tree `fs` and the session's working directory `cwd`; `resolve cwd p` is how the server
   reads a path argument; `look fs q` is what an observer sees at the absolute path q (None, a
   directory, or a file with its contents).  Two file systems with the same `look` at every path are
   the same up to the order of directory entries, which is how equality of trees is stated below.
   `graft fs A src` lays the tree src over whatever is at A (creating the directories down to A);
   `placed fs A src` is its path-by-path description: below A the source, every prefix of A a
   directory, every other path exactly what it was in fs ("and nothing else changed").
   `compat fs A src`: no file/directory conflict between src and what already is at A (no prefix of A
   is a file; a directory of src does not meet a file, a file of src does not meet a directory). *)
From Coq Require Import ZArith List Bool Permutation.
From Verif Require Import Lib.Sx Model.ClientTree Proofs.ClientTree Gen.ClientWalks.
Import ListNotations.
Open Scope Z_scope.

(* ---------------------------------------------------------------------------------------------- *)
(* The tie to the source.  tools/py2v/gen_client_walks.py re-reads client.py on every run (fail closed):
   which of the two known computations of a child's destination Client.upload uses
   (upload_relative_fixed: true = `relative = destination / path.relative_to(source)`, the code since
   "fix: Client.upload places a directory's children under the destination"; false = the two-armed form
   before that fix, former finding F1; anything else is unclassified), and that the rest of the path
   plumbing of upload/download is what the model transcribes. *)
Definition repo_upload_fixed : bool := Gen.ClientWalks.upload_relative_fixed.
(* the model of Client.upload as /repo has it NOW (this is what the harness runs against the real client) *)
Definition repo_upload := upload_gen repo_upload_fixed.

(* false (this file stops compiling) as soon as the source reverts to the old form or changes the plumbing *)
Lemma C09_source_obligations :
  Gen.ClientWalks.translator_ok
  && Gen.ClientWalks.upload_relative_fixed
  && Gen.ClientWalks.upload_final_destination_ok && Gen.ClientWalks.upload_children_use_relative
  && Gen.ClientWalks.download_final_destination_ok && Gen.ClientWalks.download_child_ok
  && Gen.ClientWalks.lister_queue_unbounded && Gen.ClientWalks.upload_queue_unbounded = true.
Proof. vm_compute. reflexivity. Qed.

(* ---------------------------------------------------------------------------------------------- *)
(* Upload of a directory, the full statement, about the code /repo has now (repo_upload; it converts to
   Model.upload = upload_gen true exactly when the source has the repaired form):
   every tree (empty directories, empty files, equal names on different levels), every destination
   (empty, one or several components, absolute), both write_into, every cwd (an existing directory),
   every remote state without file/directory conflict: the upload succeeds (in particular it does not
   run out of fuel) and the remote file system is graft fs A src — below A the source, the prefixes of
   A directories, and nothing else changed. *)
Theorem C09_upload_spec : forall cwd fs nm ch dst wi chc,
  let A := resolve cwd (final_destination nm dst wi) in
  lookup fs cwd = Some (Dir chc) ->
  wf_tree (Dir ch) ->
  compat fs A (Dir ch) ->
  exists fs', repo_upload cwd fs nm (Dir ch) dst wi = Ok fs' /\
              (forall q, look fs' q = look (graft fs A (Dir ch)) q) /\
              (forall q, look fs' q = placed fs A (Dir ch) q).
Proof. exact upload_spec. Qed.
Print Assumptions C09_upload_spec.

(* How it gets there, for EVERY input and either form of the code: the directory is made at the
   destination A, then one mkdir -p / one mkdir -p + STOR per node, breadth first, below the anchor
   A' (= A for the code now). *)
Theorem C09_upload_dir_actual : forall fixed cwd fs nm ch dst wi chc,
  let dst' := final_destination nm dst wi in
  let A := resolve cwd dst' in
  let A' := resolve cwd (upload_anchor fixed wi dst' nm) in
  lookup fs cwd = Some (Dir chc) ->
  no_file_on fs A ->
  run_ok A' (ensure_dir fs A) (bfs (tree_size (Dir ch)) [([], ch)]) ->
  upload_gen fixed cwd fs nm (Dir ch) dst wi
  = Ok (fold_left (sem_op A') (bfs (tree_size (Dir ch)) [([], ch)]) (ensure_dir fs A)).
Proof. exact upload_gen_dir_actual. Qed.
Print Assumptions C09_upload_dir_actual.

(* ---------------------------------------------------------------------------------------------- *)
(* HISTORICAL — statements about upload_old = upload_gen false, the code BEFORE the fix of F1.  They say
   nothing about /repo as it is; they are kept because they characterise exactly what a revert of the
   fix would do (the translator then computes upload_relative_fixed = false, C09_source_obligations and
   C09_upload_spec stop compiling, and the harness reports the inputs below as violations). *)

(* path by path, for every input with at least one child and either form: the directory is made (empty)
   at A, the tree is laid out below the anchor A', nothing else changes *)
Theorem C09_hist_upload_dir_view : forall fixed cwd fs nm ch dst wi chc,
  let dst' := final_destination nm dst wi in
  let A := resolve cwd dst' in
  let A' := resolve cwd (upload_anchor fixed wi dst' nm) in
  ch <> [] ->
  lookup fs cwd = Some (Dir chc) ->
  wf_tree (Dir ch) ->
  no_file_on fs A ->
  compat (ensure_dir fs A) A' (Dir ch) ->
  exists fs', upload_gen fixed cwd fs nm (Dir ch) dst wi = Ok fs' /\
              forall q, look fs' q = placed (ensure_dir fs A) A' (Dir ch) q.
Proof. exact upload_gen_dir_view. Qed.
Print Assumptions C09_hist_upload_dir_view.

(* the old code put every child n of the source at cwd/<last component>/n and left A/n empty, whenever
   A/n was free before and is neither on the way to nor below that anchor *)
Theorem C09_hist_old_upload_child_misplaced : forall cwd fs nm ch dst wi chc n t,
  let dst' := final_destination nm dst wi in
  let A := resolve cwd dst' in
  let A' := resolve cwd (bug_anchor wi dst' nm) in
  assoc n ch = Some t ->
  lookup fs cwd = Some (Dir chc) ->
  wf_tree (Dir ch) ->
  no_file_on fs A ->
  compat (ensure_dir fs A) A' (Dir ch) ->
  look fs (A ++ [n]) = None ->
  is_prefix A' (A ++ [n]) = false ->
  is_prefix (A ++ [n]) A' = false ->
  exists fs', upload_old cwd fs nm (Dir ch) dst wi = Ok fs' /\
              look fs' (A ++ [n]) = None /\
              placed fs A (Dir ch) (A ++ [n]) = Some (entry_of t) /\
              look fs' (A' ++ [n]) = Some (entry_of t).
Proof. exact upload_old_child_misplaced. Qed.
Print Assumptions C09_hist_old_upload_child_misplaced.

Example C09_hist_old_upload_child_misplaced_satisfiable :
  let fs := Dir [] in
  let ch := [(n_a, File [1])] in
  let dst' := final_destination n_foo (mkp false [n_x]) false in
  let A := resolve [] dst' in
  let A' := resolve [] (bug_anchor false dst' n_foo) in
  assoc n_a ch = Some (File [1]) /\
  lookup fs [] = Some (Dir []) /\
  wf_tree (Dir ch) /\
  no_file_on fs A /\
  compat (ensure_dir fs A) A' (Dir ch) /\
  look fs (A ++ [n_a]) = None /\
  is_prefix A' (A ++ [n_a]) = false /\
  is_prefix (A ++ [n_a]) A' = false.
Proof. exact upload_old_child_misplaced_satisfiable. Qed.

(* ---------------------------------------------------------------------------------------------- *)
(* A single file: any destination that has a name, both write_into (either form of the code). *)
Theorem C09_upload_file_spec : forall fixed cwd fs nm c dst wi chc,
  let dst' := final_destination nm dst wi in
  let A := resolve cwd dst' in
  lookup fs cwd = Some (Dir chc) ->
  p_parts dst' <> [] ->
  no_file_on fs (removelast A) ->
  (forall ch, lookup fs A <> Some (Dir ch)) ->
  upload_gen fixed cwd fs nm (File c) dst wi = Ok (graft fs A (File c)) /\
  forall q, look (graft fs A (File c)) q = placed fs A (File c) q.
Proof. exact upload_file_spec. Qed.
Print Assumptions C09_upload_file_spec.

(* make_directory is mkdir -p (exact, including the order of directory entries) *)
Theorem C09_make_directory_spec : forall cwd fs p chc,
  lookup fs cwd = Some (Dir chc) ->
  no_file_on fs (resolve cwd p) ->
  make_directory cwd fs p = Ok (ensure_dir fs (resolve cwd p)).
Proof. exact make_directory_exact. Qed.
Print Assumptions C09_make_directory_spec.

(* ---------------------------------------------------------------------------------------------- *)
(* A recursive listing returns every entry of the subtree exactly once, with its correct path and
   type: the result is a permutation of the preorder enumeration of the subtree. *)
Theorem C09_list_recursive_exact : forall cwd fs p t fuel,
  lookup fs (resolve cwd p) = Some t ->
  wf_tree t ->
  (tree_size t <= fuel)%nat ->
  exists l, list_path fuel cwd fs true p = Ok l /\
            Permutation l (map (fun e => (mkp (p_abs p) (fst e), snd e)) (entries (p_parts p) t)).
Proof. exact list_recursive_exact. Qed.
Print Assumptions C09_list_recursive_exact.

(* ---------------------------------------------------------------------------------------------- *)
(* WIDTH.  The recursive lister is a worklist algorithm (cls.directories: append / popleft).  From EVERY
   state of the walk -- a current directory and a queue qr of pending directories of ANY length -- it
   returns what it had accumulated plus every entry below the current directory and below every pending
   directory, each exactly once: nothing that was queued is dropped, however many directories wait at
   once.  (C09_list_recursive_exact is the instance qr = [], acc = []; it already quantifies over every
   tree, hence every width; this is the invariant that carries it.)  That the real queue has no bound
   either is the source fact lister_queue_unbounded in C09_source_obligations. *)
Theorem C09_list_worklist_any_length : forall cwd fs ab fuel rel ch qr acc,
  q_ok cwd fs ab ((rel, ch) :: qr) ->
  (qsize ((rel, ch) :: qr) <= fuel)%nat ->
  exists l,
    list_loop fuel cwd fs true (mkp ab rel) (map (fun rc => mkp ab (fst rc)) qr) acc = Ok (acc ++ l) /\
    Permutation l (map (item_of ab) (qnodes ((rel, ch) :: qr))).
Proof. exact list_worklist_complete. Qed.
Print Assumptions C09_list_worklist_any_length.

(* for EVERY n: the directory with n sub-directories, each holding one file (n directories pending at once
   after the first listing), is listed with exactly its 2n entries *)
Theorem C09_list_every_width : forall n,
  exists l, list_path (S (2 * n)) [] (wide n) true (mkp true []) = Ok l /\
            length l = (2 * n)%nat /\
            Permutation l (map (fun e => (mkp true (fst e), snd e)) (entries [] (wide n))).
Proof. exact list_wide_complete. Qed.
Print Assumptions C09_list_every_width.

(* the absence of a bound is load-bearing: the same loop over a collections.deque(maxlen=2) (a full queue
   discards from the LEFT on append) returns 5 of the 6 entries of a directory with three sub-directories *)
Example C09_bounded_queue_loses_entries :
  (exists l, list_path 10 [] wide3 true (mkp true []) = Ok l /\ length l = 6%nat) /\
  (exists l, list_loop_bounded 2 10 [] wide3 (mkp true []) [] [] = Ok l /\ length l = 5%nat).
Proof. exact bounded_queue_loses_entries. Qed.

(* ---------------------------------------------------------------------------------------------- *)
(* Recursive remove deletes the subtree (exactly: the result is remove_at fs a, entry order included),
   the subtree is gone and every path outside it is untouched. *)
Theorem C09_remove_spec : forall cwd t fuel fs p,
  (tree_size t <= fuel)%nat ->
  lookup fs (resolve cwd p) = Some t ->
  resolve cwd p <> [] ->
  remove fuel cwd fs p = Ok (remove_at fs (resolve cwd p)) /\
  (forall q, is_prefix (resolve cwd p) q = false -> look (remove_at fs (resolve cwd p)) q = look fs q) /\
  (wf_tree fs -> forall r, look (remove_at fs (resolve cwd p)) (resolve cwd p ++ r) = None).
Proof. exact remove_spec_full. Qed.
Print Assumptions C09_remove_spec.

(* ---------------------------------------------------------------------------------------------- *)
(* Download is the mirror image: the local file system becomes graft lfs A t (exactly, entry order
   included) where t is the remote subtree at the source and A the local destination
   (lcwd / dst [/ source.name]); kinds_ok = no file/directory conflict with what is already there. *)
Theorem C09_download_spec : forall cwd rfs lcwd lfs src dst wi t fuel,
  let dst' := final_destination (pname src) dst wi in
  let A := resolve lcwd dst' in
  (tree_size t <= fuel)%nat ->
  lookup rfs (resolve cwd src) = Some t ->
  wf_tree t ->
  no_file_on lfs (removelast A) ->
  kinds_ok lfs A t ->
  (is_dir t = false -> p_parts dst' <> []) ->
  download fuel cwd rfs lcwd lfs src dst wi = Ok (graft lfs A t) /\
  (no_file_on lfs A -> forall q, look (graft lfs A t) q = placed lfs A t q).
Proof. exact download_spec_full. Qed.
Print Assumptions C09_download_spec.

(* Download onto PRE-EXISTING local content.  C09_download_spec already quantifies over every local tree lfs
   (graft replaces a file that meets a file, keeps what the source does not mention); spelled out for the case
   its `placed` clause does not reach -- the destination A itself is an existing local file of ARBITRARY old
   contents c_old (longer, shorter, equal length, empty): afterwards the local file is exactly the remote bytes c
   (no remainder of c_old), nothing is below it, every other path is unchanged. *)
Theorem C09_download_file_replaces : forall cwd rfs lcwd lfs src dst wi c c_old fuel,
  let dst' := final_destination (pname src) dst wi in
  let A := resolve lcwd dst' in
  (1 <= fuel)%nat ->
  lookup rfs (resolve cwd src) = Some (File c) ->
  lookup lfs A = Some (File c_old) ->
  no_file_on lfs (removelast A) ->
  p_parts dst' <> [] ->
  download fuel cwd rfs lcwd lfs src dst wi = Ok (graft lfs A (File c)) /\
  look (graft lfs A (File c)) A = Some (EFile c) /\
  forall q, look (graft lfs A (File c)) q = placed lfs A (File c) q.
Proof. exact download_file_replaces. Qed.
Print Assumptions C09_download_file_replaces.

(* non-vacuity: remote /f = [1], local /f = [9;9;9] (strictly longer): download("f") leaves /f = [1] *)
Example C09_download_file_replaces_example :
  download 1 [] (Dir [([102], File [1])]) [] (Dir [([102], File [9; 9; 9])]) (mkp false [[102]]) (mkp false []) false
  = Ok (Dir [([102], File [1])]).
Proof. vm_compute. reflexivity. Qed.

(* ---------------------------------------------------------------------------------------------- *)
(* Sessions: several operations on ONE client, with changes of the working directory between them.
   The state an operation may depend on is (server-side cwd of the session, remote tree) and nothing else:
   the model of a session is the fold of the single-operation model over that pair (Model.run_seq), and
   every operation in it -- whatever preceded it, in particular whichever directory the session was in when
   the same relative path was used before -- succeeds, moves the cwd as documented (spec_cwd) and leaves
   visible exactly the documented function (spec_view: mkdir -p / placed / subtree gone / unchanged) of what
   was visible before.  op_pre are the hypotheses of the single-operation theorems above, taken on the state
   the operation starts from.  (The code side -- that the real Client keeps no state of its own between
   operations -- is carried by the session correspondence of harness/props/c09.py.) *)
Theorem C09_session_step : forall cwd fs o v,
  op_pre (cwd, fs) o ->
  (forall q, look fs q = v q) ->
  exists fs', step repo_upload_fixed (cwd, fs) o = Ok (spec_cwd cwd o, fs') /\
              forall q, look fs' q = spec_view v cwd o q.
Proof. exact step_sound. Qed.
Print Assumptions C09_session_step.

Theorem C09_session_no_hidden_state : forall ops cwd fs v,
  (forall q, look fs q = v q) ->
  seq_pre (cwd, fs) ops ->
  exists fs', run_seq repo_upload_fixed (cwd, fs) ops = Ok (fst (spec_seq cwd v ops), fs') /\
              forall q, look fs' q = snd (spec_seq cwd v ops) q.
Proof. exact seq_sound. Qed.
Print Assumptions C09_session_no_hidden_state.

(* non-vacuity: upload a directory-only tree to the relative destination x, change to w, upload to x again:
   the hypotheses hold along the way; /x/foo/d and /w/x/foo/d both exist afterwards *)
Example C09_session_example :
  let fs := Dir [(n_w, Dir [])] in
  seq_pre ([], fs) seq_example /\
  exists fs', run_seq repo_upload_fixed ([], fs) seq_example = Ok ([n_w], fs') /\
              look fs' [n_x; n_foo; n_d] = Some EDir /\
              look fs' [n_w; n_x; n_foo; n_d] = Some EDir.
Proof. exact seq_example_ok. Qed.

(* the fuel the harness interface gives (the node count of the whole file system) is enough for every
   subtree, so none of the walks above ends in OutOfFuel *)
Theorem C09_fuel_enough : forall fs p t, lookup fs p = Some t -> (tree_size t <= tree_size fs)%nat.
Proof. exact fuel_enough. Qed.
Print Assumptions C09_fuel_enough.

(* ---------------------------------------------------------------------------------------------- *)
(* non-vacuity: the hypotheses of C09_upload_spec are satisfiable on a non-trivial state (a fresh
   destination x/y under cwd /w, a source with an empty directory, an empty file and equal names on two
   levels), and there the code /repo has now produces exactly the grafted tree *)
Example C09_hypotheses_satisfiable :
  let fs := Dir [([119], Dir [([111], File [1])])] in
  let src := [(n_a, Dir [(n_a, File []); (n_x, Dir [])]); (n_x, File [7])] in
  lookup fs [[119]] = Some (Dir [([111], File [1])]) /\
  wf_tree (Dir src) /\
  compat fs (resolve [[119]] (final_destination n_foo (mkp false [n_x; n_y]) false)) (Dir src) /\
  repo_upload [[119]] fs n_foo (Dir src) (mkp false [n_x; n_y]) false
  = Ok (graft fs [[119]; n_x; n_y; n_foo] (Dir src)).
Proof. exact hypotheses_satisfiable. Qed.
