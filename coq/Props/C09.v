(* C09 — Client tree operations (upload, download, recursive list, remove) are faithful.
   Property statements only; proofs live in Proofs/ClientTree.v.

   Vocabulary (Model/ClientTree.v): a tree is a rose tree of files and directories; the remote file
   system is a tree `fs` and the session's working directory `cwd`; `resolve cwd p` is how the server
   reads a path argument; `look fs q` is what an observer sees at the absolute path q (None, a
   directory, or a file with its contents).  Two file systems with the same `look` at every path are
   the same up to the order of directory entries, which is how equality of trees is stated below.
   `graft fs A src` lays the tree src over whatever is at A (creating the directories down to A);
   `placed fs A src` is its path-by-path description: below A the source, every prefix of A a
   directory, every other path exactly what it was in fs ("and nothing else changed").
   `compat fs A src`: no file/directory conflict between src and what already is at A (no prefix of A
   is a file; a directory of src does not meet a file, a file of src does not meet a directory). *)
From Coq Require Import ZArith List Bool Permutation.
From Verif Require Import Lib.Sx Model.ClientTree Proofs.ClientTree.
Import ListNotations.
Open Scope Z_scope.

(* ---------------------------------------------------------------------------------------------- *)
(* F1: the code as it is misplaces the children of an uploaded directory.
   upload("foo","x") of foo={a} into an empty server: /x/foo stays empty, a lands in /foo;
   upload("foo","x/y",write_into=True): /x/y stays empty, a lands in /y. *)
Theorem C09_upload_dir_refuted :
  (exists cwd fs nm src dst wi r,
      upload cwd fs nm src dst wi = Ok r /\
      r <> graft fs (resolve cwd (final_destination nm dst wi)) src /\
      look r (resolve cwd (final_destination nm dst wi) ++ [n_a]) = None /\
      look r [n_foo; n_a] = Some (EFile [1]) /\ dst = mkp false [n_x] /\ wi = false)
  /\
  (exists cwd fs nm src dst wi r,
      upload cwd fs nm src dst wi = Ok r /\
      r <> graft fs (resolve cwd (final_destination nm dst wi)) src /\
      look r (resolve cwd (final_destination nm dst wi) ++ [n_a]) = None /\
      look r [n_y; n_a] = Some (EFile [1]) /\ dst = mkp false [n_x; n_y] /\ wi = true).
Proof. exact upload_dir_refuted. Qed.
Print Assumptions C09_upload_dir_refuted.

(* What the code as it is does, for EVERY input: the directory is made at the destination A, and each
   node of the source is placed (one mkdir -p / one mkdir -p + STOR per node, breadth first) below
   A' = cwd/<last component of the destination>, not below A. *)
Theorem C09_upload_dir_actual : forall fixed cwd fs nm ch dst wi chc,
  let dst' := final_destination nm dst wi in
  let A := resolve cwd dst' in
  let A' := resolve cwd (upload_anchor fixed wi dst' nm) in
  lookup fs cwd = Some (Dir chc) ->
  no_file_on fs A ->
  run_ok A' (ensure_dir fs A) (bfs (tree_size (Dir ch)) [([], ch)]) ->
  upload_gen fixed cwd fs nm (Dir ch) dst wi
  = Ok (fold_left (sem_op A') (bfs (tree_size (Dir ch)) [([], ch)]) (ensure_dir fs A)).
Proof. exact upload_gen_dir_actual. Qed.
Print Assumptions C09_upload_dir_actual.

(* The full statement, for the code after docs/fixes/C09-upload-destination.diff (upload_fixed):
   every tree (empty directories, empty files, equal names on different levels), every destination
   (empty, one or several components, absolute), both write_into, every cwd: the upload succeeds
   (in particular it does not run out of fuel) and the remote file system is graft fs A src — below A
   the source, the prefixes of A directories, and nothing else changed. *)
Theorem C09_upload_spec_fixed : forall cwd fs nm ch dst wi chc,
  let A := resolve cwd (final_destination nm dst wi) in
  lookup fs cwd = Some (Dir chc) ->
  wf_tree (Dir ch) ->
  compat fs A (Dir ch) ->
  exists fs', upload_fixed cwd fs nm (Dir ch) dst wi = Ok fs' /\
              (forall q, look fs' q = look (graft fs A (Dir ch)) q) /\
              (forall q, look fs' q = placed fs A (Dir ch) q).
Proof.
  intros cwd fs nm ch dst wi chc A Hc W C.
  destruct (upload_spec_fixed cwd fs nm ch dst wi chc Hc W C) as (fs' & E & V).
  exists fs'. repeat split; auto. intro q. rewrite V. symmetry. apply graft_placed; assumption.
Qed.
Print Assumptions C09_upload_spec_fixed.

(* The code as it is meets the same statement exactly when the anchor of the children coincides with
   the destination ... *)
Theorem C09_upload_dir_spec_partial : forall cwd fs nm ch dst wi chc,
  let dst' := final_destination nm dst wi in
  let A := resolve cwd dst' in
  resolve cwd (bug_anchor wi dst' nm) = A ->
  lookup fs cwd = Some (Dir chc) ->
  wf_tree (Dir ch) ->
  compat fs A (Dir ch) ->
  exists fs', upload cwd fs nm (Dir ch) dst wi = Ok fs' /\
              (forall q, look fs' q = look (graft fs A (Dir ch)) q) /\
              (forall q, look fs' q = placed fs A (Dir ch) q).
Proof.
  intros cwd fs nm ch dst wi chc dst' A EA Hc W C.
  destruct (upload_dir_spec_partial cwd fs nm ch dst wi chc EA Hc W C) as (fs' & E & V).
  exists fs'. repeat split; auto. intro q. rewrite V. symmetry. apply graft_placed; assumption.
Qed.
Print Assumptions C09_upload_dir_spec_partial.

(* ... which holds for: write_into with a relative destination of at most one component; no
   write_into with the empty destination (the only shapes the test-suite exercises). *)
Theorem C09_upload_dir_partial_domain : forall cwd nm dst wi,
  (wi = true /\ p_abs dst = false /\ (p_parts dst = [] \/ exists n, n <> [] /\ p_parts dst = [n])) \/
  (wi = false /\ dst = mkp false []) ->
  resolve cwd (bug_anchor wi (final_destination nm dst wi) nm)
  = resolve cwd (final_destination nm dst wi).
Proof. exact bug_anchor_ok. Qed.
Print Assumptions C09_upload_dir_partial_domain.

(* A single file: any destination that has a name, both write_into, both versions of the code. *)
Theorem C09_upload_file_spec : forall fixed cwd fs nm c dst wi chc,
  let dst' := final_destination nm dst wi in
  let A := resolve cwd dst' in
  lookup fs cwd = Some (Dir chc) ->
  p_parts dst' <> [] ->
  no_file_on fs (removelast A) ->
  (forall ch, lookup fs A <> Some (Dir ch)) ->
  upload_gen fixed cwd fs nm (File c) dst wi = Ok (graft fs A (File c)) /\
  forall q, look (graft fs A (File c)) q = placed fs A (File c) q.
Proof. exact upload_file_spec. Qed.
Print Assumptions C09_upload_file_spec.

(* make_directory is mkdir -p (exact, including the order of directory entries) *)
Theorem C09_make_directory_spec : forall cwd fs p chc,
  lookup fs cwd = Some (Dir chc) ->
  no_file_on fs (resolve cwd p) ->
  make_directory cwd fs p = Ok (ensure_dir fs (resolve cwd p)).
Proof. exact make_directory_exact. Qed.
Print Assumptions C09_make_directory_spec.

(* ---------------------------------------------------------------------------------------------- *)
(* A recursive listing returns every entry of the subtree exactly once, with its correct path and
   type: the result is a permutation of the preorder enumeration of the subtree. *)
Theorem C09_list_recursive_exact : forall cwd fs p t fuel,
  lookup fs (resolve cwd p) = Some t ->
  wf_tree t ->
  (tree_size t <= fuel)%nat ->
  exists l, list_path fuel cwd fs true p = Ok l /\
            Permutation l (map (fun e => (mkp (p_abs p) (fst e), snd e)) (entries (p_parts p) t)).
Proof. exact list_recursive_exact. Qed.
Print Assumptions C09_list_recursive_exact.

(* ---------------------------------------------------------------------------------------------- *)
(* Recursive remove deletes the subtree (exactly: the result is remove_at fs a, entry order included),
   the subtree is gone and every path outside it is untouched. *)
Theorem C09_remove_spec : forall cwd t fuel fs p,
  (tree_size t <= fuel)%nat ->
  lookup fs (resolve cwd p) = Some t ->
  resolve cwd p <> [] ->
  remove fuel cwd fs p = Ok (remove_at fs (resolve cwd p)) /\
  (forall q, is_prefix (resolve cwd p) q = false -> look (remove_at fs (resolve cwd p)) q = look fs q) /\
  (wf_tree fs -> forall r, look (remove_at fs (resolve cwd p)) (resolve cwd p ++ r) = None).
Proof.
  intros cwd t fuel fs p Hf L Ha. split; [apply (remove_exact cwd t); assumption|]. split.
  - intros q P. apply look_remove_at_other. assumption.
  - intros W r. eapply look_remove_at_gone; eauto.
Qed.
Print Assumptions C09_remove_spec.

(* ---------------------------------------------------------------------------------------------- *)
(* Download is the mirror image: the local file system becomes graft lfs A t (exactly, entry order
   included) where t is the remote subtree at the source and A the local destination
   (lcwd / dst [/ source.name]); kinds_ok = no file/directory conflict with what is already there. *)
Theorem C09_download_spec : forall cwd rfs lcwd lfs src dst wi t fuel,
  let dst' := final_destination (pname src) dst wi in
  let A := resolve lcwd dst' in
  (tree_size t <= fuel)%nat ->
  lookup rfs (resolve cwd src) = Some t ->
  wf_tree t ->
  no_file_on lfs (removelast A) ->
  kinds_ok lfs A t ->
  (is_dir t = false -> p_parts dst' <> []) ->
  download fuel cwd rfs lcwd lfs src dst wi = Ok (graft lfs A t) /\
  (no_file_on lfs A -> forall q, look (graft lfs A t) q = placed lfs A t q).
Proof.
  intros cwd rfs lcwd lfs src dst wi t fuel dst' A Hf L W NF K HP. split.
  - apply download_spec; assumption.
  - intros NFA q. apply graft_placed; [assumption|]. split; assumption.
Qed.
Print Assumptions C09_download_spec.

(* the fuel the harness interface gives (the node count of the whole file system) is enough for every
   subtree, so none of the walks above ends in OutOfFuel *)
Theorem C09_fuel_enough : forall fs p t, lookup fs p = Some t -> (tree_size t <= tree_size fs)%nat.
Proof. exact fuel_enough. Qed.
Print Assumptions C09_fuel_enough.

(* ---------------------------------------------------------------------------------------------- *)
(* non-vacuity: the hypotheses are satisfiable on a non-trivial state (a fresh destination x/y under
   cwd /w, a source with an empty directory, an empty file and equal names on two levels) *)
Example C09_hypotheses_satisfiable :
  let fs := Dir [([119], Dir [([111], File [1])])] in
  let src := [(n_a, Dir [(n_a, File []); (n_x, Dir [])]); (n_x, File [7])] in
  lookup fs [[119]] = Some (Dir [([111], File [1])]) /\
  wf_tree (Dir src) /\
  compat fs (resolve [[119]] (final_destination n_foo (mkp false [n_x; n_y]) false)) (Dir src) /\
  upload_fixed [[119]] fs n_foo (Dir src) (mkp false [n_x; n_y]) false
  = Ok (graft fs [[119]; n_x; n_y; n_foo] (Dir src)).
Proof.
  cbv zeta. split; [reflexivity|]. split.
  - simpl. repeat (split || constructor); simpl; intuition discriminate.
  - split; [|vm_compute; reflexivity].
    apply compat_fresh; [|reflexivity].
    intros q P c. apply is_prefix_true in P as [r P].
    destruct q as [|q1 [|q2 [|q3 [|q4 [|q5 q]]]]]; simpl in P; inversion P; subst; vm_compute; discriminate.
Qed.
