(* C09 — Client tree operations (upload, download, recursive list, remove) are faithful.
   Property statements only; proofs live in Proofs/ClientTree.v.

   Vocabulary (Model/ClientTree.v): a tree is a rose tree of files and directories; the remote file
   system is a tree `fs` and the session's working directory `cwd`; `resolve cwd p` is how the server
   reads a path argument; `look fs q` is what an observer sees at the absolute path q (None, a
   directory, or a file with its contents).  Two file systems with the same `look` at every path are
   the same up to the order of directory entries, which is how equality of trees is stated below.
   `graft fs A src` lays the tree src over whatever is at A (creating the directories down to A);
   `placed fs A src` is its path-by-path description: below A the source, every prefix of A a
   directory, every other path exactly what it was in fs ("and nothing else changed").
   `compat fs A src`: no file/directory conflict between src and what already is at A (no prefix of A
   is a file; a directory of src does not meet a file, a file of src does not meet a directory). *)
From Coq Require Import ZArith List Bool Permutation.
From Verif Require Import Lib.Sx Model.ClientTree Proofs.ClientTree Gen.ClientWalks.
Import ListNotations.
Open Scope Z_scope.

(* ---------------------------------------------------------------------------------------------- *)
(* The tie to the source.  tools/py2v/gen_client_walks.py re-reads client.py on every run (fail closed):
   which of the two known computations of a child's destination Client.upload uses
   (upload_relative_fixed: false = as found, finding F1; true = docs/fixes/C09-upload-destination.diff),
   and that the rest of the path plumbing of upload/download is what the model transcribes. *)
Definition repo_upload_fixed : bool := Gen.ClientWalks.upload_relative_fixed.
(* the model of Client.upload as /repo has it NOW (this is what the harness runs against the real client) *)
Definition repo_upload := upload_gen repo_upload_fixed.

Lemma C09_source_obligations :
  Gen.ClientWalks.translator_ok
  && Gen.ClientWalks.upload_final_destination_ok && Gen.ClientWalks.upload_children_use_relative
  && Gen.ClientWalks.download_final_destination_ok && Gen.ClientWalks.download_child_ok = true.
Proof. vm_compute. reflexivity. Qed.

(* ---------------------------------------------------------------------------------------------- *)
(* F1: the code as found (upload = upload_gen false) misplaces the children of an uploaded directory.
   upload("foo","x") of foo={a} into an empty server: /x/foo stays empty, a lands in /foo;
   upload("foo","x/y",write_into=True): /x/y stays empty, a lands in /y. *)
Theorem C09_upload_dir_refuted :
  (exists cwd fs nm src dst wi r,
      upload cwd fs nm src dst wi = Ok r /\
      r <> graft fs (resolve cwd (final_destination nm dst wi)) src /\
      look r (resolve cwd (final_destination nm dst wi) ++ [n_a]) = None /\
      look r [n_foo; n_a] = Some (EFile [1]) /\ dst = mkp false [n_x] /\ wi = false)
  /\
  (exists cwd fs nm src dst wi r,
      upload cwd fs nm src dst wi = Ok r /\
      r <> graft fs (resolve cwd (final_destination nm dst wi)) src /\
      look r (resolve cwd (final_destination nm dst wi) ++ [n_a]) = None /\
      look r [n_y; n_a] = Some (EFile [1]) /\ dst = mkp false [n_x; n_y] /\ wi = true).
Proof. exact upload_dir_refuted. Qed.
Print Assumptions C09_upload_dir_refuted.

(* What either version does, for EVERY input: the directory is made at the destination A, and each
   node of the source is placed (one mkdir -p / one mkdir -p + STOR per node, breadth first) below
   A' = the anchor: A itself after the fix, cwd/<last component of the destination> as found. *)
Theorem C09_upload_dir_actual : forall fixed cwd fs nm ch dst wi chc,
  let dst' := final_destination nm dst wi in
  let A := resolve cwd dst' in
  let A' := resolve cwd (upload_anchor fixed wi dst' nm) in
  lookup fs cwd = Some (Dir chc) ->
  no_file_on fs A ->
  run_ok A' (ensure_dir fs A) (bfs (tree_size (Dir ch)) [([], ch)]) ->
  upload_gen fixed cwd fs nm (Dir ch) dst wi
  = Ok (fold_left (sem_op A') (bfs (tree_size (Dir ch)) [([], ch)]) (ensure_dir fs A)).
Proof. exact upload_gen_dir_actual. Qed.
Print Assumptions C09_upload_dir_actual.

(* The same, path by path, for EVERY input with at least one child and both versions: the directory is
   made (empty) at the destination A, the tree is laid out below the anchor A', nothing else changes. *)
Theorem C09_upload_dir_view : forall fixed cwd fs nm ch dst wi chc,
  let dst' := final_destination nm dst wi in
  let A := resolve cwd dst' in
  let A' := resolve cwd (upload_anchor fixed wi dst' nm) in
  ch <> [] ->
  lookup fs cwd = Some (Dir chc) ->
  wf_tree (Dir ch) ->
  no_file_on fs A ->
  compat (ensure_dir fs A) A' (Dir ch) ->
  exists fs', upload_gen fixed cwd fs nm (Dir ch) dst wi = Ok fs' /\
              forall q, look fs' q = placed (ensure_dir fs A) A' (Dir ch) q.
Proof. exact upload_gen_dir_view. Qed.
Print Assumptions C09_upload_dir_view.

(* F1 universally (not only the two witnesses): with the code as found every child n of the source is
   missing from the documented place A/n and sits at A'/n = cwd/<last component>/n instead, whenever A/n
   was free before and is neither on the way to nor below the anchor (which excludes only contrived
   coincidences such as upload("foo","foo") of a tree that itself contains foo/n). *)
Theorem C09_upload_dir_child_misplaced : forall cwd fs nm ch dst wi chc n t,
  let dst' := final_destination nm dst wi in
  let A := resolve cwd dst' in
  let A' := resolve cwd (bug_anchor wi dst' nm) in
  assoc n ch = Some t ->
  lookup fs cwd = Some (Dir chc) ->
  wf_tree (Dir ch) ->
  no_file_on fs A ->
  compat (ensure_dir fs A) A' (Dir ch) ->
  look fs (A ++ [n]) = None ->
  is_prefix A' (A ++ [n]) = false ->
  is_prefix (A ++ [n]) A' = false ->
  exists fs', upload cwd fs nm (Dir ch) dst wi = Ok fs' /\
              look fs' (A ++ [n]) = None /\
              placed fs A (Dir ch) (A ++ [n]) = Some (entry_of t) /\
              look fs' (A' ++ [n]) = Some (entry_of t).
Proof. exact upload_dir_child_misplaced. Qed.
Print Assumptions C09_upload_dir_child_misplaced.

Example C09_child_misplaced_satisfiable :
  let fs := Dir [] in
  let ch := [(n_a, File [1])] in
  let dst' := final_destination n_foo (mkp false [n_x]) false in
  let A := resolve [] dst' in
  let A' := resolve [] (bug_anchor false dst' n_foo) in
  assoc n_a ch = Some (File [1]) /\
  lookup fs [] = Some (Dir []) /\
  wf_tree (Dir ch) /\
  no_file_on fs A /\
  compat (ensure_dir fs A) A' (Dir ch) /\
  look fs (A ++ [n_a]) = None /\
  is_prefix A' (A ++ [n_a]) = false /\
  is_prefix (A ++ [n_a]) A' = false.
Proof. exact child_misplaced_satisfiable. Qed.

(* The statement about the code /repo has NOW (repo_upload, the form read from the source).
   Every tree (empty directories, empty files, equal names on different levels), every destination
   (empty, one or several components, absolute), both write_into, every cwd: the upload succeeds
   (in particular it does not run out of fuel) and the remote file system is graft fs A src — below A
   the source, the prefixes of A directories, and nothing else changed — PROVIDED the anchor of the
   children is the destination.  With repo_upload_fixed = true (after the fix) that hypothesis reads
   A = A (C09_upload_anchor_fixed) and this is the full statement of the property; with
   repo_upload_fixed = false it is the carved part of C09_upload_dir_partial_domain. *)
Theorem C09_upload_dir_spec_repo : forall cwd fs nm ch dst wi chc,
  let dst' := final_destination nm dst wi in
  let A := resolve cwd dst' in
  resolve cwd (upload_anchor repo_upload_fixed wi dst' nm) = A ->
  lookup fs cwd = Some (Dir chc) ->
  wf_tree (Dir ch) ->
  compat fs A (Dir ch) ->
  exists fs', repo_upload cwd fs nm (Dir ch) dst wi = Ok fs' /\
              (forall q, look fs' q = look (graft fs A (Dir ch)) q) /\
              (forall q, look fs' q = placed fs A (Dir ch) q).
Proof. exact (upload_gen_dir_spec_full repo_upload_fixed). Qed.
Print Assumptions C09_upload_dir_spec_repo.

Theorem C09_upload_anchor_fixed : forall wi dst' nm, upload_anchor true wi dst' nm = dst'.
Proof. exact upload_anchor_fixed. Qed.
Print Assumptions C09_upload_anchor_fixed.

(* The full statement, for the code after docs/fixes/C09-upload-destination.diff (upload_fixed =
   upload_gen true): no anchor hypothesis. *)
Theorem C09_upload_spec_fixed : forall cwd fs nm ch dst wi chc,
  let A := resolve cwd (final_destination nm dst wi) in
  lookup fs cwd = Some (Dir chc) ->
  wf_tree (Dir ch) ->
  compat fs A (Dir ch) ->
  exists fs', upload_fixed cwd fs nm (Dir ch) dst wi = Ok fs' /\
              (forall q, look fs' q = look (graft fs A (Dir ch)) q) /\
              (forall q, look fs' q = placed fs A (Dir ch) q).
Proof. exact upload_spec_fixed_full. Qed.
Print Assumptions C09_upload_spec_fixed.

(* ONCE THE FIX IS IN /repo (Gen.ClientWalks.upload_relative_fixed = true) the following closes as it
   stands (repo_upload then converts to upload_fixed); until then it does not typecheck, which is finding F1:

Theorem C09_upload_spec : forall cwd fs nm ch dst wi chc,
  let A := resolve cwd (final_destination nm dst wi) in
  lookup fs cwd = Some (Dir chc) ->
  wf_tree (Dir ch) ->
  compat fs A (Dir ch) ->
  exists fs', repo_upload cwd fs nm (Dir ch) dst wi = Ok fs' /\
              (forall q, look fs' q = look (graft fs A (Dir ch)) q) /\
              (forall q, look fs' q = placed fs A (Dir ch) q).
Proof. exact upload_spec_fixed_full. Qed.
Print Assumptions C09_upload_spec.
*)

(* The code as found meets the same statement exactly when the anchor of the children coincides with
   the destination ... *)
Theorem C09_upload_dir_spec_partial : forall cwd fs nm ch dst wi chc,
  let dst' := final_destination nm dst wi in
  let A := resolve cwd dst' in
  resolve cwd (bug_anchor wi dst' nm) = A ->
  lookup fs cwd = Some (Dir chc) ->
  wf_tree (Dir ch) ->
  compat fs A (Dir ch) ->
  exists fs', upload cwd fs nm (Dir ch) dst wi = Ok fs' /\
              (forall q, look fs' q = look (graft fs A (Dir ch)) q) /\
              (forall q, look fs' q = placed fs A (Dir ch) q).
Proof. exact upload_dir_spec_partial_full. Qed.
Print Assumptions C09_upload_dir_spec_partial.

(* ... which holds for: write_into with a relative destination of at most one component; no
   write_into with the empty destination (the only shapes the test-suite exercises). *)
Theorem C09_upload_dir_partial_domain : forall cwd nm dst wi,
  (wi = true /\ p_abs dst = false /\ (p_parts dst = [] \/ exists n, n <> [] /\ p_parts dst = [n])) \/
  (wi = false /\ dst = mkp false []) ->
  resolve cwd (bug_anchor wi (final_destination nm dst wi) nm)
  = resolve cwd (final_destination nm dst wi).
Proof. exact bug_anchor_ok. Qed.
Print Assumptions C09_upload_dir_partial_domain.

(* A single file: any destination that has a name, both write_into, both versions of the code. *)
Theorem C09_upload_file_spec : forall fixed cwd fs nm c dst wi chc,
  let dst' := final_destination nm dst wi in
  let A := resolve cwd dst' in
  lookup fs cwd = Some (Dir chc) ->
  p_parts dst' <> [] ->
  no_file_on fs (removelast A) ->
  (forall ch, lookup fs A <> Some (Dir ch)) ->
  upload_gen fixed cwd fs nm (File c) dst wi = Ok (graft fs A (File c)) /\
  forall q, look (graft fs A (File c)) q = placed fs A (File c) q.
Proof. exact upload_file_spec. Qed.
Print Assumptions C09_upload_file_spec.

(* make_directory is mkdir -p (exact, including the order of directory entries) *)
Theorem C09_make_directory_spec : forall cwd fs p chc,
  lookup fs cwd = Some (Dir chc) ->
  no_file_on fs (resolve cwd p) ->
  make_directory cwd fs p = Ok (ensure_dir fs (resolve cwd p)).
Proof. exact make_directory_exact. Qed.
Print Assumptions C09_make_directory_spec.

(* ---------------------------------------------------------------------------------------------- *)
(* A recursive listing returns every entry of the subtree exactly once, with its correct path and
   type: the result is a permutation of the preorder enumeration of the subtree. *)
Theorem C09_list_recursive_exact : forall cwd fs p t fuel,
  lookup fs (resolve cwd p) = Some t ->
  wf_tree t ->
  (tree_size t <= fuel)%nat ->
  exists l, list_path fuel cwd fs true p = Ok l /\
            Permutation l (map (fun e => (mkp (p_abs p) (fst e), snd e)) (entries (p_parts p) t)).
Proof. exact list_recursive_exact. Qed.
Print Assumptions C09_list_recursive_exact.

(* ---------------------------------------------------------------------------------------------- *)
(* Recursive remove deletes the subtree (exactly: the result is remove_at fs a, entry order included),
   the subtree is gone and every path outside it is untouched. *)
Theorem C09_remove_spec : forall cwd t fuel fs p,
  (tree_size t <= fuel)%nat ->
  lookup fs (resolve cwd p) = Some t ->
  resolve cwd p <> [] ->
  remove fuel cwd fs p = Ok (remove_at fs (resolve cwd p)) /\
  (forall q, is_prefix (resolve cwd p) q = false -> look (remove_at fs (resolve cwd p)) q = look fs q) /\
  (wf_tree fs -> forall r, look (remove_at fs (resolve cwd p)) (resolve cwd p ++ r) = None).
Proof. exact remove_spec_full. Qed.
Print Assumptions C09_remove_spec.

(* ---------------------------------------------------------------------------------------------- *)
(* Download is the mirror image: the local file system becomes graft lfs A t (exactly, entry order
   included) where t is the remote subtree at the source and A the local destination
   (lcwd / dst [/ source.name]); kinds_ok = no file/directory conflict with what is already there. *)
Theorem C09_download_spec : forall cwd rfs lcwd lfs src dst wi t fuel,
  let dst' := final_destination (pname src) dst wi in
  let A := resolve lcwd dst' in
  (tree_size t <= fuel)%nat ->
  lookup rfs (resolve cwd src) = Some t ->
  wf_tree t ->
  no_file_on lfs (removelast A) ->
  kinds_ok lfs A t ->
  (is_dir t = false -> p_parts dst' <> []) ->
  download fuel cwd rfs lcwd lfs src dst wi = Ok (graft lfs A t) /\
  (no_file_on lfs A -> forall q, look (graft lfs A t) q = placed lfs A t q).
Proof. exact download_spec_full. Qed.
Print Assumptions C09_download_spec.

(* the fuel the harness interface gives (the node count of the whole file system) is enough for every
   subtree, so none of the walks above ends in OutOfFuel *)
Theorem C09_fuel_enough : forall fs p t, lookup fs p = Some t -> (tree_size t <= tree_size fs)%nat.
Proof. exact fuel_enough. Qed.
Print Assumptions C09_fuel_enough.

(* ---------------------------------------------------------------------------------------------- *)
(* non-vacuity: the hypotheses are satisfiable on a non-trivial state (a fresh destination x/y under
   cwd /w, a source with an empty directory, an empty file and equal names on two levels); the anchor
   hypothesis of C09_upload_dir_spec_repo is satisfiable for either form of the code (destination x,
   write_into) *)
Example C09_hypotheses_satisfiable :
  let fs := Dir [([119], Dir [([111], File [1])])] in
  let src := [(n_a, Dir [(n_a, File []); (n_x, Dir [])]); (n_x, File [7])] in
  lookup fs [[119]] = Some (Dir [([111], File [1])]) /\
  wf_tree (Dir src) /\
  compat fs (resolve [[119]] (final_destination n_foo (mkp false [n_x; n_y]) false)) (Dir src) /\
  upload_fixed [[119]] fs n_foo (Dir src) (mkp false [n_x; n_y]) false
  = Ok (graft fs [[119]; n_x; n_y; n_foo] (Dir src)) /\
  (forall fixed, resolve [[119]] (upload_anchor fixed true (final_destination n_foo (mkp false [n_x]) true) n_foo)
                 = resolve [[119]] (final_destination n_foo (mkp false [n_x]) true)).
Proof. exact hypotheses_satisfiable. Qed.
