(* C09 — Client tree operations (upload, download, recursive list, remove) are faithful.
   Property statements only; proofs live in Proofs/ClientTree.v. *)
From Coq Require Import ZArith List Bool Permutation.
From Verif Require Import Lib.Sx Model.ClientTree Proofs.ClientTree.
Import ListNotations.
Open Scope Z_scope.

Theorem C09_upload_dir_refuted :
  (exists cwd fs nm src dst wi r,
      upload cwd fs nm src dst wi = Ok r /\
      r <> graft fs (resolve cwd (final_destination nm dst wi)) src /\
      look r (resolve cwd (final_destination nm dst wi) ++ [n_a]) = None /\
      look r [n_foo; n_a] = Some (EFile [1]) /\ dst = mkp false [n_x] /\ wi = false)
  /\
  (exists cwd fs nm src dst wi r,
      upload cwd fs nm src dst wi = Ok r /\
      r <> graft fs (resolve cwd (final_destination nm dst wi)) src /\
      look r (resolve cwd (final_destination nm dst wi) ++ [n_a]) = None /\
      look r [n_y; n_a] = Some (EFile [1]) /\ dst = mkp false [n_x; n_y] /\ wi = true).
Proof. exact upload_dir_refuted. Qed.
Print Assumptions C09_upload_dir_refuted.
