(* C11 — The passive data-port pool neither loses nor duplicates ports.
   Property statements only; proofs live in Proofs/PortPool.v.

   Full statement (properties.jsonl): each configured port is at every moment either available in
   the pool or bound by exactly one live session; busy ports are skipped and retried later without
   being lost or duplicated; exhaustion is answered with 421; when a session ends - in any way and
   at any moment, including while its passive listener is still being opened - its port returns to
   the pool; after all sessions are gone the pool holds exactly the configured ports.

   On the current source the "in any way and at any moment" part is FALSE in two ways (both
   reproduced on the real code, see harness/props/c11.py `known`):
     - a session that ends while its listener is being opened loses the port (and, after the
       bind, leaves a bound listener nobody owns)            -> C11_pool_conserved_refuted_cancel1/2
     - a second PASV/EPSV while the first listener of the same session is still being opened
       starts a second listener; the first one and its port are overwritten and lost
                                                             -> C11_pool_conserved_refuted_overlap
   What holds for ALL histories is C11_never_duplicated / C11_accounting; the conservation
   theorem is proved for histories without those two situations (C11_pool_conserved_partial).

   For the REPAIRED shape of _start_passive_server (docs/fixes/C11-port-giveback+overlap.diff: give
   the port back and close what is bound on BaseException, keep the listener handle across the
   second suspension point, re-check connection.passive_server after the start-up) the full
   statement is proved for every history: C11_pool_conserved_repaired / C11_quiescent_pool_repaired.
   The translator recognises both shapes (Gen.PortPool.sps_giveback / sps_recheck, justified by
   C11_ladder_obligation); once the fix is in /repo, gen_pcfg = repaired_pcfg by computation, the
   _refuted theorems below stop compiling (as they must) and are to be replaced by
   `C11_pool_conserved := C11_pool_conserved_repaired` (see docs/notes/C11.md). *)
From Coq Require Import ZArith List Bool String Lia.
From Verif Require Import Lib.Sx Lib.Facts Model.PortPool Proofs.PortPool.
From Verif Require Gen.Dispatch Gen.PortPool.
Import ListNotations.
Open Scope Z_scope.

(* ---- closed obligations on the regenerated facts *)
Lemma C11_translator_ok : Gen.Dispatch.translator_ok && Gen.PortPool.translator_ok = true.
Proof. vm_compute. reflexivity. Qed.

(* finally: `passive_server.close()` and `put_nowait((0, passive_server_port))`, once each, iff
   passive_server is set (and data ports are configured) *)
Lemma C11_finally_obligation : check_pfinally (d_finally Gen.Dispatch.dispatcher) = true.
Proof. vm_compute. reflexivity. Qed.

(* _start_passive_server has the try body and except ladder the machine implements; pasv/epsv map
   NoAvailablePort to 421 + return False *)
Lemma C11_ladder_obligation :
  check_ladder Gen.PortPool.sps_try Gen.PortPool.sps_handlers Gen.PortPool.sps_has_finally
               Gen.PortPool.sps_has_else Gen.PortPool.passive_except
               Gen.PortPool.sps_giveback Gen.PortPool.sps_recheck = true.
Proof. vm_compute. reflexivity. Qed.

Lemma C11_frame_obligation : check_pframe Gen.Dispatch.handlers = true.
Proof. vm_compute. reflexivity. Qed.

(* errors.py today: NoAvailablePort(AIOFTPException, OSError) *)
Definition gen_hier : bool := is_subclass 8 Gen.PortPool.class_bases "NoAvailablePort" "OSError".

Lemma C11_hierarchy_obligation : gen_hier = true.
Proof. vm_compute. reflexivity. Qed.

Definition gen_pcfg (ports : list Z) (v6 : bool) : pconfig :=
  {| pc_ports := ports; pc_hier := gen_hier;
     pc_fin := d_finally Gen.Dispatch.dispatcher; pc_loop_open := true;
     pc_giveback := Gen.PortPool.sps_giveback; pc_recheck := Gen.PortPool.sps_recheck; pc_ipv6 := v6 |}.

Lemma gen_pcfg_ok : forall ports v6, pcfg_ok (gen_pcfg ports v6).
Proof. intros ports v6. constructor; [exact C11_finally_obligation|reflexivity]. Qed.

Definition reachp (ports : list Z) (v6 : bool) (evs : list pevent) : pstate :=
  prun (gen_pcfg ports v6) (pinit (gen_pcfg ports v6)) evs.

(* ---- for ALL pools, sessions, fault choices, cancellations and interleavings *)

(* every configured port is (with multiplicity) in exactly one place: the pool, a live session
   (its listener or a start-up in flight), or the ledger of lost ports *)
Theorem C11_accounting : forall ports v6 evs p,
  total p (reachp ports v6 evs) = occ p ports.
Proof. intros ports v6 evs p. exact (accounting (gen_pcfg ports v6) evs p (gen_pcfg_ok ports v6)). Qed.
Print Assumptions C11_accounting.

(* hence a port is never duplicated, whatever happens *)
Theorem C11_never_duplicated : forall ports v6 evs p,
  occ p (ports_of (pp_pool (reachp ports v6 evs))) + held p (reachp ports v6 evs) <= occ p ports.
Proof.
  intros ports v6 evs p. pose proof (C11_accounting ports v6 evs p) as H. unfold total in H.
  pose proof (occ_nonneg p (pp_lost (reachp ports v6 evs))). unfold held. lia.
Qed.
Print Assumptions C11_never_duplicated.

(* ---- conservation, for histories that never end a session (or close the server) while one of
   its listeners is being opened and never issue PASV/EPSV while one is being opened:
   pool (+) ports held by live sessions = configured, nothing lost, no orphan listener;
   busy ports (EADDRINUSE) and other OSErrors included, any number of sessions, any pool *)
Theorem C11_pool_conserved_partial : forall ports v6 evs,
  quiet_run (gen_pcfg ports v6) (pinit (gen_pcfg ports v6)) evs = true ->
  let st := reachp ports v6 evs in
  (forall p, occ p (ports_of (pp_pool st)) + held p st = occ p ports)
  /\ pp_lost st = [] /\ pp_orphans st = [].
Proof.
  intros ports v6 evs. exact (pool_conserved_partial (gen_pcfg ports v6) evs (gen_pcfg_ok ports v6) C11_hierarchy_obligation).
Qed.
Print Assumptions C11_pool_conserved_partial.

Theorem C11_quiescent_pool_partial : forall ports v6 evs,
  quiet_run (gen_pcfg ports v6) (pinit (gen_pcfg ports v6)) evs = true ->
  let st := reachp ports v6 evs in
  Forall (fun s => p_live s = false) (pp_sess st) ->
  forall p, occ p (ports_of (pp_pool st)) = occ p ports.
Proof.
  intros ports v6 evs. exact (quiescent_pool (gen_pcfg ports v6) evs (gen_pcfg_ok ports v6) C11_hierarchy_obligation).
Qed.
Print Assumptions C11_quiescent_pool_partial.

(* the retry loop: a start-up has only tried distinct configured ports (<= |configured|), each busy
   port makes it view one more, and once all ports of the pool are viewed the next attempt exits
   with NoAvailablePort: at most |configured| + 1 attempts per PASV, for every history *)
Theorem C11_viewed_terminates : forall ports v6 evs s su,
  In s (pp_sess (reachp ports v6 evs)) -> In su (p_inflight s) ->
  NoDup (su_viewed su)
  /\ (forall q, In q (su_viewed su) -> In q ports)
  /\ (List.length (su_viewed su) <= List.length ports)%nat.
Proof. intros ports v6 evs s su. exact (viewed_bounded (gen_pcfg ports v6) evs s su (gen_pcfg_ok ports v6)). Qed.
Print Assumptions C11_viewed_terminates.

Theorem C11_retry_progress : forall hier pool su pool2 su',
  loop_head hier (put (su_prio su + 1, su_port su) pool) (su_viewed su) = HStart pool2 su' ->
  List.length (su_viewed su') = S (List.length (su_viewed su)).
Proof. exact retry_progress. Qed.

Theorem C11_all_viewed_exits : forall hier pool viewed,
  (forall q, In q (ports_of pool) -> In q viewed) ->
  exists pool' lost, loop_head hier pool viewed = HExit pool' lost.
Proof. exact loop_head_all_viewed_exits. Qed.

(* exhaustion => 421 (and `return False`: the session ends) *)
Theorem C11_exhaustion_421 : forall ports v6 st i lg s,
  plive st i = Some s -> p_passive s = None -> pp_pool st = [] ->
  snd (pstep (gen_pcfg ports v6) st (Pasv i lg)) = [(i, 421)].
Proof. intros ports v6. exact (exhaustion_421 (gen_pcfg ports v6)). Qed.
Print Assumptions C11_exhaustion_421.

(* ---- the class hierarchy is load-bearing: were NoAvailablePort not an OSError, the "all ports
   viewed" exit would lose the port it just took (no cancellation, no overlap involved) *)
Theorem C11_hierarchy_needed :
  exists evs,
    let cfg := {| pc_ports := [30001]; pc_hier := false;
                  pc_fin := d_finally Gen.Dispatch.dispatcher; pc_loop_open := true;
                  pc_giveback := Gen.PortPool.sps_giveback; pc_recheck := Gen.PortPool.sps_recheck; pc_ipv6 := false |} in
    quiet_run cfg (pinit cfg) evs = true
    /\ pp_lost (prun cfg (pinit cfg) evs) = [30001]
    /\ pp_pool (prun cfg (pinit cfg) evs) = [].
Proof. exists [PConnect; Pasv 0 false; Resume 0 0 AddrInUse]. vm_compute. auto. Qed.

(* ---- REFUTED on the current source (F5): the session ends while its listener is being opened.
   Suspension point 1 (before the bind): the port never comes back. *)
Theorem C11_pool_conserved_refuted_cancel1 :
  exists evs,
    let st := reachp [30001; 30002] false evs in
    Forall (fun s => p_live s = false) (pp_sess st)
    /\ ports_of (pp_pool st) = [30002] /\ pp_lost st = [30001] /\ pp_orphans st = [].
Proof. exists [PConnect; Pasv 0 false; End_ 0]. vm_compute. repeat split; repeat constructor. Qed.

(* Suspension point 2 (after the bind): additionally the listener stays bound, owned by nobody. *)
Theorem C11_pool_conserved_refuted_cancel2 :
  exists evs,
    let st := reachp [30001; 30002] false evs in
    Forall (fun s => p_live s = false) (pp_sess st)
    /\ ports_of (pp_pool st) = [30002] /\ pp_lost st = [30001] /\ pp_orphans st = [30001].
Proof. exists [PConnect; Pasv 0 false; Resume 0 0 BindOk; End_ 0]. vm_compute. repeat split; repeat constructor. Qed.

(* REFUTED (new): PASV twice while the first listener is still being opened: two ports are taken,
   the second completion overwrites the first listener; after QUIT one port and one bound
   listener are gone for good.  No cancellation, no fault. *)
Theorem C11_pool_conserved_refuted_overlap :
  exists evs,
    let st := reachp [30001; 30002; 30003] false evs in
    Forall (fun s => p_live s = false) (pp_sess st)
    /\ ports_of (pp_pool st) = [30002; 30003] /\ pp_lost st = [30001] /\ pp_orphans st = [30001].
Proof.
  exists [PConnect; Pasv 0 false; Pasv 0 false; Resume 0 0 BindOk; Resume 0 1 BindOk; Resume 0 0 BindOk; Resume 0 0 BindOk; End_ 0].
  vm_compute. repeat split; repeat constructor.
Qed.

(* ---- the REPAIRED shape (candidate fix docs/fixes/C11-port-giveback+overlap.diff): the full statement,
   for every pool, any number of sessions, every bind outcome, a session end at ANY moment (inside a
   listener start-up included), overlapping PASV/EPSV included *)
Definition repaired_pcfg (ports : list Z) (v6 : bool) : pconfig :=
  {| pc_ports := ports; pc_hier := gen_hier;
     pc_fin := d_finally Gen.Dispatch.dispatcher; pc_loop_open := true;
     pc_giveback := true; pc_recheck := true; pc_ipv6 := v6 |}.

Lemma repaired_pcfg_ok : forall ports v6, pcfg_ok (repaired_pcfg ports v6).
Proof. intros ports v6. constructor; [exact C11_finally_obligation|reflexivity]. Qed.

(* the repaired shape is one check_ladder accepts (with exactly these flags), so after the fix the same
   obligation C11_ladder_obligation ties the source to repaired_pcfg *)
Example C11_repaired_shape_accepted :
  check_ladder (try_fixed true) handlers_fixed false false Gen.PortPool.passive_except true true = true
  /\ check_ladder (try_fixed true) handlers_fixed false false Gen.PortPool.passive_except false false = false
  /\ check_ladder try_today handlers_today false false Gen.PortPool.passive_except true true = false.
Proof. vm_compute. auto. Qed.

Theorem C11_pool_conserved_repaired : forall ports v6 evs,
  let st := prun (repaired_pcfg ports v6) (pinit (repaired_pcfg ports v6)) evs in
  (forall p, occ p (ports_of (pp_pool st)) + held p st = occ p ports)
  /\ pp_lost st = [] /\ pp_orphans st = [].
Proof.
  intros ports v6 evs.
  exact (pool_conserved_fixed (repaired_pcfg ports v6) evs (repaired_pcfg_ok ports v6) C11_hierarchy_obligation eq_refl eq_refl).
Qed.
Print Assumptions C11_pool_conserved_repaired.

Theorem C11_quiescent_pool_repaired : forall ports v6 evs,
  let st := prun (repaired_pcfg ports v6) (pinit (repaired_pcfg ports v6)) evs in
  Forall (fun s => p_live s = false) (pp_sess st) ->
  forall p, occ p (ports_of (pp_pool st)) = occ p ports.
Proof.
  intros ports v6 evs.
  exact (quiescent_pool_fixed (repaired_pcfg ports v6) evs (repaired_pcfg_ok ports v6) C11_hierarchy_obligation eq_refl eq_refl).
Qed.
Print Assumptions C11_quiescent_pool_repaired.

(* the three refuting histories lose nothing on the repaired shape *)
Example C11_repaired_on_witnesses :
  let lostof ports evs := let v6 := false in (pp_lost (prun (repaired_pcfg ports v6) (pinit (repaired_pcfg ports v6)) evs),
                           pp_orphans (prun (repaired_pcfg ports v6) (pinit (repaired_pcfg ports v6)) evs),
                           ports_of (pp_pool (prun (repaired_pcfg ports v6) (pinit (repaired_pcfg ports v6)) evs))) in
  lostof [30001; 30002] [PConnect; Pasv 0 false; End_ 0] = ([], [], [30001; 30002])
  /\ lostof [30001; 30002] [PConnect; Pasv 0 false; Resume 0 0 BindOk; End_ 0] = ([], [], [30001; 30002])
  /\ lostof [30001; 30002; 30003]
       [PConnect; Pasv 0 false; Pasv 0 false; Resume 0 0 BindOk; Resume 0 1 BindOk; Resume 0 0 BindOk; Resume 0 0 BindOk; End_ 0]
     = ([], [], [30001; 30002; 30003]).
Proof. vm_compute. auto. Qed.

(* IPv6 listener (v6 = true; every theorem above quantifies over it): legacy PASV opens and stores the listener and
   only then finds no AF_INET socket: 503, the session ends, the dispatcher's finally returns the port (quiet
   history: covered by C11_pool_conserved_partial); EPSV on the same server is served (229) *)
Example C11_ipv6_legacy_pasv :
  let cfg := gen_pcfg [30001; 30002] true in
  let evs := [PConnect; Pasv 0 true; Resume 0 0 BindOk; Resume 0 0 BindOk;
              PConnect; Pasv 1 false; Resume 1 0 BindOk; Resume 1 0 BindOk; Pasv 1 true] in
  quiet_run cfg (pinit cfg) evs = true
  /\ map fst (ptrace cfg (pinit cfg) evs)
     = [[]; []; []; [(0%nat, 503)]; []; []; []; [(1%nat, 227)]; [(1%nat, 503)]]
  /\ pp_pool (prun cfg (pinit cfg) evs) = [(0, 30001); (0, 30002)]
  /\ Forall (fun s => p_live s = false) (pp_sess (prun cfg (pinit cfg) evs)).
Proof. vm_compute. repeat split; repeat constructor. Qed.

(* non-vacuity: a quiet history with a busy port, a refused session (421), an OSError and an
   orderly end, on which the hypotheses of the partial theorem hold *)
Example C11_nonvacuous :
  let evs := [PConnect; Pasv 0 false; Resume 0 0 AddrInUse; Resume 0 0 BindOk; Resume 0 0 BindOk; Pasv 0 false;
              PConnect; Pasv 1 false; Resume 1 0 AddrInUse; PConnect; Pasv 2 false; Resume 2 0 OtherOSError;
              Work 0; End_ 0; CloseAll] in
  quiet_run (gen_pcfg [30001; 30002] false) (pinit (gen_pcfg [30001; 30002] false)) evs = true
  /\ map fst (ptrace (gen_pcfg [30001; 30002] false) (pinit (gen_pcfg [30001; 30002] false)) evs)
     = [[]; []; []; []; [(0%nat, 227)]; [(0%nat, 227)]; []; []; [(1%nat, 421)]; []; []; []; []; []; []]
  /\ pp_pool (reachp [30001; 30002] false evs) = [(0, 30002); (4, 30001)].
Proof. vm_compute. auto. Qed.
