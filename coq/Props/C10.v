(* C10 — Connection limits are exact and slots are always returned.
   Property statements only; proofs live in Proofs/Counters.v.

   The model (Model/Counters.v) runs any number of concurrent sessions under an arbitrary
   interleaving of events (Connect, the greeting task running, USER, PASS, QUIT, peer drop,
   idle timeout, handler error, server close, the logout task running).  It is parametric in the
   dispatcher's finally block; here it is instantiated with the block extracted from today's
   server.py (Gen.Dispatch) and the closed obligations on it are discharged by vm_compute. *)
From Coq Require Import ZArith List Bool String Lia.
From Verif Require Import Lib.Sx Lib.Facts Model.Counters Proofs.Counters.
From Verif Require Gen.Dispatch Gen.UserMgr.
Import ListNotations.
Open Scope Z_scope.

(* ---- closed obligations on the regenerated facts *)
Lemma C10_translator_ok : Gen.Dispatch.translator_ok && Gen.UserMgr.translator_ok = true.
Proof. vm_compute. reflexivity. Qed.

(* finally: `if connection.acquired: release` and `if user.done(): notify_logout`, each exactly
   once, neither under `if not loop.is_closed()` *)
Lemma C10_finally_obligation : check_finally (d_finally Gen.Dispatch.dispatcher) = true.
Proof. vm_compute. reflexivity. Qed.

(* no suspension point inside greeting(), user(), MemoryUserManager.*, AvailableConnections.* *)
Lemma C10_atomicity_obligation :
  check_atomic Gen.UserMgr.usermgr_methods Gen.UserMgr.counter_methods Gen.Dispatch.handlers = true.
Proof. vm_compute. reflexivity. Qed.

(* nobody but greeting touches `acquired`/the server counter, nobody but user the `user` key /
   get_user / notify_logout; greeting is an initial task, not a command *)
Lemma C10_frame_obligation : check_frame Gen.Dispatch.dispatcher Gen.Dispatch.handlers = true.
Proof. vm_compute. reflexivity. Qed.

(* the configuration of today's source: any limits, any users, either value of `loop.is_closed()` *)
Definition gen_cfg (limit : option Z) (users : list user) (loop_open : bool) : config :=
  {| cfg_limit := limit; cfg_users := users;
     cfg_fin := d_finally Gen.Dispatch.dispatcher;
     cfg_loop_open := loop_open;
     cfg_atomic := check_atomic Gen.UserMgr.usermgr_methods Gen.UserMgr.counter_methods
                                Gen.Dispatch.handlers |}.

Definition limits_ok (limit : option Z) (users : list user) : Prop :=
  limit_ok limit /\ Forall (fun u => limit_ok (u_limit u)) users.   (* None, or n >= 0 *)

Lemma gen_cfg_ok : forall limit users lo, limits_ok limit users -> cfg_ok (gen_cfg limit users lo).
Proof.
  intros limit users lo [H1 H2]. constructor; cbn; try assumption.
  - exact C10_finally_obligation.
  - exact C10_atomicity_obligation.
Qed.

Section WithConfig.
Variables (limit : option Z) (users : list user) (lo : bool).
Hypothesis Hlim : limits_ok limit users.
Let cfg := gen_cfg limit users lo.

(* value = max - |{live sessions with acquired}|, and that number never exceeds the limit *)
Theorem C10_srv_conservation : forall evs,
  let st := reach cfg evs in
  match limit with
  | Some m => c_value (st_srv st) = Some (m - admitted st) /\ 0 <= admitted st <= m
  | None => c_value (st_srv st) = None
  end.
Proof. intros evs. exact (srv_conservation cfg evs (gen_cfg_ok _ _ _ Hlim)). Qed.

(* per user: value_u = max_u - |{sessions attached to u}| (a session whose logout task has not
   run yet still counts), never above the user's limit *)
Theorem C10_user_conservation : forall evs u usr,
  nth_error users u = Some usr ->
  let st := reach cfg evs in
  exists c, nth_error (st_ucs st) u = Some c /\
  match u_limit usr with
  | Some m => c_value c = Some (m - attached u st) /\ 0 <= attached u st <= m
  | None => c_value c = None
  end.
Proof. intros evs u usr Hu. exact (user_conservation cfg evs u usr (gen_cfg_ok _ _ _ Hlim) Hu). Qed.

(* 421 is answered exactly when `limit` sessions are admitted, and leaves every counter as it was *)
Theorem C10_refusal_421_not_counted : forall evs e j,
  let st := reach cfg evs in
  let st' := fst (step cfg st e) in
  In (j, 421) (snd (step cfg st e)) ->
  st_srv st' = st_srv st /\ st_ucs st' = st_ucs st /\ admitted st' = admitted st
  /\ limit = Some (admitted st).
Proof. intros evs e j. exact (refusal_421_not_counted cfg evs e j (gen_cfg_ok _ _ _ Hlim)). Qed.

Theorem C10_admission_exact : forall evs j s,
  let st := reach cfg evs in
  live_sess st j = Some s -> s_greeted s = false ->
  snd (step cfg st (Greeting j))
  = [(j, if match limit with Some m => admitted st =? m | None => false end then 421 else 220)].
Proof. intros evs j s. exact (admission_exact cfg evs j s (gen_cfg_ok _ _ _ Hlim)). Qed.

(* 530 (unknown user, user at its limit, wrong password) takes no slot; after a refused USER the
   session is attached to nobody and only its previous user's slot went back (once) *)
Theorem C10_refusal_530_not_counted : forall evs e j,
  let st := reach cfg evs in
  let st' := fst (step cfg st e) in
  In (j, 530) (snd (step cfg st e)) ->
  st_srv st' = st_srv st /\
  match e with
  | User _ _ => exists s, live_sess st j = Some s
       /\ st_ucs st' = st_ucs (fst (user_begin s st))
       /\ forall u, attached u st' = attached u st - b2z (held_user u s)
  | _ => st' = st
  end.
Proof. intros evs e j. exact (refusal_530_not_counted cfg evs e j (gen_cfg_ok _ _ _ Hlim)). Qed.

(* no acquire()/release() ever raises: no slot is returned twice, none is taken beyond the limit *)
Theorem C10_accounting_never_fails : forall evs, st_errs (reach cfg evs) = 0.
Proof. intros evs. exact (accounting_never_fails cfg evs (gen_cfg_ok _ _ _ Hlim)). Qed.

(* when every session is gone (its logout task included) all counters are back at their maxima *)
Theorem C10_quiescent_full : forall evs,
  let st := reach cfg evs in
  all_gone st ->
  c_value (st_srv st) = limit /\ map c_value (st_ucs st) = map u_limit users.
Proof. intros evs. exact (quiescent_full cfg evs (gen_cfg_ok _ _ _ Hlim)). Qed.

Theorem C10_limits_respected : forall evs,
  let st := reach cfg evs in
  (forall m, limit = Some m -> admitted st <= m)
  /\ (forall u usr m, nth_error users u = Some usr -> u_limit usr = Some m -> attached u st <= m).
Proof. intros evs. exact (limits_respected cfg evs (gen_cfg_ok _ _ _ Hlim)). Qed.

End WithConfig.

Print Assumptions C10_srv_conservation.
Print Assumptions C10_user_conservation.
Print Assumptions C10_refusal_421_not_counted.
Print Assumptions C10_admission_exact.
Print Assumptions C10_refusal_530_not_counted.
Print Assumptions C10_accounting_never_fails.
Print Assumptions C10_quiescent_full.
Print Assumptions C10_limits_respected.

(* limit 0: everybody is refused *)
Theorem C10_limit_zero_admits_nobody : forall users lo evs,
  limits_ok (Some 0) users -> admitted (reach (gen_cfg (Some 0) users lo) evs) = 0.
Proof.
  intros users lo evs H. exact (limit_zero_admits_nobody _ evs (gen_cfg_ok _ _ _ H) eq_refl).
Qed.
Print Assumptions C10_limit_zero_admits_nobody.

(* ---- the Gen facts are load-bearing *)
Definition alice : user := {| u_login := Some [97]; u_password := Some [112]; u_limit := Some 1 |}.

(* with the release NOT guarded by `connection.acquired` a refused (421) session gives back a slot
   it never took; the next regular release raises ValueError("Too many releases") *)
Theorem C10_finally_guard_needed :
  exists evs,
    0 < st_errs (reach {| cfg_limit := Some 1; cfg_users := [alice];
                          cfg_fin := ["=>release:server_slot"; "has:user=>notify_logout"]%string;
                          cfg_loop_open := true; cfg_atomic := true |} evs).
Proof. exists [Connect; Greeting 0; Connect; Greeting 1; Drop 0]. vm_compute. reflexivity. Qed.

(* without notify_logout in the finally block the user's slot leaks: everybody gone, counter 0 of 1 *)
Theorem C10_finally_logout_needed :
  exists evs,
    let st := reach {| cfg_limit := Some 1; cfg_users := [alice];
                       cfg_fin := ["acquired=>release:server_slot"]%string;
                       cfg_loop_open := true; cfg_atomic := true |} evs in
    Forall (fun s => s_phase s = Dead) (st_sess st) /\ map c_value (st_ucs st) = [Some 0].
Proof.
  exists [Connect; Greeting 0; User 0 [97]; Drop 0]. vm_compute. split; [repeat constructor|reflexivity].
Qed.

(* if user() could be suspended between notify_logout(old) and `del connection.user`, a
   disconnect in that window returns the old user's slot twice *)
Theorem C10_atomicity_needed :
  exists evs,
    0 < st_errs (reach {| cfg_limit := Some 1; cfg_users := [alice];
                          cfg_fin := d_finally Gen.Dispatch.dispatcher;
                          cfg_loop_open := true; cfg_atomic := false |} evs).
Proof.
  exists [Connect; Greeting 0; User 0 [97]; UserBegin 0; Drop 0; LogoutRuns 0]. vm_compute. reflexivity.
Qed.

(* ---- finding F24 (known_findings.json; harness key c10-quit-burst-reply-queued-behind-failed-write)
   The theorems above quantify over event lists in which every session end IS an event: `Quit i` stands for "QUIT
   was dispatched AND the dispatcher left `await response_queue.join()` and ran its finally block".  On the current
   source that second half fails for a pipelined burst that contains QUIT (anywhere in it) when the control connection
   is lost while at least one reply is queued BEHIND the first reply that cannot be written - a reply queued before
   QUIT's ('NOOP NOOP QUIT', an earlier write failing) or after it ('QUIT NOOP', the write of the 221 itself failing):
   response_writer dies at the first reply it cannot write, nobody acknowledges the replies behind it, join() never
   returns.  The history the implementation really performs is then the one WITHOUT the `Quit i` event: the commands
   before QUIT, possibly some of those pipelined after it (their handlers were started before QUIT's result was
   looked at), and no later event of session i until ServerClose.  The full statement "after every peer is gone the
   whole limit is available again" is refuted by that history: the peer of session 0 is gone, yet session 0 is not
   Dead, the server counter stays at 0 of 1 and the next client is told 421.  (Witnesses on the real code:
   evidence/replay/C10-witness-F24-*.json; the theorems above are the carved part: they hold for every history in
   which each dispatched QUIT / refused greeting is followed by its end event, which the harness checks per history.
   Nothing queued behind the failing reply - QUIT alone, the last reply of a burst, the greeting - is fine.) *)
Theorem C10_every_end_reaches_finally_refuted_F24 :
  let c := gen_cfg (Some 1) [alice] true in
  let st := reach c [Connect; Greeting 0; User 0 [97]; Other 0 (* NOOP; QUIT dispatched: no event follows *)] in
  ~ all_gone st
  /\ c_value (st_srv st) = Some 0
  /\ map fst (trace c st [Connect; Greeting 1]) = [[]; [(1%nat, 421)]].
Proof.
  cbv zeta. split; [|split].
  - intro Hgone. unfold all_gone in Hgone. vm_compute in Hgone.
    inversion Hgone as [|s0 rest Hdead Hrest]. discriminate Hdead.
  - vm_compute. reflexivity.
  - vm_compute. reflexivity.
Qed.
Print Assumptions C10_every_end_reaches_finally_refuted_F24.

(* non-vacuity: a configuration satisfying the hypotheses, a history that reaches a 421 and a 530,
   and re-USER as the same user at its limit succeeding *)
Example C10_nonvacuous :
  limits_ok (Some 1) [alice] /\
  map fst (trace (gen_cfg (Some 1) [alice] true) (init (gen_cfg (Some 1) [alice] true))
         [Connect; Greeting 0; User 0 [97]; User 0 [97]; Connect; Greeting 1;
          Quit 0; LogoutRuns 0; Connect; Greeting 2; User 2 [97]; Connect; Greeting 3; Drop 2; User 2 [98]])
  = [[]; [(0%nat, 220)]; [(0%nat, 331)]; [(0%nat, 331)]; []; [(1%nat, 421)];
     [(0%nat, 221)]; []; []; [(2%nat, 220)]; [(2%nat, 331)]; []; [(3%nat, 421)]; []; []].
Proof.
  split.
  - split; [cbn; lia|]. repeat constructor; cbn; lia.
  - vm_compute. reflexivity.
Qed.
