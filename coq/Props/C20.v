(* C20 — Passwords never reach the logs.
   Property statements only; proofs live in Proofs/LogCensor.v (model), Proofs/LogCheck.v
   (checker over the logging-site inventory + soundness) and Proofs/LogInst.v (instantiation
   with the facts regenerated from /repo/src/aioftp on every run, Gen/Logging.v).

   Secrecy is stated as non-interference: two login attempts that differ only in the password
   produce equal log records; the only thing a record is allowed to depend on is the
   password's length (after Python's rstrip on the server, which strips the line before
   parsing it) and the login OUTCOME (which reply the server sends).

   Domain (see docs/notes/C20.md): the PASS command is V ++ " " ++ p with lower(V) = "pass"
   (the server's own notion of the verb: text before the first space); p arbitrary for the
   per-line and client theorems, LF-free for the stream-level theorem (an LF ends the
   command: what follows is a different command, cf. lf_in_password_out_of_domain). *)
From Coq Require Import ZArith List Bool.
From Verif Require Import Lib.Sx Lib.PyStr Lib.PyStr4 Lib.LogFacts Model.Framing Proofs.Framing
     Model.LogCensor Proofs.LogCensor Proofs.LogCheck Proofs.LogInst Gen.Logging.
Import ListNotations.
Open Scope Z_scope.

(* ---------------------------------------------------------------- closed obligations on today's source *)
(* every logging call site of server.py, client.py, common.py, pathio.py is fed only from
   {literal, address, len, stars, censored prefix, reply line, verb, guarded rest, guarded client
   command, path, traceback (dispatcher only, literal message)} *)
Theorem C20_check_log_sites : check_log_sites Gen.Logging.sites = true.
Proof. exact log_sites_ok. Qed.
Print Assumptions C20_check_log_sites.

(* the sites of parse_command / write_line / command / parse_line are exactly the modelled ones *)
Theorem C20_modelled_sites_match : modelled_sites_match Gen.Logging.sites = true.
Proof. exact modelled_sites_ok. Qed.
Print Assumptions C20_modelled_sites_match.

(* "pass" is in the censor tuple, it guards the log, nobody overrides it, the PASS handler's
   replies are literals, its argument flows only to authenticate, Client.login censors from
   exactly len("PASS "), no exception is built from a password-bearing value *)
Theorem C20_pass_facts :
  check_pass_facts translator_ok_logging server_censor_commands server_censor_guard_count
    parse_command_called_with_default parse_command_returns_lowered_verb pass_replies_literal
    pass_rest_sinks pass_decorator_rest_sinks dispatcher_rest_sinks
    dispatcher_lookup_by_parsed_verb unknown_verb_reply_names
    login_pass_prefix login_pass_censor_after login_forwards_censor_after
    client_password_uses secret_raise_sites = true.
Proof. exact pass_facts_ok. Qed.
Print Assumptions C20_pass_facts.

(* no logging call anywhere is handed an object of a class whose __repr__/__str__ prints the password it was
   configured with (Gen.Logging.secret_repr_classes, today ["User"]): such objects are found by USE (an expression
   read as E.<field of that class> in the enclosing function), the taint pass treats them as a password source *)
Theorem C20_no_secret_object_logged : Gen.Logging.secret_object_log_args = [].
Proof. exact secret_objects_ok. Qed.
Print Assumptions C20_no_secret_object_logged.

(* which handler a line REACHES vs. what the censor decided.  The dispatcher looks the handler up by the verb
   parse_command returned and by nothing else (dispatcher_lookup_by_parsed_verb, parse_command_returns_lowered_verb in
   C20_pass_facts), commands_mapping is a literal dict assigned once, and every key bound to the PASS handler
   (Gen.Logging.pass_handler_verbs, today ["pass"]; an alias entry would be listed) is in parse_command's censor tuple. *)
Theorem C20_pass_handler_verbs_censored :
  commands_mapping_literal
  && forallb (fun v => text_in v server_censor_commands) pass_handler_verbs
  && text_in VERB_PASS pass_handler_verbs = true.
Proof. exact pass_handler_verbs_censored. Qed.
Print Assumptions C20_pass_handler_verbs_censored.

(* Hence: for EVERY line -- no assumption on its shape, separator, ending or spelling -- whose dispatch key
   lower(text before the first space of the rstripped line) is bound to the PASS handler, the record parse_command logs
   is the same as for any other line with the same verb and a rest of the same length: judged by the handler the line
   reaches, not by how the verb is spelt. *)
Theorem C20_line_reaching_pass_handler_is_censored : forall l1 l2,
  In (lower (fst (split_command l1))) pass_handler_verbs ->
  fst (split_command l1) = fst (split_command l2) ->
  length (snd (split_command l1)) = length (snd (split_command l2)) ->
  server_parse_command_log server_censor_commands l1 = server_parse_command_log server_censor_commands l2.
Proof. exact inst_line_reaching_pass_handler_is_censored. Qed.
Print Assumptions C20_line_reaching_pass_handler_is_censored.

(* non-vacuity: "PaSs  a b \r\n" reaches the PASS handler *)
Example C20_reaching_example :
  In (lower (fst (split_command [80;97;83;115;32;32;97;32;98;32;13;10]))) pass_handler_verbs.
Proof. vm_compute. left. reflexivity. Qed.

(* ---------------------------------------------------------------- server *)
(* For every spelling V the server dispatches as PASS, all arguments p1 p2 (spaces, leading or
   trailing blanks, non-ASCII, '%', anything) of equal length after rstrip, any line ending w made
   of whitespace ("\r\n", "\n", "  \r\n", ""): the record logged by parse_command is the same. *)
Theorem C20_server_log_hides_password : forall V p1 p2 w,
  lower V = VERB_PASS -> allspace w ->
  length (rstrip p1) = length (rstrip p2) ->
  server_parse_command_log server_censor_commands (V ++ SP :: p1 ++ w)
  = server_parse_command_log server_censor_commands (V ++ SP :: p2 ++ w).
Proof. exact inst_server_log_hides_password. Qed.
Print Assumptions C20_server_log_hides_password.

(* '%'-directives are harmless: the record's format is the literal "%s %s", its arguments are
   the verb and len(rstrip p) stars -- no character of p reaches the formatter *)
Theorem C20_censored_args_are_stars : forall V p w,
  lower V = VERB_PASS -> allspace w ->
  let r := server_parse_command_log server_censor_commands (V ++ SP :: p ++ w) in
  lr_msg r = fmt_server_cmd /\
  lr_args r = [V; stars (length (rstrip p))] /\
  lr_message r = V ++ SP :: stars (length (rstrip p)).
Proof. exact inst_censored_args_are_stars. Qed.
Print Assumptions C20_censored_args_are_stars.

(* the verbs in question are exactly the 16 ASCII case mixes: no non-ASCII character lowers
   into "pass" (interpreter's own lower() table, Gen/Unicode.v) *)
Theorem C20_pass_spellings : forall V,
  lower V = VERB_PASS <->
  exists a b c d, V = [a; b; c; d] /\ (a = 112 \/ a = 80) /\ (b = 97 \/ b = 65)
                  /\ (c = 115 \/ c = 83) /\ (d = 115 \/ d = 83).
Proof. exact pass_spellings. Qed.
Print Assumptions C20_pass_spellings.

(* the complement: a verb whose lower() is neither "pass" nor "user" is not a login attempt for the
   server -- state untouched, 502, logged as the unknown command it is -- whatever casefold / upper /
   compatibility normalisation would make of it (the dispatch key is cmd.lower(): C20_pass_facts) *)
Theorem C20_other_verbs_are_not_logins : forall censor T users st V p w,
  nospace V -> allspace w -> lower V <> VERB_PASS -> lower V <> VERB_USER ->
  server_step censor T users st (V ++ SP :: p ++ w)
  = (st, [server_parse_command_log censor (V ++ SP :: p ++ w);
          reply_log (reply_line (unknown_verb_reply (lower V)))]).
Proof. exact other_verbs_are_not_logins. Qed.
Print Assumptions C20_other_verbs_are_not_logins.

Example C20_sharp_s_is_not_pass :
  lower [80; 65; 223] <> VERB_PASS /\ lower [112; 97; 383; 115] <> VERB_PASS.
Proof. exact sharp_s_is_not_pass. Qed.

(* stream level: what readline() + parse_command log for "V p\r\n" followed by any stream k *)
Theorem C20_server_stream_hides_password : forall V p1 p2 k,
  lower V = VERB_PASS -> lf_free p1 -> lf_free p2 ->
  length (rstrip p1) = length (rstrip p2) ->
  server_stream_log server_censor_commands ((V ++ SP :: p1) ++ eol ++ k)
  = server_stream_log server_censor_commands ((V ++ SP :: p2) ++ eol ++ k).
Proof. exact inst_server_stream_hides_password. Qed.
Print Assumptions C20_server_stream_hides_password.

(* outcome independence: the reply to PASS is one of four fixed texts ... *)
Theorem C20_pass_reply_fixed : forall T st rest,
  exists r, snd (handle_pass T st rest) = [r] /\
            In r [t_nouser T; t_already T; t_ok T; t_wrong T].
Proof. exact pass_reply_fixed. Qed.
Print Assumptions C20_pass_reply_fixed.

(* ... selected by the session state and the boolean result of authenticate only: accepted,
   rejected and out-of-sequence PASS commands answer (and hence log, on both sides) the same
   lines whatever the argument's characters *)
Theorem C20_outcome_independent : forall T st p1 p2,
  auth_result st p1 = auth_result st p2 ->
  handle_pass T st p1 = handle_pass T st p2.
Proof. exact outcome_independent. Qed.
Print Assumptions C20_outcome_independent.

Theorem C20_out_of_sequence_ignores_argument : forall T st p1 p2,
  s_user st = None \/ s_logged st = true ->
  handle_pass T st p1 = handle_pass T st p2.
Proof. exact out_of_sequence_ignores_argument. Qed.
Print Assumptions C20_out_of_sequence_ignores_argument.

(* all records of logger aioftp.server for a whole control connection (connection records,
   greeting, every command echo, every reply line), for any session prefix `pre` (USER attempts,
   earlier PASS attempts, unknown verbs) and suffix `post` *)
Theorem C20_server_session_hides_password : forall T users host port pre post V p1 p2 w,
  lower V = VERB_PASS -> allspace w ->
  length (rstrip p1) = length (rstrip p2) ->
  auth_result (state_after server_censor_commands T users init_state pre) (rstrip p1)
  = auth_result (state_after server_censor_commands T users init_state pre) (rstrip p2) ->
  server_session server_censor_commands T users host port (pre ++ (V ++ SP :: p1 ++ w) :: post)
  = server_session server_censor_commands T users host port (pre ++ (V ++ SP :: p2 ++ w) :: post).
Proof. exact inst_server_session_hides_password. Qed.
Print Assumptions C20_server_session_hides_password.

(* ---------------------------------------------------------------- client *)
(* Client.login's PASS command: the record is "%s%s" % ("PASS ", stars) for EVERY password string
   (no CR/LF restriction on this side) *)
Theorem C20_client_log_hides_password : forall p1 p2,
  length p1 = length p2 ->
  client_login_pass_log login_pass_prefix login_pass_censor_after p1
  = client_login_pass_log login_pass_prefix login_pass_censor_after p2.
Proof. exact inst_client_log_hides_password. Qed.
Print Assumptions C20_client_log_hides_password.

Theorem C20_client_censored_args_are_stars : forall p,
  let r := client_login_pass_log login_pass_prefix login_pass_censor_after p in
  lr_msg r = fmt_client_cmd /\ lr_args r = [login_pass_prefix; stars (length p)] /\
  lr_message r = login_pass_prefix ++ stars (length p).
Proof. exact inst_client_censored_args_are_stars. Qed.
Print Assumptions C20_client_censored_args_are_stars.

(* all records of logger aioftp.client during login(), whatever reply lines arrive *)
Theorem C20_client_login_records_hide_password : forall prefix k user p1 p2 account replies,
  prefix <> [] -> k = Z.of_nat (length prefix) -> length p1 = length p2 ->
  client_login_records prefix k user p1 account replies
  = client_login_records prefix k user p2 account replies.
Proof. exact client_login_records_hide_password. Qed.
Print Assumptions C20_client_login_records_hide_password.

(* Client.login as the PROGRAM regenerated from client.py (Gen.Logging.login_program: the USER
   command, `while code.matches("33x")`, censor_after as the loop-carried variable it is in Python
   with its reset at the top of every iteration, one branch per reply code) run against EVERY
   server: `lines` is whatever the peer sends, line by line -- any reply codes in any order (230,
   331, 332 any number of times and in any interleaving, 530, 4xx, 33x other than 331/332), multi-line
   replies and free continuation lines (parse_response of Model/Framing.v), garbage, early EOF.
   The records of logger aioftp.client are equal for two passwords of equal length; user name and
   account are arbitrary (and are logged in clear: the property is about the password). *)
Theorem C20_client_login_hides_password_any_server : forall user p1 p2 account lines,
  length p1 = length p2 ->
  client_login_run login_program user p1 account lines
  = client_login_run login_program user p2 account lines.
Proof. exact inst_client_login_hides_password. Qed.
Print Assumptions C20_client_login_hides_password_any_server.

(* the same for every login program (not only today's) that satisfies the computable condition
   login_prog_ok: each password-bearing branch binds censor_after, in that branch, to the length
   of its own non-empty literal prefix, and the command sent before the loop carries no password *)
Theorem C20_login_program_condition_suffices : forall P user p1 p2 account lines,
  login_prog_ok P = true -> length p1 = length p2 ->
  client_login_run P user p1 account lines = client_login_run P user p2 account lines.
Proof. exact client_login_run_hides_password. Qed.
Print Assumptions C20_login_program_condition_suffices.

(* closed obligation on today's source: login() has the translated shape and satisfies the condition *)
Theorem C20_login_program_ok : login_program_translated && login_prog_ok login_program = true.
Proof. exact login_program_ok. Qed.
Print Assumptions C20_login_program_ok.

(* the condition is not vacuous: a login whose censor_after is bound once before the loop and
   carried through the iterations (no reset, no binding in the PASS branch) fails it and does log
   the password when USER is answered 332 and ACCT 331 *)
Theorem C20_carried_censor_leaks :
  login_prog_ok carried_censor_prog = false /\
  exists p1 p2 lines, length p1 = length p2 /\
    client_login_run carried_censor_prog [117] p1 [97] lines
    <> client_login_run carried_censor_prog [117] p2 [97] lines.
Proof. exact carried_censor_leaks. Qed.
Print Assumptions C20_carried_censor_leaks.

(* ---------------------------------------------------------------- both loggers, one login *)
Theorem C20_login_session_hides_password : forall censor T users V k host port user p1 p2 account,
  lower V = VERB_PASS -> In VERB_PASS censor ->
  k = Z.of_nat (length (V ++ [SP])) ->
  length p1 = length p2 -> length (rstrip p1) = length (rstrip p2) ->
  (let st1 := fst (server_step censor T users init_state ((CMD_USER_ ++ user) ++ eol)) in
   auth_result st1 (rstrip p1) = auth_result st1 (rstrip p2)) ->
  login_session censor T users (V ++ [SP]) k host port user p1 account
  = login_session censor T users (V ++ [SP]) k host port user p2 account.
Proof. exact login_session_hides_password. Qed.
Print Assumptions C20_login_session_hides_password.

(* ---------------------------------------------------------------- checker soundness *)
(* whatever site of today's inventory were executed in parse_command's scope while a PASS line is
   handled, the record it emits does not depend on the password (beyond the rstripped length);
   together with C20_modelled_sites_match + model_matches_server_sites this ties the whitelist
   to the model *)
Theorem C20_every_site_hides_server : forall fmt s V p1 p2 w,
  In s Gen.Logging.sites ->
  lower V = VERB_PASS -> allspace w -> length (rstrip p1) = length (rstrip p2) ->
  fire (den_server server_censor_commands (V ++ SP :: p1 ++ w)) fmt s
  = fire (den_server server_censor_commands (V ++ SP :: p2 ++ w)) fmt s.
Proof. exact inst_every_site_hides_server. Qed.
Print Assumptions C20_every_site_hides_server.

Theorem C20_every_site_hides_client : forall fmt s p1 p2,
  In s Gen.Logging.sites -> length p1 = length p2 ->
  fire (den_client (login_pass_prefix ++ p1) login_pass_censor_after) fmt s
  = fire (den_client (login_pass_prefix ++ p2) login_pass_censor_after) fmt s.
Proof. exact inst_every_site_hides_client. Qed.
Print Assumptions C20_every_site_hides_client.

(* the model's records ARE what the inventoried sites denote *)
Theorem C20_model_matches_server_sites : forall censor line,
  (text_in (lower (fst (split_command line))) censor = true ->
     fire (den_server censor line) fmt_server_cmd server_site_censored
       = Some (server_parse_command_log censor line)
     /\ fire (den_server censor line) fmt_server_cmd server_site_plain = None)
  /\ (text_in (lower (fst (split_command line))) censor = false ->
     fire (den_server censor line) fmt_server_cmd server_site_plain
       = Some (server_parse_command_log censor line)).
Proof. exact model_matches_server_sites. Qed.
Print Assumptions C20_model_matches_server_sites.

Theorem C20_model_matches_client_sites : forall command k,
  (truthy k = true ->
     fire (den_client command k) fmt_client_cmd client_site_censored = Some (client_command_log command k)
     /\ fire (den_client command k) fmt_client_cmd client_site_plain = None)
  /\ (truthy k = false ->
     fire (den_client command k) fmt_client_cmd client_site_plain = Some (client_command_log command k)).
Proof. exact model_matches_client_sites. Qed.
Print Assumptions C20_model_matches_client_sites.

(* ---------------------------------------------------------------- non-vacuity *)
(* "PaSs" is a PASS spelling; two different 7-character arguments with leading blanks, a '%s'
   and a trailing blank; accepted vs. rejected differ only in the reply line *)
Example C20_nonvacuous_spelling : lower [80; 97; 83; 115] = VERB_PASS.
Proof. vm_compute. reflexivity. Qed.

Example C20_nonvacuous_server :
  let V := [80; 97; 83; 115] in
  let p1 := [32; 32; 37; 115; 233; 120; 32] in      (* "  %s" ++ e-acute ++ "x " *)
  let p2 := [32; 42; 42; 42; 42; 121; 9] in         (* " ****y<TAB>" *)
  length (rstrip p1) = length (rstrip p2) /\ p1 <> p2 /\
  map lr_message
      (server_session server_censor_commands default_texts [(Some [117], Some [32; 32; 37; 115; 233; 120])]
                      [104] [49] [[85; 83; 69; 82; 32; 117; 13; 10]; V ++ SP :: p1 ++ eol])
  = [ [110; 101; 119; 32; 99; 111; 110; 110; 101; 99; 116; 105; 111; 110; 32; 102; 114; 111; 109; 32; 104; 58; 49];
      [50; 50; 48; 32; 119; 101; 108; 99; 111; 109; 101];
      [85; 83; 69; 82; 32; 117];
      [51; 51; 49; 32; 112; 97; 115; 115; 119; 111; 114; 100; 32; 114; 101; 113; 117; 105; 114; 101; 100];
      [80; 97; 83; 115; 32; 42; 42; 42; 42; 42; 42];
      [50; 51; 48; 32; 110; 111; 114; 109; 97; 108; 32; 108; 111; 103; 105; 110];
      [99; 108; 111; 115; 105; 110; 103; 32; 99; 111; 110; 110; 101; 99; 116; 105; 111; 110; 32; 102; 114; 111; 109; 32; 104; 58; 49] ].
Proof. vm_compute. repeat split. congruence. Qed.

(* USER -> 332, ACCT -> 331, PASS -> 230-/230 (two-line reply): the computed client transcript *)
Example C20_nonvacuous_acct_then_pass :
  map lr_message
      (client_login_run login_program [117] [37; 115; 32; 233] [97; 99]
         [[51; 51; 50; 32; 97; 13; 10]; [51; 51; 49; 32; 112; 13; 10];
          [50; 51; 48; 45; 104; 105; 13; 10]; [50; 51; 48; 32; 111; 107; 13; 10]])
  = [ [85; 83; 69; 82; 32; 117]; [51; 51; 50; 32; 97];
      [65; 67; 67; 84; 32; 97; 99]; [51; 51; 49; 32; 112];
      [80; 65; 83; 83; 32; 42; 42; 42; 42]; [50; 51; 48; 45; 104; 105]; [50; 51; 48; 32; 111; 107] ].
Proof. vm_compute. reflexivity. Qed.

Example C20_nonvacuous_client :
  lr_message (client_login_pass_log login_pass_prefix login_pass_censor_after [37; 115; 32; 233])
  = [80; 65; 83; 83; 32; 42; 42; 42; 42].
Proof. vm_compute. reflexivity. Qed.
