(* C12 — a session that ends, at any point and for any reason, releases everything it held.
   Property statements only; proofs live in Proofs/Transfer.v and Proofs/TransferFixed.v.  genF = the transfer model
   instantiated with the facts regenerated from server.py (the statements of the dispatcher's finally block with
   their guards, the workers' async-with items, detach-first, decorators, listener start-up give-back). *)
From Coq Require Import ZArith List Bool String.
From Verif Require Import Lib.Sx Lib.Facts Model.Transfer Proofs.Transfer Proofs.TransferFixed Proofs.TransferGen Gen.Dispatch Gen.Workers.
Import ListNotations.
Open Scope list_scope.

(* closed obligations over today's source: every worker takes the stream out of the session first and owns it
   through an `async with` whose FIRST item is the stream (false on the former `async with file, stream`); the
   finally block, model-checked on every session configuration, cancels and awaits all tasks, closes listener /
   data / control, returns the port, releases the slots and pops the table entry.  Computes false if e.g.
   `connection.data_connection.close()` disappears, a worker stops using `async with`, or the file is entered
   before the stream again. *)
Lemma C12_translator_ok : Dispatch.translator_ok = true /\ Workers.translator_ok = true.
Proof. vm_compute. split; reflexivity. Qed.
(* the two translators agree on the workers' structure (Proofs/TransferGen.v) *)
Lemma C12_translators_agree : translators_agree = true.
Proof. exact gen_translators_agree. Qed.
Lemma C12_facts_ok : repaired12 genF = true.
Proof. vm_compute. reflexivity. Qed.

(* ledger = [control; listener; port; data in session; data in worker; file handles; tasks;
             slot; user slot; table entry] *)

(* From EVERY reachable state of a live session - any command / transfer in any stage (the back-end open included),
   any number of workers, any block count - and for every reason (QUIT, peer EOF, handler exception, idle timeout,
   server close), the finally block followed by at most |ctx|+1 steps of each cancelled worker, with no further
   input, leaves the ledger empty.  The ONE premise left (hence _partial): no listener start-up is in progress
   (startup_free: lst is neither LTaking nor LBound - finding F5, not repaired). *)
Theorem C12_end_releases_all_partial : forall st ev,
  reachable genF st -> alive (ss st) = true -> startup_free (ss st) = true -> ends ev = true ->
  ledger_empty (ledger genF (unwind genF (fst (step genF st ev)))) = true.
Proof. exact (fun st ev => end_releases_all_repaired genF st ev C12_facts_ok). Qed.
Print Assumptions C12_end_releases_all_partial.

(* the same for a session that ends because a reaped task raised (a socket timeout in a worker, ...) *)
Theorem C12_end_by_failed_task_partial : forall st,
  reachable genF st -> alive (ss st) = true -> startup_free (ss st) = true ->
  alive (ss (fst (step genF st Reap))) = false ->
  ledger_empty (ledger genF (unwind genF (fst (step genF st Reap)))) = true.
Proof. exact (fun st => reap_end_releases_repaired genF st C12_facts_ok). Qed.
Print Assumptions C12_end_by_failed_task_partial.

(* "without waiting for further input": EVERY worker of a reachable state, once cancelled, reaches a terminal
   stage within |ctx| + 1 of its own steps (no carve-out) *)
Theorem C12_unwinding_terminates : forall st w,
  reachable genF st -> In w (ws st) ->
  terminal (w_stage (fst (wrun genF (List.length (wf_ctx (wfof genF w)) + 1) (fst (cancel genF w))))) = true.
Proof. exact (fun st w => unwinding_terminates_repaired genF st w C12_facts_ok). Qed.
Print Assumptions C12_unwinding_terminates.

(* Server.close(): the main listener is closed, every session ends and unwinds, all ledgers empty *)
Theorem C12_server_close_completes : forall srv,
  Forall (fun st => reachable genF st /\ alive (ss st) = true /\ startup_free (ss st) = true) (sessions srv) ->
  server_ledger_empty genF (server_close genF srv) = true.
Proof. exact (fun srv => server_close_completes_repaired genF srv C12_facts_ok). Qed.
Print Assumptions C12_server_close_completes.

(* non-vacuity: mid-transfer states (with a non-empty ledger) satisfy the hypotheses; the third one is the former
   F4 witness: STOR parked on the back-end open (now EnteringCtx 1, the stream already inside the `async with`) *)
Example C12_partial_nonvacuous :
  forallb (fun evs => let st := at_trace evs in
                      alive (ss st) && startup_free (ss st) && negb (ledger_empty (ledger genF st))
                      && Z.ltb 0 (nth 4 (ledger genF st) 0%Z + nth 5 (ledger genF st) 0%Z))
    [ pre_data ++ [Spawn KRetr [1;2;3]%Z; WStep 0; WStep 0; WStep 0; WStep 0; WStep 0; WStep 0];
      pre_data ++ [Spawn KStor [1;2]%Z; WStep 0; WStep 0; WStep 0; WStep 0];
      pre_data ++ [Spawn KStor [1;2]%Z; WStep 0; WStep 0; WStep 0];
      pre_data ++ [Spawn KList [1]%Z; WStep 0; WStep 0; WStep 0; WStep 0];
      pre_data ++ [Spawn KRetr [1]%Z; WStep 0; WStep 0; WStep 0; WStep 0; WStep 0; WStep 0; WStep 0] ] = true.
Proof. vm_compute. reflexivity. Qed.

(* the former F4 witness, now an instance of the theorem: the session ends while STOR's back-end open is
   suspended - the stream is inside the `async with`, its exit closes it *)
Example C12_file_open_hole_closed :
  let st := at_trace (pre_data ++ [Spawn KStor [1;2]%Z; WStep 0; WStep 0; WStep 0]) in
  alive (ss st) = true /\ map w_stage (ws st) = [EnteringCtx 1]
  /\ nth 4 (ledger genF st) 0%Z = 1%Z
  /\ ledger genF (unwind genF (fst (step genF st PeerEOF))) = [0;0;0;0;0;0;0;0;0;0]%Z.
Proof. vm_compute. repeat split; reflexivity. Qed.

(* THE FULL STATEMENT (kept visible; false on today's code because of F5 only) *)
Definition end_releases_all : Prop := forall st ev,
  reachable genF st -> alive (ss st) = true -> ends ev = true ->
  ledger_empty (ledger genF (unwind genF (fst (step genF st ev)))) = true.

(* F5 (not repaired): the session ends while PASV is inside `await asyncio.start_server` : before the bind the
   port taken from the pool is never returned (slot 2); after the bind a listener owned by
   nobody stays as well (slot 1) *)
Theorem C12_end_releases_all_refuted_listener_startup :
  ledger genF (unwind genF (fst (step genF (at_trace [Greet; Login; Pasv]) PeerEOF))) = [0;0;1;0;0;0;0;0;0;0]%Z
  /\ ledger genF (unwind genF (fst (step genF (at_trace [Greet; Login; Pasv; LStep]) ServerClose))) = [0;1;1;0;0;0;0;0;0;0]%Z.
Proof. vm_compute. split; reflexivity. Qed.
Print Assumptions C12_end_releases_all_refuted_listener_startup.

(* the F5 hole is a property of ONE fact (Gen.Workers.passive_giveback): for every configuration in which the
   port is returned when the start-up is cancelled, ending the session before the bind releases everything *)
Theorem C12_startup_hole_closed_by_giveback : forall F st,
  sound12 F = true -> c_giveback F = true -> state_ok F st = true -> lst (ss st) = LTaking ->
  hole_free F {| ss := set_lst (ss st) LNone; ws := ws st |} = true ->
  ledger_empty (ledger F (unwind F (end_session F st))) = true.
Proof. exact startup_hole_closed_by_giveback. Qed.
Print Assumptions C12_startup_hole_closed_by_giveback.

(* non-vacuity: today's facts with only that fact changed satisfy the hypotheses at [Greet; Login; Pasv] *)
Definition genF_giveback : cfg :=
  {| c_retr := c_retr genF; c_stor := c_stor genF; c_list := c_list genF; c_mlsd := c_mlsd genF;
     c_cancel_codes := c_cancel_codes genF; c_abor := c_abor genF; c_task_exc := c_task_exc genF;
     c_outer_exc := c_outer_exc genF; c_fin := c_fin genF; c_giveback := true |}.
Example C12_giveback_nonvacuous :
  let st := fst (run genF_giveback (init true) [Greet; Login; Pasv]) in
  sound12 genF_giveback = true /\ state_ok genF_giveback st = true /\ lst (ss st) = LTaking
  /\ hole_free genF_giveback {| ss := set_lst (ss st) LNone; ws := ws st |} = true
  /\ ledger genF_giveback (unwind genF_giveback (end_session genF_giveback st)) = [0;0;0;0;0;0;0;0;0;0]%Z.
Proof. vm_compute. repeat split; reflexivity. Qed.

Theorem C12_end_releases_all_refuted : ~ end_releases_all.
Proof.
  intros H.
  specialize (H (at_trace [Greet; Login; Pasv]) PeerEOF).
  assert (R : reachable genF (at_trace [Greet; Login; Pasv])) by (exists true, [Greet; Login; Pasv]; reflexivity).
  specialize (H R eq_refl eq_refl). vm_compute in H. discriminate H.
Qed.
Print Assumptions C12_end_releases_all_refuted.
