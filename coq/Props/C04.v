(* C04 — Read/write permissions follow the nearest-ancestor rule on the resolved path.
   Property statements only; proofs live in Proofs/Perm.v. *)
From Coq Require Import ZArith List Bool String.
From Verif Require Import Lib.Sx Lib.PyStr Lib.PosixPath Lib.Facts Model.Paths Model.Perm Model.PermXfer Model.ResolveCheck
  Proofs.PosixPathFacts Proofs.Paths Proofs.Perm Proofs.PermXfer.
From Verif Require Gen.Dispatch Gen.Resolve.
Import ListNotations.
Open Scope list_scope.
Open Scope Z_scope.

(* User.get_permissions (filter is_parent; min by len(relative_to parts); first minimum; default
   allow-all) equals the one-pass specification `nearest` -- for ALL tables (nested, overlapping,
   duplicated, unordered, entries with relative or '//' paths) and ALL paths *)
Theorem C04_get_permissions_is_nearest : forall perms path,
  get_permissions perms path = nearest perms path.
Proof. exact get_permissions_is_nearest. Qed.
Print Assumptions C04_get_permissions_is_nearest.

(* declaratively: the result is the FIRST DEEPEST entry whose path is an ancestor-or-equal *)
Theorem C04_first_deepest : forall perms path l1 p l2,
  perms = l1 ++ p :: l2 ->
  ancestor (p_path p) path = true ->
  (forall q, In q l1 -> ancestor (p_path q) path = true -> (depth q < depth p)%nat) ->
  (forall q, In q l2 -> ancestor (p_path q) path = true -> (depth q <= depth p)%nat) ->
  get_permissions perms path = p.
Proof. exact get_permissions_first_deepest. Qed.
Print Assumptions C04_first_deepest.

(* ... and allow-all (Permission()) when no entry is an ancestor *)
Theorem C04_default : forall perms path,
  (forall q, In q perms -> ancestor (p_path q) path = false) ->
  get_permissions perms path = default_perm.
Proof. exact get_permissions_default. Qed.
Print Assumptions C04_default.

Theorem C04_selected_is_ancestor_entry : forall perms path,
  get_permissions perms path = default_perm
  \/ (In (get_permissions perms path) perms /\ ancestor (p_path (get_permissions perms path)) path = true).
Proof. exact get_permissions_sound. Qed.
Print Assumptions C04_selected_is_ancestor_entry.

(* entries with a relative or '//'-anchored path never apply to a resolved virtual path *)
Theorem C04_foreign_anchor_never_matches : forall q path,
  anchor path = 1 -> anchor (p_path q) <> 1 -> ancestor (p_path q) path = false.
Proof. exact foreign_anchor_never_matches. Qed.
Print Assumptions C04_foreign_anchor_never_matches.

(* the wrapper looks the permission up on the RESOLVED virtual path (composition with C02) *)
Theorem C04_lookup_on_resolved : forall base cwd perms flags s, abs_wf cwd ->
  authorise base cwd perms flags s
  = let cur := nearest perms (mkp 1 (normalize (parts cwd) s)) in
    Some (path_permissions flags cur, cur).
Proof. exact lookup_on_resolved. Qed.
Print Assumptions C04_lookup_on_resolved.

(* hence spelling the same location differently never changes the entry nor the decision *)
Theorem C04_alias_invariant : forall base perms flags cwd1 s1 cwd2 s2, abs_wf cwd1 -> abs_wf cwd2 ->
  normalize (parts cwd1) s1 = normalize (parts cwd2) s2 ->
  authorise base cwd1 perms flags s1 = authorise base cwd2 perms flags s2.
Proof. exact alias_invariant. Qed.
Print Assumptions C04_alias_invariant.

(* the decision: 550 exactly when the FIRST listed flag is off (the `return` inside the `for`) *)
Theorem C04_deny_iff : forall flags cur,
  path_permissions flags cur = Deny550 <-> exists f r, flags = f :: r /\ getflag cur f = false.
Proof. exact deny_iff. Qed.
Print Assumptions C04_deny_iff.

(* checker soundness, for EVERY dispatch table the checker accepts *)
Theorem C04_check_perm_table_sound : forall d hs, check_perm_table d hs = true ->
  (forall verb cur, In verb reader_verbs ->
     verb_outcome d hs verb cur = Some (if p_read cur then CallBody else Deny550))
  /\ (forall verb cur, In verb writer_verbs ->
     verb_outcome d hs verb cur = Some (if p_write cur then CallBody else Deny550)).
Proof. exact check_perm_table_sound. Qed.
Print Assumptions C04_check_perm_table_sound.

Theorem C04_one_flag_everywhere : forall d hs, check_perm_table d hs = true ->
  forall h l, In h hs -> In l (perm_decos h) -> exists f fl, l = [f] /\ flag_of_string f = Some fl.
Proof. exact one_flag_everywhere. Qed.
Print Assumptions C04_one_flag_everywhere.

(* instance obligations on TODAY's source (Gen/Dispatch.v is regenerated on every run) *)
Theorem C04_translator_ok : Gen.Dispatch.translator_ok = true.
Proof. vm_compute. reflexivity. Qed.

Theorem C04_table_checked : check_perm_table Gen.Dispatch.dispatcher Gen.Dispatch.handlers = true.
Proof. vm_compute. reflexivity. Qed.
Print Assumptions C04_table_checked.

(* the PathPermissions wrapper really has the `return` inside the `for` (first flag only) *)
Theorem C04_first_flag_only_as_modelled : Gen.Dispatch.pathperm_first_flag_only = true.
Proof. vm_compute. reflexivity. Qed.

Theorem C04_verbs_today :
  (forall verb cur, In verb reader_verbs ->
     verb_outcome Gen.Dispatch.dispatcher Gen.Dispatch.handlers verb cur
     = Some (if p_read cur then CallBody else Deny550))
  /\ (forall verb cur, In verb writer_verbs ->
     verb_outcome Gen.Dispatch.dispatcher Gen.Dispatch.handlers verb cur
     = Some (if p_write cur then CallBody else Deny550)).
Proof. exact (check_perm_table_sound _ _ C04_table_checked). Qed.
Print Assumptions C04_verbs_today.

(* ===== requests carried out later than they are authorised (LIST MLSD RETR STOR APPE) =====
   The handler answers 150 and a nested *_worker task does the work when the data connection has arrived;
   between the two the session goes on (Model/PermXfer.v: CWD, CDUP, another USER/PASS, anything else).
   For EVERY state at the request (any base, any absolute cwd, any table), EVERY sequence of commands in between
   and EVERY argument: the decision is taken on the nearest entry of normalize(cwd0, rest), and a worker that uses
   the handler's real_path hands to the backend exactly base0 ++ normalize(cwd0, rest) -- the location the
   permission was looked up for -- wherever the working directory or the login have moved meanwhile. *)
Theorem C04_transfer_target_is_authorised : forall flags st0 bs rest, abs_wf (r_cwd st0) ->
  let n := normalize (parts (r_cwd st0)) rest in
  let cur := nearest (r_perms st0) (mkp 1 n) in
  request flags st0 rest
  = Some (path_permissions flags cur, cur,
          match path_permissions flags cur with
          | CallBody => Some (mkp (anchor (r_base st0)) (parts (r_base st0) ++ n))
          | _ => None
          end)
  /\ worker_path false st0 (between_run st0 bs) rest
     = Some (mkp (anchor (r_base st0)) (parts (r_base st0) ++ n)).
Proof. exact transfer_target_is_authorised. Qed.
Print Assumptions C04_transfer_target_is_authorised.

(* the premise matters: a worker that resolves `rest` again when it starts carries an authorised
   STOR up.bin (cwd /rw) out in /ro after `CWD /ro`, where the same request is refused *)
Theorem C04_late_resolution_breaks :
  exists flags st0 bs rest p,
    abs_wf (r_cwd st0)
    /\ (exists cur, request flags st0 rest = Some (CallBody, cur, Some p))
    /\ (exists q, worker_path true st0 (between_run st0 bs) rest = Some q /\ q <> p
        /\ exists cur', request flags (between_run st0 bs) rest = Some (Deny550, cur', None)).
Proof. exact late_resolution_breaks. Qed.
Print Assumptions C04_late_resolution_breaks.

(* which of the two the source has: checker over Gen/Resolve.v, sound for every accepted source ... *)
Theorem C04_check_worker_paths_sound : forall wp hr, check_worker_paths wp hr = true ->
  forall w, In w transfer_workers -> late_of wp w = false.
Proof. exact check_worker_paths_sound. Qed.
Print Assumptions C04_check_worker_paths_sound.

(* ... and TODAY's source is accepted: in list / mlsd / retr / stor the variable real_path is bound exactly once,
   by `real_path, _ = self.get_paths(connection, rest)` on the handler's own unmodified parameters, in the
   handler's own body before the worker task is created; the worker neither binds real_path nor calls get_paths *)
Theorem C04_resolve_translator_ok : Gen.Resolve.translator_ok = true.
Proof. vm_compute. reflexivity. Qed.

Theorem C04_workers_use_authorised_path :
  check_worker_paths Gen.Resolve.worker_paths Gen.Resolve.handler_resolves = true.
Proof. vm_compute. reflexivity. Qed.
Print Assumptions C04_workers_use_authorised_path.

Theorem C04_transfer_target_today : forall w, In w transfer_workers ->
  forall st0 bs rest, abs_wf (r_cwd st0) ->
  worker_path (late_of Gen.Resolve.worker_paths w) st0 (between_run st0 bs) rest
  = Some (mkp (anchor (r_base st0)) (parts (r_base st0) ++ normalize (parts (r_cwd st0)) rest)).
Proof. exact (transfer_target_checked _ _ C04_workers_use_authorised_path). Qed.
Print Assumptions C04_transfer_target_today.

(* ===== histories on one connection: CWD/CDUP and re-logins between requests =====
   (a re-login may be completed by USER alone for a password-less or anonymous account, or by USER + PASS.)
   For EVERY starting state with an absolute cwd, EVERY history of requests, CWD/CDUP (accepted or refused), logins
   (any base, absolute home, any table) and other commands: each request is decided by the nearest entry, in the table
   of the user logged in NOW, of normalize(cwd now, argument) -- nothing looked up for an earlier login or an earlier
   working directory takes part (reqs_spec is an independent bookkeeping over (current table, stack of names)). *)
Theorem C04_requests_use_current_table : forall h, Forall sreq_ok h -> forall st, abs_wf (r_cwd st) ->
  reqs_run st h = reqs_spec (r_perms st, parts (r_cwd st)) h.
Proof. exact reqs_run_spec. Qed.
Print Assumptions C04_requests_use_current_table.

(* ... and TODAY's PathPermissions wrapper does ask the user logged in now, on every call (closed check on Gen/Resolve.v) *)
Theorem C04_lookup_asks_current_user :
  check_pathperm_lookup Gen.Resolve.pp_conn_reads Gen.Resolve.pp_conn_writes Gen.Resolve.pp_conn_other
                        Gen.Resolve.pp_lookup_direct = true.
Proof. vm_compute. reflexivity. Qed.
Print Assumptions C04_lookup_asks_current_user.

(* a rename acts on the location the RNFR named when it was handled (and checked), not on whatever the RNFR argument
   means under the working directory of the RNTO: closed check on the regenerated Gen/Dispatch.v *)
Theorem C04_rename_source_resolved_at_rnfr : rename_source_resolved_at_rnfr Gen.Dispatch.handlers = true.
Proof. vm_compute. reflexivity. Qed.
Print Assumptions C04_rename_source_resolved_at_rnfr.

(* the permission decision and the handler's own resolution of `rest` cannot be separated by a suspension (where a
   pipelined CWD could run): on TODAY's source PathPermissions is the innermost decorator of every handler that
   carries it -- the awaiting PathConditions and ConnectionConditions come before it -- and the body of every method
   that calls get_paths begins with `.. = self.get_paths(connection, rest)` (closed check, recomputed on every run) *)
Theorem C04_check_and_use_not_separated :
  check_check_use_atomic Gen.Dispatch.handlers Gen.Resolve.body_resolves_first = true.
Proof. vm_compute. reflexivity. Qed.
Print Assumptions C04_check_and_use_not_separated.

(* TODO (lead, Session model): deny_is_550_and_inert at session level -- a request for which
   verb_outcome = Deny550 queues exactly one 550 reply and leaves fs and cwd unchanged.  What is
   needed from this file: C04_verbs_today + C04_lookup_on_resolved; what is needed from Session:
   the generic decorator runner (DPathPerm precedes the body; Deny550 returns before the body). *)

(* non-vacuity *)
Definition ex_perms : list perm :=
  [ mkperm 0 (parse [47]) true false;                     (* "/"      read-only *)
    mkperm 1 (parse [47;97]) true true;                   (* "/a"     read-write *)
    mkperm 2 (parse [47;97;47;98]) false false;           (* "/a/b"   nothing *)
    mkperm 3 (parse [47;97]) false false;                 (* "/a"     duplicate, later: loses the tie *)
    mkperm 4 (parse [97]) false false ].                  (* "a"      relative: never matches *)
Example C04_ex_nested :   (* cwd /a/b, "../b/../x" = /a/x : governed by entry 1 *)
  authorise (parse [47;115]) (parse [47;97;47;98]) ex_perms [Writable] [46;46;47;98;47;46;46;47;120]
  = Some (CallBody, mkperm 1 (parse [47;97]) true true).
Proof. vm_compute. reflexivity. Qed.
Example C04_ex_deny :     (* "/a/./b//c" : entry 2 denies reading *)
  authorise (parse [47;115]) (parse [47]) ex_perms [Readable] [47;97;47;46;47;98;47;47;99]
  = Some (Deny550, mkperm 2 (parse [47;97;47;98]) false false).
Proof. vm_compute. reflexivity. Qed.
Example C04_ex_default :  (* empty table: allow-all default *)
  authorise (parse [47;115]) (parse [47]) [] [Writable] [120] = Some (CallBody, default_perm).
Proof. vm_compute. reflexivity. Qed.
