(* C05 — the command dispatcher conforms to a sequential FTP session model.
   Statements only; proofs in Proofs/SessionShape.v.  The reference model is Model/Session.v with
   [ref_table]; [gen_table] is the table REGENERATED from /repo/src/aioftp/server.py on this run.
   That the CODE behaves like the model is a relational statement about the code: it is carried by
   C05_table_is_reference (re-checked every run) and by the conformance correspondence (harness). *)
From Coq Require Import ZArith List Bool String.
From Verif Require Import Lib.Sx Lib.PyStr Lib.Facts Model.Session Gen.Dispatch.
From Verif Require Import Proofs.GenTable Proofs.RefFootprints Proofs.SessionGuard Proofs.SessionLogin Proofs.SessionShape.
Import ListNotations.
Open Scope list_scope.

(* today's source has exactly the reference decorator table (verbs, handlers, decorator stacks in
   order, delegations); the dispatcher clears the restart offset after EVERY supported verb (no verb is
   exempt) and hands the pending offset to exactly the three transfer verbs; unknown verbs are answered
   502; a False handler result ends the session; PathIOError is turned into 451 + continue and a
   cancelled (aborted) transfer task into 426, 226 + continue *)
Theorem C05_table_is_reference :
  translator_ok = true /\ table_eqb gen_table ref_table = true /\
  table_ok ref_table = true /\ login_entries_ok ref_table = true /\
  d_reset_exempt dispatcher = []%string /\
  d_offset_handed dispatcher = ["retr"; "stor"; "appe"]%string /\
  d_unknown_code dispatcher = "502"%string /\ d_false_ends dispatcher = true /\
  d_task_except dispatcher = [("errors.PathIOError", ["response:451"; "continue"]);
                              ("asyncio.CancelledError", ["response:426"; "response:226"; "continue"])]%string /\
  pathperm_first_flag_only = true /\
  (* every handler body still has the footprint (reply codes, return values, backend calls, connection
     attributes set/deleted) and every worker the shape the hand-written model was transcribed from
     (stream context entered before the file; the worker reads the handed-over offset) *)
  footprints_match = true /\ workers_match = true.
Proof. vm_compute. repeat split. Qed.
Print Assumptions C05_table_is_reference.

(* exactly one final reply per command (transfer commands: one 150 mark, then exactly one completion
   reply) and the server ends the session itself only after QUIT (221), for EVERY world with a
   well-formed login state, every verb and EVERY argument (REST arguments included: the handler's
   isascii()-and-isdigit() guard admits only strings int() accepts, rest_never_crashes) *)
Theorem C05_reply_shape : forall users w e,
  wf_sess users (w_s w) -> s_ended (w_s w) = false ->
  text_eqb (e_verb e) V_DATACONN = false ->
  shape_ok (snd (step users ref_table w e)) = true /\
  (s_ended (w_s (fst (step users ref_table w e))) = true ->
     verb_handler ref_table (e_verb e) = Some "quit"%string /\ o_codes (snd (step users ref_table w e)) = [t_of "221"]).
Proof.
  intros users. apply step_reply_shape. exact (proj1 (proj2 (proj2 C05_table_is_reference))).
Qed.
Print Assumptions C05_reply_shape.

Theorem C05_rest_never_crashes : forall arg, ~ rest_crash arg.
Proof. exact rest_never_crashes. Qed.
Print Assumptions C05_rest_never_crashes.

(* well-formedness holds in every reachable state (so the hypothesis above is not a restriction) *)
Theorem C05_wf_reachable : forall users es,
  wf_sess users (w_s (fst (run users ref_table {| w_s := init_sess; w_fs := NDir []; w_log := [] |} es))).
Proof.
  intros users es. apply run_wf; [exact (proj1 (proj2 (proj2 (proj2 C05_table_is_reference))))|reflexivity].
Qed.
Print Assumptions C05_wf_reachable.

Theorem C05_unknown_verb_502 : forall users t w e,
  s_ended (w_s w) = false -> text_eqb (e_verb e) V_DATACONN = false ->
  verb_handler t (e_verb e) = None ->
  step users t w e = (w, mk_out [t_of "502"]).
Proof. exact unknown_verb_502. Qed.
Print Assumptions C05_unknown_verb_502.

Theorem C05_out_of_sequence_503 : forall users t w e h fields fc ds dl f,
  s_ended (w_s w) = false -> text_eqb (e_verb e) V_DATACONN = false ->
  verb_handler t (e_verb e) = Some h ->
  handler_of t h = Some (DConn fields false fc :: ds, dl) ->
  In f fields -> has_field (w_s w) f = false ->
  step users t w e = (set_sess w (set_rest (w_s w) 0%Z), mk_out [t_of fc]).
Proof. exact out_of_sequence. Qed.
Print Assumptions C05_out_of_sequence_503.

(* "the restart offset applies only to the immediately following transfer": after ANY supported command
   other than REST itself -- a transfer that used it, a transfer that was refused (503/550/425), or any
   other command -- the pending offset is 0 *)
Theorem C05_rest_scopes_one_command : forall users t w e h,
  s_ended (w_s w) = false -> text_eqb (e_verb e) V_DATACONN = false ->
  verb_handler t (e_verb e) = Some h -> String.eqb h "rest" = false ->
  s_rest (w_s (fst (step users t w e))) = 0%Z.
Proof. exact rest_cleared_by_every_command. Qed.
Print Assumptions C05_rest_scopes_one_command.

(* ... while the transfer command itself is served with the offset it found *)
Theorem C05_transfer_sees_offset : forall users t w e h,
  s_ended (w_s w) = false -> text_eqb (e_verb e) V_DATACONN = false ->
  verb_handler t (e_verb e) = Some h -> is_transfer (e_verb e) = true ->
  snd (step users t w e) = snd (fst (handler users t 3 h (e_arg e) (e_data e) false w)).
Proof. exact transfer_sees_offset. Qed.
Print Assumptions C05_transfer_sees_offset.

Theorem C05_rnto_consumes_pending_rename : forall users self arg d appe w,
  s_rnfr (w_s (res_world (body users self "rnto" arg d appe w))) = None.
Proof. exact rnto_consumes. Qed.
Print Assumptions C05_rnto_consumes_pending_rename.

(* USER drops a pending rename source whatever the outcome of the lookup (repair of F18: before it a
   RNFR accepted for one login could be completed by RNTO under the next login) *)
Theorem C05_reuser_drops_pending_rename : forall users self arg d appe w,
  s_rnfr (w_s (res_world (body users self "user" arg d appe w))) = None.
Proof. exact user_drops_rnfr. Qed.
Print Assumptions C05_reuser_drops_pending_rename.

Theorem C05_relogin_resets_cwd : forall users self arg d appe w i u,
  find_user users 0 arg None = Some i -> nth_error users i = Some u ->
  s_cwd (w_s (res_world (body users self "user" arg d appe w))) = u_home u.
Proof. exact user_resets_cwd. Qed.
Print Assumptions C05_relogin_resets_cwd.

(* ---------------- the three histories that were refutation witnesses before the repairs of F09, F10
   and F14 (fix: commits in /repo, known_findings.json "fixed"): concrete, non-vacuous instances of the
   theorems above; the harness replays each on the real server on every run as an ordinary corpus case *)
Definition U1 : list user :=
  [{| u_login := Some (t_of "u"); u_password := Some (t_of "pw"); u_home := []; u_perms := [] |}].
Definition W1 : world :=
  {| w_s := init_sess; w_fs := NDir [(t_of "g", NFile [48;49;50;51;52;53;54;55;56;57]%Z)]; w_log := [] |}.
Definition ev (v a : string) : event := {| e_verb := t_of v; e_arg := t_of a; e_data := DNone |}.
Definition dataconn : event := {| e_verb := V_DATACONN; e_arg := []; e_data := DNone |}.

(* REST + superscript two (code point 178; str.isdigit() is true, int() raises): 501, session continues *)
Example C05_rest_nondecimal_digit_is_501 :
  let es := [ev "user" "u"; ev "pass" "pw"; {| e_verb := t_of "rest"; e_arg := [178%Z]; e_data := DNone |}] in
  let '(w, outs) := run U1 ref_table W1 es in
  s_ended (w_s w) = false /\ map (fun x => o_codes (fst x)) outs = [[t_of "331"]; [t_of "230"]; [t_of "501"]].
Proof. vm_compute. split; reflexivity. Qed.

(* EPSV <arg>: 522 and the session continues *)
Example C05_epsv_arg_keeps_session :
  let es := [ev "user" "u"; ev "pass" "pw"; ev "epsv" "1"; ev "pwd" ""] in
  let '(w, outs) := run U1 ref_table W1 es in
  s_ended (w_s w) = false /\
  map (fun x => o_codes (fst x)) outs = [[t_of "331"]; [t_of "230"]; [t_of "522"]; [t_of "257"]].
Proof. vm_compute. split; reflexivity. Qed.

(* REST 4; RETR g; RETR g: the first transfer starts at 4, the second at 0 *)
Example C05_rest_applies_to_one_transfer :
  let es := [ev "user" "u"; ev "pass" "pw"; ev "pasv" ""; dataconn; ev "rest" "4"; ev "retr" "g";
             dataconn; ev "retr" "g"] in
  let '(w, outs) := run U1 ref_table W1 es in
  map (fun x => o_bytes (fst x)) (skipn 5 outs)
  = [Some [52;53;54;55;56;57]%Z; None; Some [48;49;50;51;52;53;54;55;56;57]%Z].
Proof. vm_compute. reflexivity. Qed.

(* ====================================================================================================
   The handler BODIES as programs translated from server.py (tools/py2v/gen_handlers.py -> Gen/Handlers.v,
   language Lib/HandlerFacts.v, interpreter Model/HandlerProg.v, proofs Proofs/HandlerProg.v). *)
From Verif Require Import Lib.HandlerFacts Model.HandlerProg Proofs.HandlerProg.
From Verif Require Gen.Handlers.

(* closed obligation, re-checked on every run: the 25 handler bodies of TODAY's server.py translate
   (no unclassified statement) to exactly the reference programs [ref_programs] *)
Theorem C05_handler_programs_are_reference :
  Gen.Handlers.translator_ok = true /\ handler_programs_match = true.
Proof. exact handler_programs_match_ok. Qed.
Print Assumptions C05_handler_programs_are_reference.

(* the handlers of the programs are the handlers of the decorator table: the 25 *)
Theorem C05_handler_names :
  handler_names = ["abor"; "appe"; "cdup"; "cwd"; "dele"; "epsv"; "list"; "mkd"; "mlsd"; "mlst"; "pass_"; "pasv"; "pbsz";
                   "prot"; "pwd"; "quit"; "rest"; "retr"; "rmd"; "rnfr"; "rnto"; "stor"; "syst"; "type"; "user"]%string
  /\ forallb (fun e => mem_s (fst (fst (snd e))) handler_names) ref_table = true
  /\ forallb (fun n => existsb (fun e => String.eqb (fst (fst (snd e))) n) ref_table) handler_names = true.
Proof. exact handler_names_are_the_25. Qed.
Print Assumptions C05_handler_names.

(* THE tie: the hand-written [body] of Model/Session.v IS the denotation of the program translated from
   today's source -- for every handler of the table, every user table, delegation callback, argument,
   data action, appe flag and world.  [body_pre] constrains two handlers only:
     rnto  : connection.rename_from present  (its ConnectionConditions(rename_from_required) guarantees it;
             absent => AttributeError in the source, 503 in [body]);
     pass_ : connection.user present          (ConnectionConditions(user_required)). *)
Theorem C05_model_is_program_denotation : forall users self name arg d appe w,
  In name handler_names -> body_pre name w ->
  run_handler_prog users self (prog_of Gen.Handlers.programs name) arg d appe w
  = Some (body users self name arg d appe w).
Proof. exact gen_body_is_denotation. Qed.
Print Assumptions C05_model_is_program_denotation.

(* ... and lifted through the decorator stacks: the WHOLE handler (the generic decorator interpreter around
   the program denotations, delegation CDUP->CWD / APPE->STOR included) computed from today's translated
   programs is the model's [handler] -- the function [step] calls -- for EVERY world: the handlers' own
   ConnectionConditions establish what rnto / pass_ read, so NO hypothesis remains *)
Theorem C05_handler_is_program_denotation : forall users fuel name arg d appe w,
  handler_prog users ref_table Gen.Handlers.programs fuel name arg d appe w
  = handler users ref_table fuel name arg d appe w.
Proof. exact gen_handler_is_program_denotation. Qed.
Print Assumptions C05_handler_is_program_denotation.

(* [body_pre] is satisfiable and is no restriction for the other 23 handlers *)
Theorem C05_body_pre_trivial : forall name w,
  name <> "rnto"%string -> name <> "pass_"%string -> body_pre name w.
Proof. exact body_pre_trivial. Qed.
Print Assumptions C05_body_pre_trivial.

Theorem C05_body_pre_from_fields : forall name w,
  has_field (w_s w) "rename_from" = true -> has_field (w_s w) "user" = true -> body_pre name w.
Proof. exact body_pre_from_fields. Qed.
Print Assumptions C05_body_pre_from_fields.

(* PWD: with a double quote in a directory name the source answers 257 DQ/aDQDQbDQ (DQ = the double
   quote; the one inside the name doubled, repair of F08) and so does [body] *)
Theorem C05_pwd_doubles_quotes : forall users self,
  option_map (fun r => o_info (snd (fst r)))
             (run_handler_prog users self (prog_of ref_programs "pwd") [] DNone false W_quote)
    = Some [34; 47; 97; 34; 34; 98; 34]%Z
  /\ o_info (snd (fst (body users self "pwd" [] DNone false W_quote))) = [34; 47; 97; 34; 34; 98; 34]%Z.
Proof. exact pwd_model_doubles_quotes. Qed.
Print Assumptions C05_pwd_doubles_quotes.

(* the data-connection callback PASV / EPSV define is a program too, and [step]'s pseudo-verb "the peer
   connects to the passive listener" is its denotation wherever a listener exists *)
Theorem C05_dataconn_is_callback_denotation : forall users t w e,
  s_ended (w_s w) = false -> text_eqb (e_verb e) V_DATACONN = true -> s_passive (w_s w) = true ->
  hd_error (hp_body (prog_of Gen.Handlers.programs "pasv")) = Some (HDefCallback "handler" data_callback_body)
  /\ hd_error (hp_body (prog_of Gen.Handlers.programs "epsv")) = Some (HDefCallback "handler" data_callback_body)
  /\ run_callback users data_callback_body (w_s w) = Some (w_s (fst (step users t w e))).
Proof.
  intros users t w e En V Pa.
  exact (conj (proj1 callback_in_programs) (conj (proj2 callback_in_programs)
          (dataconn_is_callback_denotation users t w e En V Pa))).
Qed.
Print Assumptions C05_dataconn_is_callback_denotation.

(* the interpreter is not inert: one-statement variants of the source have no denotation or a different one *)
Example C05_cwd_real_path_has_no_denotation : forall users self arg d appe w,
  run_handler_prog users self
    (P [HGetPaths "x0" "x1" ERest; HSetAttr "current_directory" (EVar "x0"); HReply (ELit "250") EOpaque; HReturn true])
    arg d appe w = None.
Proof. exact cwd_real_path_has_no_denotation. Qed.

Example C05_mkd_without_parents_has_no_denotation : forall users self arg d appe w,
  run_handler_prog users self
    (P [HGetPaths "x0" "x1" ERest; HBackend "mkdir" [EVar "x0"] [("parents"%string, EBool false)];
        HReply (ELit "257") EOpaque; HReturn true])
    arg d appe w = None.
Proof. exact mkd_without_parents_has_no_denotation. Qed.

Example C05_unclassified_has_no_denotation : forall users self arg d appe w t,
  run_handler_prog users self (P [HOther t; HReply (ELit "200") EOpaque; HReturn true]) arg d appe w = None.
Proof. exact unclassified_has_no_denotation. Qed.

Example C05_type_accepting_E_differs : forall users self d appe w,
  run_handler_prog users self
    (P [HIf (CIn ERest ["I"; "A"; "E"]%string) [HSetAttr "transfer_type" ERest; HLet "x0" (ELit "200")] [HLet "x0" (ELit "502")];
        HReply (EVar "x0") EOpaque; HReturn true]) [69%Z] d appe w = Some (reply w "200")
  /\ body users self "type" [69%Z] d appe w = reply w "502".
Proof. exact type_accepting_E_differs. Qed.

Example C05_rnto_without_del_keeps_rename_from : forall users self arg d appe w src f,
  s_rnfr (w_s w) = Some src -> rename src (resolve (s_cwd (w_s w)) arg) (w_fs w) = Some f ->
  option_map (fun r => s_rnfr (w_s (fst (fst r))))
    (run_handler_prog users self
       (P [HGetPaths "x0" "x1" ERest; HLet "x2" (EAttr "rename_from");
           HBackend "rename" [EVar "x2"; EVar "x0"] []; HReply (ELit "250") EOpaque; HReturn true])
       arg d appe w) = Some (Some src).
Proof. exact rnto_without_del_keeps_rename_from. Qed.

Example C05_program_run_nonvacuous :
  let w := {| w_s := init_sess; w_fs := NDir []; w_log := [] |} in
  option_map (fun r => (w_fs (fst (fst r)), o_codes (snd (fst r))))
    (run_handler_prog [] no_self (prog_of Gen.Handlers.programs "mkd") (t_of "a/b") DNone false w)
  = Some (NDir [(t_of "a", NDir [(t_of "b", NDir [])])], [code "257"]).
Proof. exact den_example_mkd. Qed.
