(* placeholder while the conformance harness is brought up; real statements follow *)
From Coq Require Import ZArith List Bool String.
From Verif Require Import Lib.Sx Lib.Facts Model.Session.
Example C05_placeholder : s_ended init_sess = false. Proof. reflexivity. Qed.
Print Assumptions C05_placeholder.
