(* C15 — Speed limits bound the cumulative rate, compose, and cost nothing when off.
   Property statements only; proofs live in Proofs/Throttle.v and Proofs/ThrottleWiring.v.

   Vocabulary (Proofs/Throttle.v, Part 3).  One throttle with limit L > 0 and reset period R >= 0 is
   used by any number of actors (an actor = one sequential user of one direction of one stream).
   A run is any list of events  E1 a t w (actor a evaluates its wait at time t and commits to wake
   time w >= this throttle's own wake time: it may wait for other throttles as well),
   S1 a t (`start = _now()`, t >= w),  D1 a t n (the I/O returned n >= 0 bytes:
   append(n, recorded start)),  X1 a t (the operation of a ended WITHOUT append: the timed socket I/O
   raised asyncio.TimeoutError / a connection error, or the task was cancelled during the throttle
   wait or the I/O), with non-decreasing times.  Every theorem below quantifies over runs that
   contain such aborted operations too.  Ghost quantities of a run g:
     g_T  all bytes ever appended          g_C  credit folded away by resets
     g_r  number of resets                 g_t0 first recorded start (the window origin)
     g_snap a  = g_T when a was evaluated  g_last a = size of a's last completed block
   half r = r/2.

   THE BOUND, stated honestly.  The reset folding rounds (round-half-even) the credit
   (start - _start) * limit to an integer, so every reset may shift the window by up to half a byte:
   the code guarantees   bytes <= L*(t - t0) + r/2 + blocks in flight,  r <= (t - t0)/R,
   i.e. a long-run rate of at most L + 1/(2R) bytes/s, NOT the literal L*(t - t0) of the property
   text (C15_literal_bound_refuted below; finding F15 in known_findings.json). *)
From Coq Require Import ZArith QArith Qabs Qminmax List Bool.
From Verif Require Import Lib.Sx Model.Throttle Proofs.Throttle Proofs.ThrottleWiring.
From Verif Require Gen.Wiring.
Import ListNotations.
Local Open Scope Q_scope.

(* Python's round() on rationals *)
Theorem C15_round_half_even_error : forall q, Qabs (inject_Z (round_half_even q) - q) <= 1 # 2.
Proof. exact round_half_even_error. Qed.
Print Assumptions C15_round_half_even_error.

(* fold_invariant: sum = T - C and |C - L*(start - t0)| <= r/2, after every run *)
Theorem C15_fold_invariant : forall L R, 0 < L -> 0 <= R ->
  forall th c tr g,
  fresh_ok L R th -> grun (ginit th c) tr = Some g ->
  sum (g_th g) = (g_T g - g_C g)%Z /\
  (forall s z, start (g_th g) = Some s -> g_t0 g = Some z ->
     Qabs (inject_Z (g_C g) - L * (s - z)) <= half (g_r g)) /\
  (start (g_th g) = None -> g_T g = 0%Z).
Proof. exact fold_invariant. Qed.
Print Assumptions C15_fold_invariant.

(* the rounding slack is bounded by elapsed time: r * R <= t - t0 *)
Theorem C15_resets_bounded : forall L R, 0 < L -> 0 <= R ->
  forall th c tr g s z t,
  fresh_ok L R th -> grun (ginit th c) tr = Some g ->
  start (g_th g) = Some s -> g_t0 g = Some z -> g_clock g <= t ->
  inject_Z (g_r g) * R <= t - z /\ z <= s /\ s <= g_clock g.
Proof. exact resets_bounded. Qed.
Print Assumptions C15_resets_bounded.

(* scheduled_within_rate: at every Start a t, the bytes accounted when a was evaluated are within
   L*(t - t0) + r/2.  For one stream this is the property's bound with the single block in flight. *)
Theorem C15_scheduled_within_rate : forall L R, 0 < L -> 0 <= R ->
  forall th c tr a t g z,
  fresh_ok L R th -> grun (ginit th c) (tr ++ [S1 a t]) = Some g ->
  g_t0 g = Some z ->
  g_stat g a = Started t /\
  inject_Z (g_snap g a) <= L * (t - z) + half (g_r g).
Proof. exact scheduled_within_rate. Qed.
Print Assumptions C15_scheduled_within_rate.

(* shared_bound: k actors share the throttle; at any time t not before the last event the bytes
   completed are within L*(t - t0) + r/2 + one block per actor (the last completed block of every
   actor that has no I/O in flight; an actor with an I/O in flight contributes nothing completed
   above the bound, its in-flight block is not counted in g_T yet) *)
Theorem C15_shared_bound : forall L R, 0 < L -> 0 <= R ->
  forall th c tr g k z t,
  fresh_ok L R th -> grun (ginit th c) tr = Some g ->
  Forall (fun e => (actor_of_ev1 e < k)%nat) tr ->
  g_t0 g = Some z -> g_clock g <= t ->
  inject_Z (g_T g) <= L * (t - z) + half (g_r g) + inject_Z (sum_last g k).
Proof. exact shared_bound. Qed.
Print Assumptions C15_shared_bound.

Theorem C15_single_stream_bound : forall L R, 0 < L -> 0 <= R ->
  forall th c tr g z t,
  fresh_ok L R th -> grun (ginit th c) tr = Some g ->
  Forall (fun e => actor_of_ev1 e = O) tr ->
  g_t0 g = Some z -> g_clock g <= t ->
  inject_Z (g_T g) <= L * (t - z) + half (g_r g)
                     + inject_Z (if is_started (g_stat g O) then 0 else g_last g O).
Proof. exact single_stream_bound. Qed.
Print Assumptions C15_single_stream_bound.

(* no_excess_delay: if wait() sleeps at all it wakes exactly at start + sum/L, and at that instant
   the accounted bytes are at least L*(wake - t0) - r/2 (the bound is tight) *)
Theorem C15_no_excess_delay : forall L R, 0 < L -> 0 <= R ->
  forall th c tr g now,
  fresh_ok L R th -> grun (ginit th c) tr = Some g ->
  now < wake (g_th g) now ->
  exists s z, start (g_th g) = Some s /\ g_t0 g = Some z /\
    wake (g_th g) now == s + inject_Z (sum (g_th g)) / L /\
    L * (wake (g_th g) now - z) - half (g_r g) <= inject_Z (g_T g).
Proof. exact no_excess_delay. Qed.
Print Assumptions C15_no_excess_delay.

Theorem C15_wake_never_early : forall th now, now <= wake th now.
Proof. exact wake_ge_now. Qed.
Print Assumptions C15_wake_never_early.

(* ---- the system: a store of throttle objects, actors over dicts of (read, write) pairs *)

(* every throttle k of the system sees a single-throttle run: the theorems above apply to it *)
Theorem C15_sys_projects : forall actors store c tr st' k,
  wired actors -> (k < length store)%nat ->
  run actors (init_sys store actors c) tr = Some st' ->
  Forall (admin_free k) tr ->
  exists tr1 g, grun (ginit (get store k) c) tr1 = Some g /\ rel actors k st' g.
Proof. exact sys_projects. Qed.
Print Assumptions C15_sys_projects.

(* tightest_governs (a): the stream continues at the max of now and its throttles' own wake times *)
Theorem C15_tightest_governs_max : forall store ids now,
  now <= stream_wake store ids now /\
  (forall k, In k ids -> wake (get store k) now <= stream_wake store ids now) /\
  (stream_wake store ids now == now \/
   exists k, In k ids /\ truthy_limit (get store k) = true /\
             stream_wake store ids now == wake (get store k) now).
Proof. exact stream_wake_is_max. Qed.
Print Assumptions C15_tightest_governs_max.

(* tightest_governs (b): at every Start, the bound of EVERY limited throttle of the dict holds *)
Theorem C15_tightest_governs_all : forall actors store c tr a t st',
  wired actors ->
  run actors (init_sys store actors c) (tr ++ [Start a t]) = Some st' ->
  forall k Lk Rk, participates actors k a -> (k < length store)%nat ->
    0 < Lk -> 0 <= Rk -> fresh_ok Lk Rk (get store k) -> Forall (admin_free k) tr ->
    exists tr1 g, grun (ginit (get store k) c) (tr1 ++ [S1 a t]) = Some g /\
      rel actors k st' g /\ g_stat g a = Started t /\
      forall z, g_t0 g = Some z ->
        inject_Z (g_snap g a) <= Lk * (t - z) + half (g_r g).
Proof. exact all_bounds_hold. Qed.
Print Assumptions C15_tightest_governs_all.

(* limits shared by several connections bound their sum *)
Theorem C15_sys_shared_bound : forall actors store c tr st' k Lk Rk,
  wired actors -> (k < length store)%nat ->
  run actors (init_sys store actors c) tr = Some st' ->
  0 < Lk -> 0 <= Rk -> fresh_ok Lk Rk (get store k) -> Forall (admin_free k) tr ->
  exists tr1 g, grun (ginit (get store k) c) tr1 = Some g /\ rel actors k st' g /\
    sum (get (s_store st') k) = (g_T g - g_C g)%Z /\
    forall z t, g_t0 g = Some z -> s_clock st' <= t ->
      forall n, Forall (fun e => (actor_of_ev1 e < n)%nat) tr1 ->
      inject_Z (g_T g) <= Lk * (t - z) + half (g_r g) + inject_Z (sum_last g n).
Proof. exact sys_shared_bound. Qed.
Print Assumptions C15_sys_shared_bound.

(* independent: a trace that neither completes an I/O through a dict containing k nor assigns
   k's limit leaves k's state, hence all its wake times, unchanged (per-connection clones) *)
Theorem C15_independent : forall actors k tr st st',
  run actors st tr = Some st' ->
  Forall (fun e => ~ touches actors k e) tr ->
  get (s_store st') k = get (s_store st) k /\
  forall now, wake (get (s_store st') k) now = wake (get (s_store st) k) now.
Proof. exact independent. Qed.
Print Assumptions C15_independent.

Theorem C15_clone_no_memory : forall th,
  limit (clone th) = limit th /\ reset_rate (clone th) = reset_rate th /\
  start (clone th) = None /\ sum (clone th) = 0%Z.
Proof. exact clone_spec. Qed.
Print Assumptions C15_clone_no_memory.

(* off_is_free: limit None / 0 / negative -> wait() returns at `now` whatever the memory; and an
   actor none of whose throttles OF ITS OWN DIRECTION is limited never waits, in any trace
   (limits on the opposite direction are other objects and are not even looked at) *)
Theorem C15_off_is_free_one : forall th now, positive_limit th = None -> wake th now = now.
Proof. exact wake_off. Qed.
Print Assumptions C15_off_is_free_one.

Theorem C15_off_is_free : forall actors store c tr a t st' ac,
  run actors (init_sys store actors c) (tr ++ [Eval a t]) = Some st' ->
  nth_error actors a = Some ac ->
  (forall k, In k (ids_of ac) -> positive_limit (get store k) = None) ->
  (forall k, In k (ids_of ac) -> Forall (fun e => forall v, e <> SetLimit k v) tr) ->
  nth_error (s_stat st') a = Some (Evaluated t).
Proof. exact off_is_free. Qed.
Print Assumptions C15_off_is_free.

(* ---- streams WITH read/write timeouts (StreamIO.read_timeout / write_timeout; server socket_timeout
   and idle_timeout, client socket_timeout).  The throttle wait precedes the timed super() call:
   whatever the timeout, the I/O of an operation starts exactly at the throttles' wake time; only the
   socket I/O itself (duration d) runs against the timeout (timed_end).  Each such operation
   (op_events) is a trace of the model, so every bound above holds for every timeout configuration;
   an operation that times out accounts nothing. *)
Theorem C15_timed_end_spec : forall tmo ts d,
  match tmo with
  | None => timed_end tmo ts d = (true, ts + d)
  | Some T => (d < T -> timed_end tmo ts d = (true, ts + d)) /\
              (T <= d -> timed_end tmo ts d = (false, ts + Qmax 0 T))
  end.
Proof. exact timed_end_spec. Qed.
Print Assumptions C15_timed_end_spec.

Theorem C15_timeout_does_not_move_start : forall store ac a tmo1 tmo2 now d n,
  firstn 2 (op_events store ac a tmo1 now d n) = firstn 2 (op_events store ac a tmo2 now d n) /\
  nth_error (op_events store ac a tmo1 now d n) 1 = Some (Start a (stream_wake store (ids_of ac) now)).
Proof. exact op_start_ignores_timeout. Qed.
Print Assumptions C15_timeout_does_not_move_start.

Theorem C15_timed_op_in_model : forall actors st a ac tmo now d n,
  nth_error actors a = Some ac -> nth_error (s_stat st) a = Some Idle ->
  s_clock st <= now -> 0 <= d -> (0 <= n)%Z ->
  exists st', run actors st (op_events (s_store st) ac a tmo now d n) = Some st' /\
              nth_error (s_stat st') a = Some Idle /\
              (fst (timed_end tmo (stream_wake (s_store st) (ids_of ac) now) d) = false ->
               s_store st' = s_store st).
Proof. exact op_accepted. Qed.
Print Assumptions C15_timed_op_in_model.

(* non-vacuity: limit 2 B/s; a 10-byte write, then a write whose wait is 5 s although the stream's
   write timeout is 1 s (the wait is not cut), whose socket I/O (3 s) then times out after 1 s *)
Example C15_example_timed_ops :
  let acs := [mkA [(1, 0)]%nat true] in
  let ac := mkA [(1, 0)]%nat true in
  let st0 := init_sys [fresh (Some 2) 10; fresh None 10] acs 0 in
  exists st1 st2 w te,
    run acs st0 (op_events (s_store st0) ac 0 (Some 1) 0 0 10) = Some st1 /\
    op_events (s_store st1) ac 0 (Some 1) 0 3 4 = [Eval 0 0; Start 0 w; Abort 0 te] /\
    w == 5 /\ te == 6 /\
    run acs st1 (op_events (s_store st1) ac 0 (Some 1) 0 3 4) = Some st2 /\
    sum (get (s_store st2) 0%nat) = 10%Z.
Proof.
  cbv zeta. eexists. eexists. eexists. eexists.
  split; [vm_compute; reflexivity|].
  split; [vm_compute; reflexivity|].
  split; [vm_compute; reflexivity|].
  split; [vm_compute; reflexivity|].
  split; [vm_compute; reflexivity|].
  vm_compute. reflexivity.
Qed.

(* ---- the per-user limit over session HISTORIES: whatever sequence of logins, re-logins and
   disconnects, two live sessions hold the same "user_global" object iff they are logged in as the
   same user (so C15_sys_shared_bound applies to the sum of exactly that user's sessions).  Refuted
   if entries were dropped at disconnect (c1 stays, c2 comes and goes, c3 logs in). *)
Theorem C15_per_user_shared_over_histories : forall h c1 u1 o1 c2 u2 o2,
  In (c1, (u1, o1)) (r_sess (hrun false h)) ->
  In (c2, (u2, o2)) (r_sess (hrun false h)) ->
  (u1 = u2 <-> o1 = o2).
Proof. exact per_user_shared_over_histories. Qed.
Print Assumptions C15_per_user_shared_over_histories.

Theorem C15_per_user_pop_refuted :
  exists o1 o3, In (1, (0, o1))%nat (r_sess (hrun true pop_history)) /\
                In (3, (0, o3))%nat (r_sess (hrun true pop_history)) /\ o1 <> o3.
Proof. exact per_user_pop_refuted. Qed.
Print Assumptions C15_per_user_pop_refuted.

(* ---- the literal bound of the property text is refuted by the rounding of the reset folding.
   Full statement that does NOT hold:
     forall ... grun (ginit th c) (tr ++ [S1 a t]) = Some g -> g_t0 g = Some z ->
       inject_Z (g_snap g a) <= L * (t - z).
   Witness (limit 1 B/s, reset_rate 10 s): a 0-byte I/O at t = 0, then a 12-byte I/O started at
   t = 11.5 folds round(11.5) = 12 bytes of credit, so the next I/O may start at 11.75 with
   12 bytes accounted: 12 > 1 * 11.75.  What IS proved is C15_scheduled_within_rate (slack r/2). *)
Definition refuting_throttle : throttle := fresh (Some 1) 10.
Definition refuting_trace : list ev1 :=
  [E1 0 0 0; S1 0 0; D1 0 0 0;
   E1 0 (23 # 2) (23 # 2); S1 0 (23 # 2); D1 0 (47 # 4) 12;
   E1 0 (47 # 4) (47 # 4)].

Theorem C15_literal_bound_refuted :
  exists g z, grun (ginit refuting_throttle 0) (refuting_trace ++ [S1 0%nat (47 # 4)]) = Some g /\
              g_t0 g = Some z /\
              1 * ((47 # 4) - z) < inject_Z (g_snap g 0%nat) /\
              inject_Z (g_snap g 0%nat) <= 1 * ((47 # 4) - z) + half (g_r g).
Proof.
  eexists. exists 0. split; [vm_compute; reflexivity|].
  split; [reflexivity|]. split; vm_compute; [reflexivity|discriminate].
Qed.
Print Assumptions C15_literal_bound_refuted.

(* ---- non-vacuity: concrete runs satisfying the hypotheses *)

(* two actors share a throttle (limit 3/2 B/s, reset period 2 s); unequal blocks incl. 0, an idle gap
   longer than the reset period, overlapping I/Os; two resets happen *)
Definition ex_throttle : throttle := fresh (Some (3 # 2)) 2.
Definition ex_trace : list ev1 :=
  [E1 0 0 0; S1 0 0; E1 1 (1 # 2) (1 # 2); S1 1 (1 # 2);
   D1 0 1 4; D1 1 (3 # 2) 0;
   E1 0 (3 # 2) (8 # 3); S1 0 (8 # 3); D1 0 3 5;
   E1 1 9 9; S1 1 9; D1 1 10 7;
   E1 0 10 (41 # 3); S1 0 14; D1 0 15 1].

Example C15_example_run :
  fresh_ok (3 # 2) 2 ex_throttle /\
  exists g, grun (ginit ex_throttle 0) ex_trace = Some g /\
            g_T g = 17%Z /\ g_r g = 3%Z /\ g_t0 g = Some 0 /\ sum (g_th g) = (-5)%Z.
Proof.
  split; [repeat split|]. eexists. split; [vm_compute; reflexivity|]. repeat split.
Qed.

(* a system: throttle 0 shared by two connections (server_global), throttles 1 and 2 their
   per-connection clones; ids 3.. are the unlimited read sides; both actors write *)
Definition ex_store : list throttle :=
  [fresh (Some 4) 10; fresh (Some 1) 10; fresh (Some 1) 10;
   fresh None 10; fresh None 10; fresh None 10].
Definition ex_actors : list actor :=
  [mkA [(3, 0); (4, 1)]%nat true; mkA [(3, 0); (5, 2)]%nat true].
Definition ex_sys_trace : list event :=
  [Eval 0 0; Start 0 0; Done 0 1 3; Eval 1 1; Start 1 1; Done 1 2 5;
   Eval 0 2; Start 0 3; Done 0 4 1; Eval 1 4].

Example C15_example_system :
  wired ex_actors /\
  Forall (admin_free 0) ex_sys_trace /\
  exists st, run ex_actors (init_sys ex_store ex_actors 0) ex_sys_trace = Some st /\
             nth_error (s_stat st) 1 = Some (Evaluated 6) /\
             sum (get (s_store st) 0%nat) = 9%Z /\ sum (get (s_store st) 1%nat) = 4%Z /\
             sum (get (s_store st) 2%nat) = 5%Z.
Proof.
  split.
  { repeat constructor; cbn; intuition congruence. }
  split.
  { repeat constructor. }
  eexists. split; [vm_compute; reflexivity|]. repeat split.
Qed.

(* ---- wiring: the closed obligation re-checked against today's source on every run *)
Theorem C15_wiring_translated : Gen.Wiring.translator_ok_wiring = true.
Proof. reflexivity. Qed.

Theorem C15_wiring :
  check_wiring Gen.Wiring.throttle_sites Gen.Wiring.attr_inits Gen.Wiring.per_user_guarded
               Gen.Wiring.stream_stores_dict_by_reference Gen.Wiring.stream_ops = true.
Proof. vm_compute. reflexivity. Qed.
Print Assumptions C15_wiring.

(* ThrottleStreamIO.wait awaits `asyncio.wait(tasks)` with no timeout: it resumes when the LAST
   throttle sleep ends (stream_wake = the max), independently of the stream's timeouts *)
Theorem C15_wait_untimed : Gen.Wiring.stream_wait_untimed = true.
Proof. reflexivity. Qed.

(* nothing removes or replaces an entry of Server.throttle_per_user (hrun false is the model) *)
Theorem C15_per_user_never_removed : Gen.Wiring.per_user_never_removed = true.
Proof. reflexivity. Qed.

Theorem C15_wiring_spec : forall sites inits guarded byref ops,
  check_wiring sites inits guarded byref ops = true ->
  guarded = true /\ byref = true /\
  dispatcher_ok sites = true /\ user_ok sites = true /\
  data_sites_ok sites = true /\ client_ok sites = true /\
  combined_dict_ok sites = true /\ inits_ok inits = true /\ ops_ok ops = true.
Proof. exact check_wiring_spec. Qed.
Print Assumptions C15_wiring_spec.
