(* C01 — Transferred bytes are exact (STOR / APPE / RETR, whole or from a restart offset).
   Property statements only; proofs live in Proofs/Bytes.v, Proofs/TransferBytes.v and (the closed
   obligations on today's source) Proofs/TransferBytesGen.v.

   Reading guide.  `segs` is the network's segmentation of the byte stream (ANY list of segments
   with the stated concatenation), `oracle` the schedule of every read(block) (how many more
   segments have arrived, how many of the available bytes it returns), `foracle` the short reads
   of the backend, `cuts` another way to give a segmentation, `flushes` when a buffering backend
   lets written bytes become visible.  All are universally quantified.  `stor_modes`,
   `retr_modes`, `stor_ctx`, `stor_reply_after_ctx`, `reset_exempt`, `verb_table` and `Gen.Xfer.facts` are read
   from the generated facts of the current source.

   Nothing is carved out any more (round 2b, repaired aioftp): REST n + STOR/APPE on a MISSING
   file ends with 451 and creates nothing on every backend (C01_stor_missing_file; F06 repaired),
   and a restart offset applies to exactly the next transfer command (C01_rest_applies_to_next_transfer,
   C01_offset_applies_to_next_command_only, C01_second_transfer_starts_at_0, C01_back_to_back;
   F14 repaired).  `old` in C01_stor_exact is the content of an EXISTING file. *)
From Coq Require Import ZArith Bool Arith String List.
From Coq Require Import QArith.
From Verif Require Import Lib.Sx Lib.Facts Lib.XferFacts Model.Bytes Model.TransferBytes
     Model.TransferTimed Model.XferProg Model.TransferFiles
     Proofs.Bytes Proofs.TransferBytes Proofs.TransferBytesGen Proofs.TransferTimed Proofs.XferProg Proofs.TransferFiles.
From Verif Require Gen.Dispatch Gen.Xfer.
Import ListNotations.
Open Scope string_scope.
Open Scope list_scope.
Open Scope nat_scope.

(* ---- the closed obligations on today's source ---- *)
Theorem C01_source_facts :
  Gen.Dispatch.translator_ok = true /\ Gen.Xfer.translator_ok = true
  /\ check_dispatch_facts Gen.Dispatch.workers Gen.Dispatch.handlers Gen.Dispatch.dispatcher = true
  /\ check_xfer_facts Gen.Xfer.facts = true.
Proof.
  exact (conj (proj1 gen_translators_ok) (conj (proj2 gen_translators_ok)
          (conj gen_dispatch_facts_ok gen_xfer_facts_ok))).
Qed.
Print Assumptions C01_source_facts.

(* STOR stores with "wb", APPE with "ab" (stor's default / appe's delegation argument) *)
Theorem C01_verb_modes :
  verb_mode Gen.Xfer.facts "stor" = Some WB /\ verb_mode Gen.Xfer.facts "appe" = Some AB.
Proof. exact gen_verb_modes. Qed.
Print Assumptions C01_verb_modes.

(* ---- stor_exact ---- *)
Theorem C01_stor_exact : forall verb vm off old block payload segs oracle,
  verb_mode Gen.Xfer.facts verb = Some vm ->
  1 <= block ->
  concat segs = payload ->
  e2e_stor stor_modes vm off old block segs oracle = Some (spec_store vm off payload old).
Proof. exact gen_stor_exact. Qed.
Print Assumptions C01_stor_exact.

(* the same for ANY reader that satisfies the read contract (not only the network model) *)
Theorem C01_stor_exact_conforming : forall table vm off old block payload reads,
  stor_table_ok table -> store_mode vm ->
  conforming block payload reads ->
  stor_worker table vm off old reads = Some (spec_store vm off payload old).
Proof. exact stor_worker_exact. Qed.
Print Assumptions C01_stor_exact_conforming.

(* what spec_store says, spelled out *)
Theorem C01_spec_store_wb : forall payload old, spec_store WB 0 payload old = payload.
Proof. exact spec_store_wb. Qed.
Theorem C01_spec_store_ab : forall payload old, spec_store AB 0 payload old = old ++ payload.
Proof. exact spec_store_ab. Qed.
Theorem C01_spec_store_restart : forall m off payload old, 0 < off ->
  spec_store m off payload old = write_at off payload old.
Proof. exact spec_store_restart. Qed.
Theorem C01_write_at_prefix : forall off d old, d <> [] ->
  firstn off (write_at off d old) = firstn off old ++ zeros (off - length old).
Proof. exact write_at_prefix. Qed.
Theorem C01_write_at_data : forall off d old, d <> [] ->
  firstn (length d) (skipn off (write_at off d old)) = d.
Proof. exact write_at_data. Qed.
Theorem C01_write_at_suffix : forall off d old,
  skipn (off + length d) (write_at off d old) = skipn (off + length d) old.
Proof. exact write_at_suffix. Qed.
Theorem C01_write_at_length : forall off d old, d <> [] ->
  length (write_at off d old) = Nat.max (length old) (off + length d).
Proof. exact write_at_length. Qed.
Theorem C01_write_at_app : forall off a b old,
  write_at (off + length a) b (write_at off a old) = write_at off (a ++ b) old.
Proof. exact write_at_app. Qed.
Print Assumptions C01_write_at_app.

(* ---- retr_exact ---- *)
Theorem C01_retr_exact : forall off content block foracle cuts cblock coracle,
  1 <= block -> 1 <= cblock ->
  e2e_retr retr_modes off content block foracle cuts cblock coracle = Some (spec_retr off content).
Proof. exact gen_retr_exact. Qed.
Print Assumptions C01_retr_exact.

(* any segmentation of what the server queued, not only those given by cut sizes *)
Theorem C01_retr_exact_segs : forall table off content block foracle segs cblock coracle wire,
  retr_table_ok table -> 1 <= block -> 1 <= cblock ->
  retr_worker table off content block foracle = Some wire ->
  concat segs = wire ->
  client_recv (sock_trace cblock coracle segs) = spec_retr off content.
Proof. exact retr_exact_segs. Qed.
Print Assumptions C01_retr_exact_segs.

Theorem C01_spec_retr_beyond : forall off content, length content <= off -> spec_retr off content = [].
Proof. exact spec_retr_beyond. Qed.
Theorem C01_spec_retr_inside : forall off content, off <= length content ->
  firstn off content ++ spec_retr off content = content.
Proof. exact spec_retr_inside. Qed.

(* ---- chunking_irrelevant ---- *)
Theorem C01_stor_chunking_irrelevant : forall verb vm off old payload
    block1 segs1 oracle1 block2 segs2 oracle2,
  verb_mode Gen.Xfer.facts verb = Some vm ->
  1 <= block1 -> 1 <= block2 ->
  concat segs1 = payload -> concat segs2 = payload ->
  e2e_stor stor_modes vm off old block1 segs1 oracle1 = e2e_stor stor_modes vm off old block2 segs2 oracle2.
Proof. exact gen_stor_chunking_irrelevant. Qed.
Print Assumptions C01_stor_chunking_irrelevant.

Theorem C01_retr_chunking_irrelevant : forall table off content
    block1 foracle1 cuts1 cblock1 coracle1 block2 foracle2 cuts2 cblock2 coracle2,
  retr_table_ok table ->
  1 <= block1 -> 1 <= cblock1 -> 1 <= block2 -> 1 <= cblock2 ->
  e2e_retr table off content block1 foracle1 cuts1 cblock1 coracle1
  = e2e_retr table off content block2 foracle2 cuts2 cblock2 coracle2.
Proof. exact retr_chunking_irrelevant. Qed.
Print Assumptions C01_retr_chunking_irrelevant.

(* the client's high-level block loops *)
Theorem C01_upload_exact : forall table vm off old local cblock coracle block segs oracle,
  stor_table_ok table -> store_mode vm -> 1 <= cblock -> 1 <= block ->
  concat segs = client_upload_wire local cblock coracle ->
  e2e_stor table vm off old block segs oracle = Some (spec_store vm off local old).
Proof. exact upload_exact. Qed.
Print Assumptions C01_upload_exact.

Theorem C01_download_exact : forall table off content block foracle segs cblock coracle wire,
  retr_table_ok table -> 1 <= block -> 1 <= cblock ->
  retr_worker table off content block foracle = Some wire ->
  concat segs = wire ->
  client_download_file (sock_trace cblock coracle segs) = spec_retr off content.
Proof. exact download_exact. Qed.
Print Assumptions C01_download_exact.

(* ---- early_stop_impossible ---- *)
(* the network/StreamReader model only produces traces that satisfy the read contract ... *)
Theorem C01_network_reads_conforming : forall block oracle segs,
  1 <= block -> conforming block (concat segs) (sock_trace block oracle segs).
Proof. exact sock_trace_conforming. Qed.
Print Assumptions C01_network_reads_conforming.

(* ... and so do backend reads ... *)
Theorem C01_file_reads_conforming : forall block oracle h,
  1 <= block -> conforming block (skipn (h_pos h) (h_content h)) (file_trace block oracle h).
Proof. exact file_trace_conforming. Qed.
Print Assumptions C01_file_reads_conforming.

(* ... and on such a trace the iterator's stop-at-first-empty-read loses nothing *)
Theorem C01_early_stop_impossible : forall block s reads,
  conforming block s reads ->
  concat (iter_blocks reads) = s
  /\ Forall (fun c => c <> [] /\ length c <= block) (iter_blocks reads).
Proof. exact iter_blocks_conforming. Qed.
Print Assumptions C01_early_stop_impossible.

(* ---- reply_after_close / visible_after_226 ---- *)
Theorem C01_visible_after_226 : forall verb vm m off old block payload segs oracle flushes,
  verb_mode Gen.Xfer.facts verb = Some vm ->
  1 <= block -> concat segs = payload ->
  select_mode stor_modes vm (negb (off =? 0)) = Some m ->
  v_at_reply (v_run old (stor_script stor_reply_after_ctx stor_ctx m off
                                     (iter_blocks (sock_trace block oracle segs)) flushes))
  = Some (spec_store vm off payload old, false).
Proof. exact gen_visible_after_226. Qed.
Print Assumptions C01_visible_after_226.

Theorem C01_reply_after_close : forall ctx m off old blocks flushes,
  has_file ctx = true ->
  v_at_reply (v_run old (stor_script true ctx m off blocks flushes))
  = Some (h_content (fold_left (fun h d => h_write d h) blocks
                               (if off =? 0 then h_open m old else h_seek off (h_open m old))),
          false).
Proof. exact reply_after_close. Qed.
Print Assumptions C01_reply_after_close.

(* a later download on any session of the same backend state *)
Theorem C01_later_retr_sees_new_content : forall rtable vm off payload old off' block foracle cuts cblock coracle,
  retr_table_ok rtable -> 1 <= block -> 1 <= cblock ->
  e2e_retr rtable off' (spec_store vm off payload old) block foracle cuts cblock coracle
  = Some (skipn off' (spec_store vm off payload old)).
Proof. exact later_retr_sees_new_content. Qed.
Print Assumptions C01_later_retr_sees_new_content.

(* ---- the restart offset reaches exactly the next transfer command ----
   ostate = (pending restart_offset, transfer_offset handed to the last transfer command);
   verb_table / offset_handed / reset_exempt are the dispatcher's table and lists as extracted
   from today's source (EXEMPT is empty, the offset is handed to retr / stor / appe). *)
Theorem C01_rest_applies_to_next_transfer : forall hist s0 passive verb off,
  transfer_verb verb ->
  offset_after verb_table offset_handed reset_exempt (hist ++ get_stream_cmds passive verb off) s0 = mkO 0 off.
Proof. exact gen_rest_applies_to_next_transfer. Qed.
Print Assumptions C01_rest_applies_to_next_transfer.

(* ... and ONLY it: after any known command that follows the last REST, a transfer starts at 0 *)
Theorem C01_offset_applies_to_next_command_only : forall hist s0 x mid verb,
  assoc_s x verb_table <> None -> Forall not_rest mid -> transfer_verb verb ->
  offset_after verb_table offset_handed reset_exempt (hist ++ [CVerb x] ++ mid ++ [CVerb verb]) s0 = mkO 0 0.
Proof. exact gen_offset_applies_to_next_command_only. Qed.
Print Assumptions C01_offset_applies_to_next_command_only.

(* the second of two back-to-back transfer commands (no command in between) starts at 0 *)
Theorem C01_second_transfer_starts_at_0 : forall hist s0 passive verb1 off1 verb2,
  transfer_verb verb1 -> transfer_verb verb2 ->
  offset_after verb_table offset_handed reset_exempt
               ((hist ++ get_stream_cmds passive verb1 off1) ++ [CVerb verb2]) s0 = mkO 0 0.
Proof. exact gen_second_transfer_starts_at_0. Qed.
Print Assumptions C01_second_transfer_starts_at_0.

Theorem C01_back_to_back : forall hist s0 n verb1 verb2,
  transfer_verb verb1 -> transfer_verb verb2 ->
  transfer_trace verb_table offset_handed reset_exempt [CRest n; CVerb verb1; CVerb verb2]
                 (offset_after verb_table offset_handed reset_exempt hist s0) = [n; 0].
Proof. exact gen_back_to_back. Qed.
Print Assumptions C01_back_to_back.

(* a transfer command refused before its worker runs (550 / 503 / 425) consumes the offset all the
   same: no stale offset reaches the next transfer *)
Theorem C01_refused_transfer_consumes_offset : forall hist s0 n verb1 mid verb2,
  transfer_verb verb1 -> Forall not_rest mid -> transfer_verb verb2 ->
  offset_after verb_table offset_handed reset_exempt
               (hist ++ [CRest n; CVerb verb1] ++ mid ++ [CVerb verb2]) s0 = mkO 0 0.
Proof. exact gen_refused_transfer_consumes_offset. Qed.
Print Assumptions C01_refused_transfer_consumes_offset.

(* ---- stat / listing after the completion reply, whoever looked before ----
   `script` is stor_worker's statement sequence with SObserve steps (some session stats or lists the
   path and is told observed_size) inserted ANYWHERE: before the open, between writes, after the reply *)
Theorem C01_size_visible_after_226_whoever_looked : forall verb vm m off old block payload segs oracle flushes script,
  verb_mode Gen.Xfer.facts verb = Some vm ->
  1 <= block -> concat segs = payload ->
  select_mode stor_modes vm (negb (off =? 0)) = Some m ->
  strip_observe script
  = stor_script stor_reply_after_ctx stor_ctx m off (iter_blocks (sock_trace block oracle segs)) flushes ->
  v_at_reply (v_run old script) = Some (spec_store vm off payload old, false)
  /\ observed_size (v_run old script) = length (spec_store vm off payload old).
Proof. exact gen_visible_after_226_observed. Qed.
Print Assumptions C01_size_visible_after_226_whoever_looked.

(* ---- several files: an acknowledged file keeps its bytes ----
   fs = map from FULL names to contents; the names are arbitrary strings (x.csv / x.json / x.part /
   x.csv.part are four different keys). *)
Theorem C01_upload_touches_its_own_file_only : forall table f vm off n reads f' n',
  fs_upload table f vm off n reads = Some f' -> n' <> n -> fs_get f' n' = fs_get f n'.
Proof. exact fs_upload_frame. Qed.
Print Assumptions C01_upload_touches_its_own_file_only.

Theorem C01_acknowledged_file_survives : forall table f vm off n block payload reads later f1 f2,
  stor_table_ok table -> store_mode vm -> conforming block payload reads ->
  fs_upload table f vm off n reads = Some f1 ->
  fs_history table f1 later = Some f2 ->
  Forall (fun u => u_name u <> n) later ->
  fs_get f2 n = match fs_get f n with
                | Some old => Some (spec_store vm off payload old)
                | None => if off =? 0 then Some payload else None
                end.
Proof. exact acknowledged_file_survives. Qed.
Print Assumptions C01_acknowledged_file_survives.

(* two uploads in flight at once on different names: every schedule of their block writes leaves what
   the two uploads one after the other leave *)
Theorem C01_overlapping_uploads_independent : forall table f ua ub sched f1,
  u_name ua <> u_name ub ->
  fs_overlap table f ua ub sched = Some f1 ->
  fs_history table f [ua; ub] = Some f1.
Proof. exact overlap_is_sequential. Qed.
Print Assumptions C01_overlapping_uploads_independent.

(* ---- a backend fault at close ----
   close() of the file raises after flushing only k bytes (the buffered tail does not fit: quota, ENOSPC,
   EFBIG): the exception leaves the `async with`, the completion reply is never queued.  Together with
   C01_visible_after_226: a 226 was sent <=> the file was closed successfully and holds spec_store. *)
Theorem C01_close_failure_no_reply : forall ctx m off old blocks flushes k,
  v_at_reply (v_run old (stor_script_close_fails ctx m off blocks flushes k)) = None.
Proof. exact close_failure_no_reply. Qed.
Print Assumptions C01_close_failure_no_reply.

(* ---- a missing file ---- *)
(* REST n (n > 0) + STOR/APPE on a missing path: 451, nothing created, no 226 (inner None);
   without an offset the file is created and holds exactly the payload *)
Theorem C01_stor_missing_file : forall verb vm off block payload reads,
  verb_mode Gen.Xfer.facts verb = Some vm ->
  conforming block payload reads ->
  stor_worker_on stor_modes vm off None reads = Some (if off =? 0 then Some payload else None).
Proof. exact gen_stor_missing. Qed.
Print Assumptions C01_stor_missing_file.

Theorem C01_stor_existing_file : forall table vm off old reads,
  stor_worker_on table vm off (Some old) reads
  = match stor_worker table vm off old reads with Some c => Some (Some c) | None => None end.
Proof. exact stor_worker_on_existing. Qed.
Print Assumptions C01_stor_existing_file.

(* ---- the transfer loops as translated PROGRAMS ----
   `xf_*_prog Gen.Xfer.facts` are the bodies of stor_worker / retr_worker / upload() / download()
   as tools/py2v/gen_xfer.py translates them into the statement language of Lib/XferFacts.v;
   prog_* (Model/XferProg.v) interpret them.  These theorems are about the translated programs
   themselves, not about a transcription of them. *)
Theorem C01_source_programs :
  xf_stor_prog Gen.Xfer.facts = [XIfOffset [XSeek "FILE"]; XForBlocks "STREAM" "conn.block_size" [XWrite "FILE"]]
  /\ xf_retr_prog Gen.Xfer.facts = [XIfOffset [XSeek "FILE"]; XForBlocks "FILE" "conn.block_size" [XWrite "STREAM"]]
  /\ xf_upload_prog Gen.Xfer.facts = ("rb", [XForBlocks "FILE" "block_size" [XWrite "STREAM"]])
  /\ xf_download_prog Gen.Xfer.facts = ("wb", [XForBlocks "STREAM" "block_size" [XWrite "FILE"]]).
Proof. exact (conj gen_stor_prog (conj gen_retr_prog (conj gen_upload_prog gen_download_prog))). Qed.
Print Assumptions C01_source_programs.

(* the hand-written workers of Model/TransferBytes.v are the denotations of those programs *)
Theorem C01_model_is_program_denotation :
  (forall table vm off old reads,
     prog_stor (xf_stor_prog Gen.Xfer.facts) table vm off old reads = stor_worker table vm off old reads)
  /\ (forall table off content block foracle,
     prog_retr (xf_retr_prog Gen.Xfer.facts) table off content block foracle
     = retr_worker table off content block foracle)
  /\ (forall local cblock coracle,
     prog_upload (xf_upload_prog Gen.Xfer.facts) local cblock coracle
     = Some (client_upload_wire local cblock coracle))
  /\ (forall prev reads,
     prog_download (xf_download_prog Gen.Xfer.facts) prev reads = Some (client_download_file reads)).
Proof. exact gen_model_is_program_denotation. Qed.
Print Assumptions C01_model_is_program_denotation.

Theorem C01_stor_prog_exact : forall verb vm off old block payload reads,
  verb_mode Gen.Xfer.facts verb = Some vm ->
  conforming block payload reads ->
  prog_stor (xf_stor_prog Gen.Xfer.facts) stor_modes vm off old reads = Some (spec_store vm off payload old).
Proof. exact gen_prog_stor_exact. Qed.
Print Assumptions C01_stor_prog_exact.

Theorem C01_retr_prog_exact : forall off content block foracle,
  1 <= block ->
  prog_retr (xf_retr_prog Gen.Xfer.facts) retr_modes off content block foracle = Some (spec_retr off content).
Proof. exact gen_prog_retr_exact. Qed.
Print Assumptions C01_retr_prog_exact.

(* Client.upload(): whatever the local file, the block size and the local short reads, the bytes
   put on the data connection are the file *)
Theorem C01_upload_prog_exact : forall local cblock coracle,
  1 <= cblock ->
  prog_upload (xf_upload_prog Gen.Xfer.facts) local cblock coracle = Some local.
Proof. exact gen_prog_upload_exact. Qed.
Print Assumptions C01_upload_prog_exact.

(* Client.download(): whatever the destination held before, it holds the stream afterwards *)
Theorem C01_download_prog_exact : forall prev cblock s reads,
  conforming cblock s reads ->
  prog_download (xf_download_prog Gen.Xfer.facts) prev reads = Some s.
Proof. exact gen_prog_download_exact. Qed.
Print Assumptions C01_download_prog_exact.

(* ---- time: throttles, latency, silence, slow loop bodies do not enter the byte function ----
   `timing T` is ANY state type with ANY wait / append / work functions (Model/TransferTimed.v);
   a timed network gives every segment ANY arrival instant; `lat` gives every block ANY latency. *)
Theorem C01_timed_reads_conforming : forall T (tm : timing T) block rs st t0 net,
  1 <= block ->
  conforming block (net_bytes net) (map snd (timed_trace tm block rs st t0 net)).
Proof. exact timed_trace_conforming. Qed.
Print Assumptions C01_timed_reads_conforming.

Theorem C01_timed_stor_exact : forall T (tm : timing T) verb vm off old block rs st t0 net,
  verb_mode Gen.Xfer.facts verb = Some vm -> 1 <= block ->
  timed_stor tm stor_modes vm off old block rs st t0 net = Some (spec_store vm off (net_bytes net) old).
Proof. exact gen_timed_stor_exact. Qed.
Print Assumptions C01_timed_stor_exact.

Theorem C01_stor_timing_irrelevant : forall T1 (tm1 : timing T1) T2 (tm2 : timing T2) verb vm off old
    block1 rs1 st1 t1 net1 block2 rs2 st2 t2 net2,
  verb_mode Gen.Xfer.facts verb = Some vm -> 1 <= block1 -> 1 <= block2 ->
  net_bytes net1 = net_bytes net2 ->
  timed_stor tm1 stor_modes vm off old block1 rs1 st1 t1 net1
  = timed_stor tm2 stor_modes vm off old block2 rs2 st2 t2 net2.
Proof. exact gen_stor_timing_irrelevant. Qed.
Print Assumptions C01_stor_timing_irrelevant.

(* ... and the timed run stores what the untimed model of C01_stor_exact stores *)
Theorem C01_timed_stor_is_untimed : forall T (tm : timing T) verb vm off old block rs st t0 net
    block' segs oracle,
  verb_mode Gen.Xfer.facts verb = Some vm -> 1 <= block -> 1 <= block' ->
  concat segs = net_bytes net ->
  timed_stor tm stor_modes vm off old block rs st t0 net = e2e_stor stor_modes vm off old block' segs oracle.
Proof. exact gen_timed_stor_is_untimed. Qed.
Print Assumptions C01_timed_stor_is_untimed.

(* upload_stream / append_stream end to end: the client's (non-empty) chunks under the client's
   throttle, any latencies, the server's throttle *)
Theorem C01_timed_upload_exact : forall C (ctm : timing C) T (stm : timing T) verb vm off old chunks
    cst ct0 lat block rs sst st0,
  verb_mode Gen.Xfer.facts verb = Some vm -> 1 <= block ->
  Forall nonempty chunks ->
  timed_upload ctm stm stor_modes vm off old chunks cst ct0 lat block rs sst st0
  = Some (spec_store vm off (concat chunks) old).
Proof. exact gen_timed_upload_exact. Qed.
Print Assumptions C01_timed_upload_exact.

Theorem C01_timed_retr_exact : forall T (stm : timing T) C (ctm : timing C) off content block foracle
    sst st0 lat cblock crs cst ct0,
  1 <= block -> 1 <= cblock ->
  timed_retr stm ctm retr_modes off content block foracle sst st0 lat cblock crs cst ct0
  = Some (spec_retr off content).
Proof. exact gen_timed_retr_exact. Qed.
Print Assumptions C01_timed_retr_exact.

Theorem C01_retr_timing_irrelevant : forall T1 (stm1 : timing T1) C1 (ctm1 : timing C1)
    T2 (stm2 : timing T2) C2 (ctm2 : timing C2) off content
    block1 fo1 sst1 st1 lat1 cblock1 crs1 cst1 ct1
    block2 fo2 sst2 st2 lat2 cblock2 crs2 cst2 ct2,
  1 <= block1 -> 1 <= cblock1 -> 1 <= block2 -> 1 <= cblock2 ->
  timed_retr stm1 ctm1 retr_modes off content block1 fo1 sst1 st1 lat1 cblock1 crs1 cst1 ct1
  = timed_retr stm2 ctm2 retr_modes off content block2 fo2 sst2 st2 lat2 cblock2 crs2 cst2 ct2.
Proof. exact gen_retr_timing_irrelevant. Qed.
Print Assumptions C01_retr_timing_irrelevant.

(* ---- whole paths through the translated programs, timed ---- *)
(* upload(local) -> wire -> any timed network carrying the wire -> stor_worker's program *)
Theorem C01_upload_path_exact : forall T (stm : timing T) verb vm off old local cblock coracle wire
    net block rs sst st0,
  verb_mode Gen.Xfer.facts verb = Some vm ->
  1 <= cblock -> 1 <= block ->
  prog_upload (xf_upload_prog Gen.Xfer.facts) local cblock coracle = Some wire ->
  net_bytes net = wire ->
  prog_stor (xf_stor_prog Gen.Xfer.facts) stor_modes vm off old
            (map snd (timed_trace stm block rs sst st0 net))
  = Some (spec_store vm off local old).
Proof. exact gen_upload_path_exact. Qed.
Print Assumptions C01_upload_path_exact.

(* retr_worker's program -> wire -> any timed network carrying the wire -> download()'s program *)
Theorem C01_download_path_exact : forall C (ctm : timing C) off content block foracle wire
    net cblock crs cst ct0 prev,
  1 <= block -> 1 <= cblock ->
  prog_retr (xf_retr_prog Gen.Xfer.facts) retr_modes off content block foracle = Some wire ->
  net_bytes net = wire ->
  prog_download (xf_download_prog Gen.Xfer.facts) prev
                (map snd (timed_trace ctm cblock crs cst ct0 net))
  = Some (spec_retr off content).
Proof. exact gen_download_path_exact. Qed.
Print Assumptions C01_download_path_exact.

(* ---- how the CALLER consumes what it is handed (round 7) ----
   "whatever the way either side chunks its reads": the client API hands the caller a stream (download_stream /
   get_stream) or a path-io file object; the caller may take blocks with iter_by_block(n) with changing n, leave a
   loop before EOF (`break` after a header block), resume it, go on with read(k) / read() or a second loop.  A
   consumption PROGRAM is any list of CIter block k oracles / CRead n oracle steps, ended by a final read().
   `iter_take` is the denotation of today's AsyncStreamIterator (one `read_coro()` per __anext__ and nothing else:
   fact xf_iter_anext, pinned by C01_source_facts / check_xfer_shapes). *)
Theorem C01_retr_consumption_program_exact : forall table off content block foracle segs wire prog,
  retr_table_ok table -> 1 <= block ->
  retr_worker table off content block foracle = Some wire ->
  concat segs = wire ->
  Forall cop_ok prog ->
  sock_consume prog segs = spec_retr off content.
Proof. exact retr_consume_exact. Qed.
Print Assumptions C01_retr_consumption_program_exact.

Theorem C01_consumption_program_irrelevant : forall segs prog1 prog2,
  Forall cop_ok prog1 -> Forall cop_ok prog2 -> sock_consume prog1 segs = sock_consume prog2 segs.
Proof. exact retr_consume_program_irrelevant. Qed.
Print Assumptions C01_consumption_program_irrelevant.

(* a path-io file object (the source side of upload(), the server's RETR): from the position on, exactly the file *)
Theorem C01_file_consumption_program_exact : forall prog h,
  Forall cop_ok prog -> file_consume prog h = skipn (h_pos h) (h_content h).
Proof. exact file_consume_exact. Qed.
Print Assumptions C01_file_consumption_program_exact.

(* the old single-loop statement is the program [CIter cblock (enough) oracle]; and the dimension is not idle: an
   iterator that has already started the next read when it hands out a block loses that block when the loop is left *)
Example C01_consumption_program_nonvacuous :
  Forall cop_ok [CIter 2 1 [(1, 1)]; CRead 3 (0, 9); CIter 1 2 []]
  /\ sock_consume [CIter 2 1 [(1, 1)]; CRead 3 (0, 9); CIter 1 2 []] [[1; 2; 3]; [4; 5]; [6; 7; 8; 9]]%Z
     = [1; 2; 3; 4; 5; 6; 7; 8; 9]%Z.
Proof. split; [repeat constructor|vm_compute; reflexivity]. Qed.
Example C01_prefetching_iterator_loses_a_block :
  consume_with _ _ sock_rd sock_rest (iter_take_prefetching _ _ sock_rd (0, 0)) [CIter 2 1 [(0, 2); (0, 2)]] ([], [[1;2;3;4;5;6;7]%Z])
  = [1; 2; 5; 6; 7]%Z.
Proof. exact prefetching_iterator_loses_a_block. Qed.

(* ---- non-vacuity and necessity ---- *)
(* the hypotheses are satisfiable: a 7-byte payload in three segments, block size 3, short reads *)
Example C01_nonvacuous_stor :
  verb_mode Gen.Xfer.facts "appe" = Some AB
  /\ concat [[1; 2]; [3]; [255; 13; 10; 0]]%Z = [1; 2; 3; 255; 13; 10; 0]%Z
  /\ e2e_stor stor_modes AB 0 [7; 7]%Z 3 [[1; 2]; [3]; [255; 13; 10; 0]]%Z [(0, 1); (5, 2)]
     = Some [7; 7; 1; 2; 3; 255; 13; 10; 0]%Z
  /\ e2e_stor stor_modes AB 4 [7; 7]%Z 3 [[1; 2]; [3]; [255; 13; 10; 0]]%Z [(0, 1); (5, 2)]
     = Some [7; 7; 0; 0; 1; 2; 3; 255; 13; 10; 0]%Z
  /\ e2e_stor stor_modes WB 1 [7; 7; 7; 7; 7; 7; 7; 7; 7; 7]%Z 1 [[1; 2]; [3]]%Z []
     = Some [7; 1; 2; 3; 7; 7; 7; 7; 7; 7]%Z.
Proof. vm_compute. repeat split; reflexivity. Qed.

Example C01_nonvacuous_trace :
  sock_trace 3 [(0, 1); (5, 2)] [[1; 2]; [3]; [4; 5; 6; 7; 8]]%Z = [[1]; [2; 3]; [4; 5; 6]; [7; 8]; []]%Z
  /\ conforming 3 [1; 2; 3; 4; 5; 6; 7; 8]%Z [[1]; [2; 3]; [4; 5; 6]; [7; 8]; []]%Z.
Proof.
  split; [vm_compute; reflexivity|].
  exists [[1]; [2; 3]; [4; 5; 6]; [7; 8]]%Z. repeat split; repeat constructor; cbn; try congruence; auto with arith.
Qed.

Example C01_nonvacuous_retr :
  e2e_retr retr_modes 2 [1; 2; 3; 4; 5; 6; 7; 8; 9]%Z 4 [1; 9] [2; 0; 3] 2 [] = Some [3; 4; 5; 6; 7; 8; 9]%Z
  /\ e2e_retr retr_modes 9 [1; 2; 3; 4; 5; 6; 7; 8; 9]%Z 4 [] [] 2 [] = Some []
  /\ e2e_retr retr_modes 12 [1; 2; 3]%Z 4 [] [] 2 [] = Some [].
Proof. vm_compute. repeat split; reflexivity. Qed.

(* the read contract is necessary: a read that returns empty before EOF truncates the file *)
Example C01_nonconforming_read_truncates :
  h_content (stor_loop (h_open WB []) [[1%Z]; []; [2%Z]; []]) = [1%Z].
Proof. exact nonconforming_truncates. Qed.

(* the reply position is necessary: with the 226 inside the `async with`, a buffering backend
   shows other sessions a stale (here: truncated, empty) file when the reply is queued *)
Example C01_reply_inside_ctx_is_stale :
  v_at_reply (v_run [9%Z] (stor_script false ["FILE"; "STREAM"] WB 0 [[1%Z]; [2%Z]] []))
  = Some ([], true).
Proof. exact reply_inside_ctx_stale. Qed.

(* the former F14 witness, REST 4; RETR; RETR: the workers now read 4, then 0 *)
Example C01_back_to_back_witness :
  transfer_trace [("rest", "rest"); ("retr", "retr")] ["retr"; "stor"; "appe"] []
                 [CRest 4; CVerb "retr"; CVerb "retr"] (mkO 0 0) = [4; 0].
Proof. exact back_to_back_trace. Qed.

(* why EXEMPT must be empty: with the lists of the pre-F14 source the offset is still pending
   when the second RETR's worker looks *)
Example C01_exempt_list_reuses_offset :
  o_restart (offset_after [("rest", "rest"); ("retr", "retr")] [] ["retr"; "stor"; "appe"]
                          [CRest 4; CVerb "retr"; CVerb "retr"] (mkO 0 0)) = 4.
Proof. exact exempt_list_reuses_offset. Qed.

(* an unknown verb (502) does not consume the pending offset *)
Example C01_unknown_verb_keeps_offset :
  transfer_trace [("rest", "rest"); ("retr", "retr")] ["retr"; "stor"; "appe"] []
                 [CRest 4; CVerb "noop"; CVerb "retr"] (mkO 0 0) = [4].
Proof. exact unknown_verb_keeps_offset. Qed.

(* time is not inert in the model: the same three segments read early or late give different
   read traces (same concatenation) *)
Example C01_time_changes_the_trace :
  map snd (timed_trace scripted 4 [] [] 0%Q [(0%Q, [1; 2]%Z); (5%Q, [3%Z]); (9%Q, [4; 5; 6]%Z)])
    = [[1; 2]; [3]; [4; 5; 6]; []]%Z
  /\ map snd (timed_trace scripted 4 [] [inject_Z 10] 0%Q [(0%Q, [1; 2]%Z); (5%Q, [3%Z]); (9%Q, [4; 5; 6]%Z)])
    = [[1; 2; 3; 4]; [5; 6]; []]%Z.
Proof. exact timing_changes_the_trace. Qed.

(* the interpreter discriminates: one statement away from today's programs *)
Example C01_prog_without_seek_is_wrong :
  prog_stor [XForBlocks "STREAM" "conn.block_size" [XWrite "FILE"]] expected_stor_modes WB 2
            [7; 7; 7; 7]%Z [[1; 2]%Z; []]
  = Some [1; 2; 7; 7]%Z
  /\ spec_store WB 2 [1; 2]%Z [7; 7; 7; 7]%Z = [7; 7; 1; 2]%Z.
Proof. exact prog_without_seek_is_wrong. Qed.

Example C01_prog_seek_after_loop_is_wrong :
  prog_retr [XForBlocks "FILE" "conn.block_size" [XWrite "STREAM"]; XIfOffset [XSeek "FILE"]]
            expected_retr_modes 2 [1; 2; 3; 4]%Z 3 []
  = Some [1; 2; 3; 4]%Z
  /\ spec_retr 2 [1; 2; 3; 4]%Z = [3; 4]%Z.
Proof. exact prog_seek_after_loop_is_wrong. Qed.

Example C01_prog_unclassified_has_no_result :
  prog_stor [XIfOffset [XSeek "FILE"]; XOther "x = 1"; XForBlocks "STREAM" "conn.block_size" [XWrite "FILE"]]
            expected_stor_modes WB 0 [] [[1%Z]; []] = None
  /\ prog_stor [XIfOffset [XSeek "FILE"]; XForBlocks "STREAM" "conn.block_size - 1" [XWrite "FILE"]]
            expected_stor_modes WB 0 [] [[1%Z]; []] = None.
Proof. exact prog_unclassified_has_no_result. Qed.

(* siblings that differ in the last suffix only, and a stored x.part, are different files *)
Example C01_sibling_names_are_different_files :
  fs_history expected_stor_modes [("x.part", [9%Z])]
             [mkUp WB 0 "x.csv" [[1%Z]; []]; mkUp WB 0 "x.json" [[2%Z]; []]; mkUp AB 0 "x.csv" [[3%Z]; []]]
  = Some [("x.part", [9%Z]); ("x.csv", [1%Z; 3%Z]); ("x.json", [2%Z])].
Proof. vm_compute. reflexivity. Qed.
