(* C08 — File and directory names mean the same thing in every command and reply.
   Property statements only; proofs live in Proofs/Names.v. *)
From Coq Require Import ZArith List Bool.
From Verif Require Import Lib.Sx Lib.PyStr Lib.PosixPath Model.Framing Model.Paths Model.Names
  Proofs.PosixPathFacts Proofs.Framing Proofs.Paths Proofs.Names.
Import ListNotations.
Open Scope Z_scope.

(* valid_name n: non-empty, not '.', not '..', no '/', NUL, CR, LF, no trailing Python whitespace.
   valid_path p: relative or '/'-anchored, depth >= 1, every component a valid_name.
   Everything below holds for names of any length made of any code points. *)

(* every path-taking command: the line the client builds is cut off the stream exactly, and the
   server parses it back to the lower-cased verb and exactly the path the client meant *)
Theorem C08_cmd_path_roundtrip : forall verb p k,
  verb <> [] -> nows verb -> valid_path p ->
  split_lines (client_cmd verb p ++ k) = client_cmd verb p :: split_lines k
  /\ server_arg (client_cmd verb p) = Some (lower verb, p).
Proof. exact cmd_path_roundtrip. Qed.
Print Assumptions C08_cmd_path_roundtrip.

(* ... and resolves it to exactly those components (below the working directory when relative) *)
Theorem C08_cmd_path_resolved : forall base cwd p, normal cwd -> valid_path p ->
  get_paths base cwd (to_str p)
  = let v := if is_absolute p then parts p else parts cwd ++ parts p in
    Some (mkp (anchor base) (parts base ++ v), mkp 1 v).
Proof. exact cmd_path_resolved. Qed.
Print Assumptions C08_cmd_path_resolved.

(* MLSD line: facts without a space, one space, the name: the client gets exactly the name
   (leading spaces, ';', '=', 'Type=dir;', digits included) and joins it to the listed directory;
   Some = no ValueError (a line without a pathname is one since the F12 repair) *)
Theorem C08_mlsd_name_roundtrip : forall (F name : text) dir, nosp F -> valid_name name ->
  option_map fst (parse_mlsx_line (F ++ SP :: name ++ eol)) = Some (mkp 0 [name])
  /\ option_map (fun r => lister_join dir (fst r)) (parse_mlsx_line (F ++ SP :: name ++ eol))
     = Some (mkp (anchor dir) (parts dir ++ [name])).
Proof. exact mlsd_name_roundtrip. Qed.
Print Assumptions C08_mlsd_name_roundtrip.

Theorem C08_build_mlsx_shape : forall facts name,
  Forall (fun kv => nosp (fst kv) /\ nosp (snd kv)) facts ->
  exists F, build_mlsx facts name = F ++ SP :: name /\ nosp F.
Proof. exact build_mlsx_shape. Qed.
Print Assumptions C08_build_mlsx_shape.

(* MLST: through write_response (list mode), the client's parse_response (C06) and
   info[1].lstrip(); the fact string is non-empty and whitespace-free (it always has Type=...;) *)
Theorem C08_mlst_name_roundtrip : forall code (start fin F name : text) k,
  good_code code -> lf_free start -> lf_free fin -> lf_free F ->
  F <> [] -> nows F -> valid_name name ->
  exists info rest,
    parse_response (split_lines (reply_wire (code, [start; F ++ SP :: name; fin], true) ++ k))
      = POk code info rest
    /\ rest = split_lines k
    /\ option_map fst (stat_parse info) = Some (mkp 0 [name]).
Proof. exact mlst_name_roundtrip. Qed.
Print Assumptions C08_mlst_name_roundtrip.

(* PWD, FULL STATEMENT: for every well-formed directory whose string has no LF -- double quotes
   anywhere in it: leading, trailing, doubled, in runs -- the client's get_current_directory returns
   exactly the server's working directory: Server.pwd (every quote doubled, the string quoted),
   write_response, readline/parse_response with its rstrip (C06), parse_directory_response
   (undoubling; stops at the first unpaired quote).  No hypothesis on quotes is left (F08 repaired). *)
Theorem C08_pwd_roundtrip : forall code cwd k,
  good_code code -> wf cwd -> lf_free (to_str cwd) ->
  exists info rest,
    parse_response (split_lines (reply_wire (code, [pwd_info cwd], false) ++ k)) = POk code info rest
    /\ rest = split_lines k
    /\ parse_directory_response (last info []) = cwd.
Proof. exact pwd_roundtrip. Qed.
Print Assumptions C08_pwd_roundtrip.

(* the paths of the property are among them: valid_path implies wf and LF-free *)
Theorem C08_pwd_roundtrip_valid : forall code cwd k,
  good_code code -> valid_path cwd ->
  exists info rest,
    parse_response (split_lines (reply_wire (code, [pwd_info cwd], false) ++ k)) = POk code info rest
    /\ rest = split_lines k
    /\ parse_directory_response (last info []) = cwd.
Proof. exact pwd_roundtrip_valid. Qed.
Print Assumptions C08_pwd_roundtrip_valid.

(* the exact negation of the statement that was refuted before the repair *)
Theorem C08_pwd_line_roundtrip : forall cwd, wf cwd ->
  parse_directory_response (rstrip (SP :: pwd_info cwd)) = cwd.
Proof. exact pwd_line_roundtrip. Qed.
Print Assumptions C08_pwd_line_roundtrip.

(* the parser alone: text after the closing quote (257 <quoted> created) is never looked at *)
Theorem C08_pwd_trailing_text_ignored : forall d c rest, (c =? QUOTE) = false ->
  pdr (SP :: QUOTE :: dbl d ++ QUOTE :: c :: rest) false O [] = d.
Proof. exact pdr_quoted_trailing. Qed.
Print Assumptions C08_pwd_trailing_text_ignored.

(* LIST fallback (only used against servers without MLSD, or with raw_command="LIST").
   PARTIAL: missing exactly the names with LEADING whitespace (the parser strip()s the column, F13);
   not modelled: the symlink branch, parse_unix_mode / parse_ls_date raising (C07). *)
Theorem C08_list_name_roundtrip_partial : forall (mode nlink size mtime name : text) t m',
  mode = t :: m' -> length m' = 9%nat -> (t =? 108) = false -> nows mode ->
  digits nlink -> digits size ->
  length mtime = 12%nat -> (exists c r, mtime = c :: r /\ is_space c = false) ->
  valid_name name -> lstrip name = name ->
  list_name (build_list mode nlink size mtime name ++ eol) = Some (t, name)
  /\ list_parse (build_list mode nlink size mtime name ++ eol) = Some (mkp 0 [name]).
Proof. exact list_name_roundtrip_partial. Qed.
Print Assumptions C08_list_name_roundtrip_partial.

(* ... and the path the lister yields for the entry is dir / name for EVERY listed path dir -- relative
   or absolute, one component or many, also a directory carrying the entry's own name (x/x) *)
Theorem C08_list_entry_path_partial : forall (mode nlink size mtime name : text) t m' dir,
  mode = t :: m' -> length m' = 9%nat -> (t =? 108) = false -> nows mode ->
  digits nlink -> digits size ->
  length mtime = 12%nat -> (exists c r, mtime = c :: r /\ is_space c = false) ->
  valid_name name -> lstrip name = name ->
  option_map (lister_join dir) (list_parse (build_list mode nlink size mtime name ++ eol))
  = Some (mkp (anchor dir) (parts dir ++ [name])).
Proof. exact list_entry_path_partial. Qed.
Print Assumptions C08_list_entry_path_partial.

Theorem C08_list_name_leading_space_refuted :
  valid_name sp_name /\
  list_name (build_list [45;114;119;45;114;119;45;114;119;45] [49] [48]
                        [74;97;110;32;32;49;32;48;48;58;48;48] sp_name ++ eol)
  = Some (45, [120]).
Proof. exact list_name_leading_space_refuted. Qed.
Print Assumptions C08_list_name_leading_space_refuted.

(* non-vacuity: a name full of metacharacters is a valid_name:  ' 250-Type=dir; a=b -> c' *)
Example C08_ex_meta_name_valid :
  valid_name [32;50;53;48;45;84;121;112;101;61;100;105;114;59;32;97;61;98;32;45;62;32;99].
Proof. repeat split; try discriminate. Qed.
Example C08_ex_valid_path : valid_path (mkp 1 [[97;32;98]; [59;61]]).
Proof.
  split; [right; reflexivity|split; [discriminate|]].
  repeat constructor; try discriminate.
Qed.

(* the former counterexamples are inside the hypotheses: a<q>b, <q>, <q><q>, x<q>, <q>x, <q><q><q>,
   <q>a<q><q>b<q> are valid names, the path made of all of them is a valid_path, and on the wire
   the server spells a<q>b with the quote doubled *)
Example C08_ex_quote_names_valid : Forall valid_name quote_names.
Proof. exact quote_names_valid. Qed.
Example C08_ex_quote_path_valid : valid_path (mkp 1 quote_names).
Proof. exact quote_path_valid. Qed.
Example C08_ex_quote_path_roundtrip :
  parse_directory_response (rstrip (SP :: pwd_info (mkp 1 quote_names))) = mkp 1 quote_names.
Proof. apply pwd_line_roundtrip. apply valid_path_wf. exact quote_path_valid. Qed.
Example C08_ex_pwd_info_doubles :
  pwd_info (mkp 1 [[97; 34; 98]]) = [34; 47; 97; 34; 34; 98; 34].
Proof. reflexivity. Qed.

(* ====================================================================================== *)
(* The composed statement: every path-taking command of a session denotes the SAME node.
   Sequential session model Model/Session.v (step over the world with the abstract tree, the
   reference dispatch table re-checked against today's server.py below), driven by the lines the
   client builds (client_cmd), parsed by the server's parse_command (ev_of_line), arguments
   resolved by Session.resolve; replies through pwd_info / parse_directory_response / the C06
   framing and build_mlsx / parse_mlsx_line.  Proofs in Proofs/NamesCompose.v.
   In Model/Session.v names are abstract text segments, so the tree part is bookkeeping; the
   weight is in C08_resolve_to_str + C08_event_of_client_line (the segments the server acts on are
   exactly the client's) and in the reply codecs above. *)
From Coq Require Import String.
From Verif Require Import Lib.Facts Model.Multi Proofs.TreeFrame Proofs.GenTable Proofs.NamesCompose Gen.Dispatch.
From Verif Require Import Model.Session Model.NamesSession.
Open Scope list_scope.

(* the decorator table the session model runs on is the one regenerated from server.py today *)
Theorem C08_session_table_is_reference : table_eqb gen_table ref_table = true.
Proof. vm_compute. reflexivity. Qed.
Print Assumptions C08_session_table_is_reference.

(* the server's resolver sends the string of a client path to exactly the client's segments *)
Theorem C08_resolve_to_str : forall cwd p, valid_path p ->
  Session.resolve cwd (to_str p) = target cwd p.
Proof. exact resolve_to_str. Qed.
Print Assumptions C08_resolve_to_str.

(* the event the dispatcher gets from the client's line: lower-cased verb, the path string *)
Theorem C08_event_of_client_line : forall verb p d, verb <> [] -> nows verb -> valid_path p ->
  ev_of_line (client_cmd verb p) d = Some {| e_verb := lower verb; e_arg := to_str p; e_data := d |}.
Proof. exact ev_of_client_cmd. Qed.
Print Assumptions C08_event_of_client_line.

(* FULL composed statement.  For every user table, every logged-in world w with working directory cwd
   (any depth), every valid path p (relative or absolute, any depth, any code points) whose node is
   par/n with par an existing directory in which n is free and below which the user may read and write:
   MKD creates exactly par/n; CWD enters it and PWD reports it; MLSD of the parent lists exactly one
   entry named n whose line decodes to n and whose yielded path denotes the node; MLST asks the
   backend about exactly it and its reply decodes to n; STOR p/f then RETR p/f round-trips the bytes
   through the node par/n/f and DELE removes exactly it; RNFR p, RNTO q moves it to the free sibling
   par/m; RMD removes exactly it (the tree is the one before MKD). *)
Theorem C08_name_transparent : forall users ui u, nth_error users ui = Some u ->
  forall w cwd p par n ch,
    ready ui w cwd -> valid_path p -> target cwd p = par ++ [n] ->
    (forall q, rw u (par ++ q)) -> Forall valid_name par ->
    lookup par (w_fs w) = Some (NDir ch) -> assoc_t n ch = None ->
    valid_name n /\
    exists w1 o1,
      cstep users w (client_cmd (t_of "MKD") p) DNone = Some (w1, o1) /\ o_codes o1 = [code "257"] /\
      w_fs w1 = graft par (NDir (ch ++ [(n, NDir [])])) (w_fs w) /\
      lookup (par ++ [n]) (w_fs w1) = Some (NDir []) /\ ready ui w1 cwd /\
      (exists w2 o2 w3 o3,
         cstep users w1 (client_cmd (t_of "CWD") p) DNone = Some (w2, o2) /\ o_codes o2 = [code "250"] /\
         s_cwd (w_s w2) = par ++ [n] /\
         cstep users w2 (t_of "PWD" ++ eol) DNone = Some (w3, o3) /\ o_codes o3 = [code "257"] /\
         (forall k, exists info rest,
            parse_response (split_lines (reply_wire (t_of "257", [pwd_info (mkp 1 (s_cwd (w_s w3)))], false) ++ k))
              = POk (t_of "257") info rest
            /\ rest = split_lines k /\ parse_directory_response (last info []) = mkp 1 (par ++ [n]))) /\
      (forall la, list_arg la -> Session.resolve cwd la = par ->
         exists w' oa ob o,
           irun users w1 (prep ++ [ILine (list_cmd (t_of "MLSD") la) DNone]) = Some (w', [oa; ob; o]) /\
           o_listing o = Some (map entry ch ++ [(n, true, 0)]) /\
           filter (named n) (map entry ch ++ [(n, true, 0)]) = [(n, true, 0)] /\ w_fs w' = w_fs w1) /\
      (forall F, nosp F -> option_map fst (parse_mlsx_line (F ++ SP :: n ++ eol)) = Some (mkp 0 [n])) /\
      (forall q, target cwd q = par -> target cwd (joinp q (mkp 0 [n])) = par ++ [n]) /\
      (exists w' o, cstep users w1 (client_cmd (t_of "MLST") p) DNone = Some (w', o) /\ o_codes o = [code "250"] /\
         w_log w' = w_log w1 ++ [("exists"%string, par ++ [n]); ("stat"%string, par ++ [n])] /\ w_fs w' = w_fs w1) /\
      (forall c start fin F k, good_code c -> lf_free start -> lf_free fin -> lf_free F -> F <> [] -> nows F ->
         exists info rest,
           parse_response (split_lines (reply_wire (c, [start; F ++ SP :: n; fin], true) ++ k)) = POk c info rest
           /\ rest = split_lines k /\ option_map fst (stat_parse info) = Some (mkp 0 [n])) /\
      (forall pf f bytes, valid_path pf -> target cwd pf = (par ++ [n]) ++ [f] ->
         exists w' o1 o2 o3 o4 o5 o6,
           irun users w1 (prep ++ [ILine (client_cmd (t_of "STOR") pf) (DSend bytes)] ++
                          prep ++ [ILine (client_cmd (t_of "RETR") pf) DNone]) = Some (w', [o1; o2; o3; o4; o5; o6]) /\
           o_bytes o6 = Some bytes /\ lookup ((par ++ [n]) ++ [f]) (w_fs w') = Some (NFile bytes) /\
           exists w'' o, cstep users w' (client_cmd (t_of "DELE") pf) DNone = Some (w'', o) /\ o_codes o = [code "250"] /\
             w_fs w'' = w_fs w1) /\
      (forall q m, valid_path q -> target cwd q = par ++ [m] -> assoc_t m ch = None -> m <> n ->
         exists w' oa ob,
           irun users w1 [ILine (client_cmd (t_of "RNFR") p) DNone; ILine (client_cmd (t_of "RNTO") q) DNone]
             = Some (w', [oa; ob]) /\ o_codes oa = [code "350"] /\ o_codes ob = [code "250"] /\
           w_fs w' = graft par (NDir (ch ++ [(m, NDir [])])) (w_fs w) /\
           lookup (par ++ [m]) (w_fs w') = Some (NDir []) /\ lookup (par ++ [n]) (w_fs w') = None) /\
      (exists w' o, cstep users w1 (client_cmd (t_of "RMD") p) DNone = Some (w', o) /\ o_codes o = [code "250"] /\
         w_fs w' = w_fs w).
Proof. exact name_transparent. Qed.
Print Assumptions C08_name_transparent.

(* the per-command statements it is composed of hold from EVERY ready world (not only right after MKD):
   entering and reporting any existing directory ... *)
Theorem C08_nt_cwd_pwd : forall users ui u, nth_error users ui = Some u ->
  forall w cwd p P chP,
    ready ui w cwd -> valid_path p -> target cwd p = P -> rw u P -> lookup P (w_fs w) = Some (NDir chP) ->
    P <> [] -> Forall valid_name P ->
    exists w2 o2 w3 o3,
      cstep users w (client_cmd (t_of "CWD") p) DNone = Some (w2, o2) /\ o_codes o2 = [code "250"] /\
      s_cwd (w_s w2) = P /\
      cstep users w2 (t_of "PWD" ++ eol) DNone = Some (w3, o3) /\ o_codes o3 = [code "257"] /\
      w_fs w3 = w_fs w /\ ready ui w3 P /\
      (forall k, exists info rest,
         parse_response (split_lines (reply_wire (t_of "257", [pwd_info (mkp 1 (s_cwd (w_s w3)))], false) ++ k))
           = POk (t_of "257") info rest
         /\ rest = split_lines k /\ parse_directory_response (last info []) = mkp 1 P) /\
      target (s_cwd (w_s w3)) (mkp 1 P) = P /\
      (* the text Model/Session.v records for the 257 reply is the reply of Model/Names.v (quotes doubled) *)
      o_info o3 = pwd_info (mkp 1 P).
Proof. exact nt_cwd_pwd. Qed.
Print Assumptions C08_nt_cwd_pwd.

(* ... listing any existing directory, with MLSD and with the LIST fallback: the session part is
   the same for both verbs (the model's listing of exactly that node); the carve-out of the LIST
   fallback is on the client's decoding side only: C08_list_name_roundtrip_partial needs
   lstrip name = name, C08_list_name_leading_space_refuted shows it is needed (F13) *)
Theorem C08_nt_listing : forall users ui u, nth_error users ui = Some u ->
  forall (U l okc : string) w cwd la D chD,
    (U = "MLSD" /\ l = "mlsd" /\ okc = "200" \/ U = "LIST" /\ l = "list" /\ okc = "226")%string ->
    ready ui w cwd -> list_arg la -> Session.resolve cwd la = D -> rw u D -> lookup D (w_fs w) = Some (NDir chD) ->
    exists w' oa ob o,
      irun users w (prep ++ [ILine (list_cmd (t_of U) la) DNone]) = Some (w', [oa; ob; o]) /\
      o_codes o = [code "150"; code okc] /\ o_listing o = Some (map entry chD) /\
      w_fs w' = w_fs w /\ ready ui w' cwd.
Proof. exact nt_listing. Qed.
Print Assumptions C08_nt_listing.

(* ... storing to a free name below any existing directory and reading it back ... *)
Theorem C08_nt_stor_retr : forall users ui u, nth_error users ui = Some u ->
  forall w cwd pf D f chD bytes,
    ready ui w cwd -> valid_path pf -> target cwd pf = D ++ [f] -> rw u (D ++ [f]) ->
    lookup D (w_fs w) = Some (NDir chD) -> assoc_t f chD = None ->
    exists w' o1 o2 o3 o4 o5 o6,
      irun users w (prep ++ [ILine (client_cmd (t_of "STOR") pf) (DSend bytes)] ++
                    prep ++ [ILine (client_cmd (t_of "RETR") pf) DNone]) = Some (w', [o1; o2; o3; o4; o5; o6]) /\
      o_codes o3 = [code "150"; code "226"] /\ o_codes o6 = [code "150"; code "226"] /\ o_bytes o6 = Some bytes /\
      w_fs w' = graft D (NDir (chD ++ [(f, NFile bytes)])) (w_fs w) /\
      lookup D (w_fs w') = Some (NDir (chD ++ [(f, NFile bytes)])) /\
      lookup (D ++ [f]) (w_fs w') = Some (NFile bytes) /\ ready ui w' cwd.
Proof. exact nt_stor_retr. Qed.
Print Assumptions C08_nt_stor_retr.

(* ... and names denote DISTINCT objects: the upload leaves every sibling g <> f of the directory exactly
   as it was, whatever g is (f with a suffix such as .part, .tmp, ~, or a prefix): nothing is created,
   changed or removed under another name on the way *)
Theorem C08_nt_stor_sibling_untouched : forall users ui u, nth_error users ui = Some u ->
  forall w cwd pf D f chD bytes,
    ready ui w cwd -> valid_path pf -> target cwd pf = D ++ [f] -> rw u (D ++ [f]) ->
    lookup D (w_fs w) = Some (NDir chD) -> assoc_t f chD = None ->
    exists w' outs,
      irun users w (prep ++ [ILine (client_cmd (t_of "STOR") pf) (DSend bytes)] ++
                    prep ++ [ILine (client_cmd (t_of "RETR") pf) DNone]) = Some (w', outs) /\
      lookup (D ++ [f]) (w_fs w') = Some (NFile bytes) /\
      forall g, g <> f -> lookup (D ++ [g]) (w_fs w') = lookup (D ++ [g]) (w_fs w).
Proof. exact nt_stor_sibling_untouched. Qed.
Print Assumptions C08_nt_stor_sibling_untouched.

(* ... renaming any existing node to a free sibling name *)
Theorem C08_nt_rename : forall users ui u, nth_error users ui = Some u ->
  forall w cwd p q par n m ch x,
    ready ui w cwd -> valid_path p -> valid_path q -> target cwd p = par ++ [n] -> target cwd q = par ++ [m] ->
    rw u (par ++ [n]) -> rw u (par ++ [m]) ->
    lookup par (w_fs w) = Some (NDir ch) -> assoc_t n ch = Some x -> assoc_t m ch = None ->
    exists w' o1 o2,
      irun users w [ILine (client_cmd (t_of "RNFR") p) DNone; ILine (client_cmd (t_of "RNTO") q) DNone] = Some (w', [o1; o2]) /\
      o_codes o1 = [code "350"] /\ o_codes o2 = [code "250"] /\
      w_fs w' = graft par (NDir (remove_t n ch ++ [(m, x)])) (w_fs w) /\ ready ui w' cwd.
Proof. exact nt_rename. Qed.
Print Assumptions C08_nt_rename.

(* ... and renaming between DIFFERENT directories, for ANY spelling of the two paths (bare, relative with a slash,
   absolute -- the statement only sees their targets) and ANY working directory: out of the subdirectory d of par
   into par (rename("box/old", "new")): the node is at par/m, d lost exactly that entry, nothing else changed ... *)
Theorem C08_nt_rename_out : forall users ui u, nth_error users ui = Some u ->
  forall w cwd p q par d n m ch chd x,
    ready ui w cwd -> valid_path p -> valid_path q -> target cwd p = par ++ [d; n] -> target cwd q = par ++ [m] ->
    rw u (par ++ [d; n]) -> rw u (par ++ [m]) ->
    lookup par (w_fs w) = Some (NDir ch) -> assoc_t d ch = Some (NDir chd) -> assoc_t n chd = Some x ->
    assoc_t m ch = None ->
    exists w' o1 o2,
      irun users w [ILine (client_cmd (t_of "RNFR") p) DNone; ILine (client_cmd (t_of "RNTO") q) DNone] = Some (w', [o1; o2]) /\
      o_codes o1 = [code "350"] /\ o_codes o2 = [code "250"] /\
      w_fs w' = graft par (NDir (replace_t d (NDir (remove_t n chd)) ch ++ [(m, x)])) (w_fs w) /\
      lookup (par ++ [m]) (w_fs w') = Some x /\
      lookup (par ++ [d; n]) (w_fs w') = assoc_t n (remove_t n chd) /\ ready ui w' cwd.
Proof. exact nt_rename_out. Qed.
Print Assumptions C08_nt_rename_out.

(* ... and from par into its subdirectory d *)
Theorem C08_nt_rename_into : forall users ui u, nth_error users ui = Some u ->
  forall w cwd p q par d n m ch chd x,
    ready ui w cwd -> valid_path p -> valid_path q -> target cwd p = par ++ [n] -> target cwd q = par ++ [d; m] ->
    rw u (par ++ [n]) -> rw u (par ++ [d; m]) ->
    lookup par (w_fs w) = Some (NDir ch) -> assoc_t d ch = Some (NDir chd) -> assoc_t n ch = Some x ->
    assoc_t m chd = None -> n <> d ->
    exists w' o1 o2,
      irun users w [ILine (client_cmd (t_of "RNFR") p) DNone; ILine (client_cmd (t_of "RNTO") q) DNone] = Some (w', [o1; o2]) /\
      o_codes o1 = [code "350"] /\ o_codes o2 = [code "250"] /\
      w_fs w' = graft par (NDir (replace_t d (NDir (chd ++ [(m, x)])) (remove_t n ch))) (w_fs w) /\
      lookup (par ++ [d; m]) (w_fs w') = Some x /\ ready ui w' cwd.
Proof. exact nt_rename_into. Qed.
Print Assumptions C08_nt_rename_into.

(* non-vacuity: the hypotheses of C08_name_transparent hold together for the names a<q>b, <space>x,
   Type=dir; y, 250 z, spelled relative to the working directory "/ x" and absolutely (depth 2), and
   the model runs on the client's lines for them *)
Example C08_ex_compose_hypotheses :
  nth_error ex_users 0 = Some ex_user /\
  Forall (fun n =>
    Forall (fun p =>
      ready 0 ex_w [n_sp] /\ valid_path p /\ target [n_sp] p = [n_sp] ++ [n] /\
      (forall q, rw ex_user ([n_sp] ++ q)) /\ Forall valid_name [n_sp] /\
      lookup [n_sp] (w_fs ex_w) = Some (NDir []) /\ assoc_t n ([] : list (text * node)) = None)
    [mkp 0 [n]; mkp 1 [n_sp; n]]) ex_names.
Proof. exact ex_hypotheses. Qed.
Example C08_ex_compose_run :
  option_map (fun r => (w_fs (fst r), s_cwd (w_s (fst r))))
    (irun ex_users ex_w
       [ILine (client_cmd (t_of "MKD") (mkp 0 [n_q])) DNone;
        ILine (client_cmd (t_of "MKD") (mkp 1 [n_sp; n_sp])) DNone;
        ILine (client_cmd (t_of "MKD") (mkp 0 [n_ty])) DNone;
        ILine (client_cmd (t_of "MKD") (mkp 1 [n_sp; n_250])) DNone;
        ILine (client_cmd (t_of "CWD") (mkp 0 [n_ty])) DNone])
  = Some (NDir [(n_sp, NDir [(n_q, NDir []); (n_sp, NDir []); (n_ty, NDir []); (n_250, NDir [])])],
          [n_sp; n_ty]).
Proof. exact ex_run. Qed.

(* the quantifier includes a name equal to its ancestors' names: the hypotheses hold for n = a<q>b below
   the working directory /a<q>b/a<q>b (the node n/n/n), spelled relatively *)
Example C08_ex_same_name_nested :
  ready 0 ex_w_nested [n_q; n_q] /\ valid_path (mkp 0 [n_q]) /\ target [n_q; n_q] (mkp 0 [n_q]) = [n_q; n_q] ++ [n_q] /\
  (forall q, rw ex_user ([n_q; n_q] ++ q)) /\ Forall valid_name [n_q; n_q] /\
  lookup [n_q; n_q] (w_fs ex_w_nested) = Some (NDir []) /\ assoc_t n_q ([] : list (text * node)) = None.
Proof. exact ex_same_name_nested. Qed.

(* Not covered by the composed theorem: RNTO between directories that are not parent and child (C08_nt_rename_out / _into cover those), paths spelled with '..', STOR onto an existing file /
   APPE / REST offsets (C05, C09), permission refusals (C04), concurrency (C17); what Model/Session.v
   abstracts (the data-channel bytes of a listing, the facts of an entry) enters through the codec
   theorems only. *)
