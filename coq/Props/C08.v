(* C08 — File and directory names mean the same thing in every command and reply.
   Property statements only; proofs live in Proofs/Names.v. *)
From Coq Require Import ZArith List Bool.
From Verif Require Import Lib.Sx Lib.PyStr Lib.PosixPath Model.Framing Model.Paths Model.Names
  Proofs.PosixPathFacts Proofs.Framing Proofs.Paths Proofs.Names.
Import ListNotations.
Open Scope Z_scope.

(* valid_name n: non-empty, not '.', not '..', no '/', NUL, CR, LF, no trailing Python whitespace.
   valid_path p: relative or '/'-anchored, depth >= 1, every component a valid_name.
   Everything below holds for names of any length made of any code points. *)

(* every path-taking command: the line the client builds is cut off the stream exactly, and the
   server parses it back to the lower-cased verb and exactly the path the client meant *)
Theorem C08_cmd_path_roundtrip : forall verb p k,
  verb <> [] -> nows verb -> valid_path p ->
  split_lines (client_cmd verb p ++ k) = client_cmd verb p :: split_lines k
  /\ server_arg (client_cmd verb p) = Some (lower verb, p).
Proof. exact cmd_path_roundtrip. Qed.
Print Assumptions C08_cmd_path_roundtrip.

(* ... and resolves it to exactly those components (below the working directory when relative) *)
Theorem C08_cmd_path_resolved : forall base cwd p, normal cwd -> valid_path p ->
  get_paths base cwd (to_str p)
  = let v := if is_absolute p then parts p else parts cwd ++ parts p in
    Some (mkp (anchor base) (parts base ++ v), mkp 1 v).
Proof. exact cmd_path_resolved. Qed.
Print Assumptions C08_cmd_path_resolved.

(* MLSD line: facts without a space, one space, the name: the client gets exactly the name
   (leading spaces, ';', '=', 'Type=dir;', digits included) and joins it to the listed directory;
   Some = no ValueError (a line without a pathname is one since the F12 repair) *)
Theorem C08_mlsd_name_roundtrip : forall (F name : text) dir, nosp F -> valid_name name ->
  option_map fst (parse_mlsx_line (F ++ SP :: name ++ eol)) = Some (mkp 0 [name])
  /\ option_map (fun r => lister_join dir (fst r)) (parse_mlsx_line (F ++ SP :: name ++ eol))
     = Some (mkp (anchor dir) (parts dir ++ [name])).
Proof. exact mlsd_name_roundtrip. Qed.
Print Assumptions C08_mlsd_name_roundtrip.

Theorem C08_build_mlsx_shape : forall facts name,
  Forall (fun kv => nosp (fst kv) /\ nosp (snd kv)) facts ->
  exists F, build_mlsx facts name = F ++ SP :: name /\ nosp F.
Proof. exact build_mlsx_shape. Qed.
Print Assumptions C08_build_mlsx_shape.

(* MLST: through write_response (list mode), the client's parse_response (C06) and
   info[1].lstrip(); the fact string is non-empty and whitespace-free (it always has Type=...;) *)
Theorem C08_mlst_name_roundtrip : forall code (start fin F name : text) k,
  good_code code -> lf_free start -> lf_free fin -> lf_free F ->
  F <> [] -> nows F -> valid_name name ->
  exists info rest,
    parse_response (split_lines (reply_wire (code, [start; F ++ SP :: name; fin], true) ++ k))
      = POk code info rest
    /\ rest = split_lines k
    /\ option_map fst (stat_parse info) = Some (mkp 0 [name]).
Proof. exact mlst_name_roundtrip. Qed.
Print Assumptions C08_mlst_name_roundtrip.

(* PWD, FULL STATEMENT: for every well-formed directory whose string has no LF -- double quotes
   anywhere in it: leading, trailing, doubled, in runs -- the client's get_current_directory returns
   exactly the server's working directory: Server.pwd (every quote doubled, the string quoted),
   write_response, readline/parse_response with its rstrip (C06), parse_directory_response
   (undoubling; stops at the first unpaired quote).  No hypothesis on quotes is left (F08 repaired). *)
Theorem C08_pwd_roundtrip : forall code cwd k,
  good_code code -> wf cwd -> lf_free (to_str cwd) ->
  exists info rest,
    parse_response (split_lines (reply_wire (code, [pwd_info cwd], false) ++ k)) = POk code info rest
    /\ rest = split_lines k
    /\ parse_directory_response (last info []) = cwd.
Proof. exact pwd_roundtrip. Qed.
Print Assumptions C08_pwd_roundtrip.

(* the paths of the property are among them: valid_path implies wf and LF-free *)
Theorem C08_pwd_roundtrip_valid : forall code cwd k,
  good_code code -> valid_path cwd ->
  exists info rest,
    parse_response (split_lines (reply_wire (code, [pwd_info cwd], false) ++ k)) = POk code info rest
    /\ rest = split_lines k
    /\ parse_directory_response (last info []) = cwd.
Proof. exact pwd_roundtrip_valid. Qed.
Print Assumptions C08_pwd_roundtrip_valid.

(* the exact negation of the statement that was refuted before the repair *)
Theorem C08_pwd_line_roundtrip : forall cwd, wf cwd ->
  parse_directory_response (rstrip (SP :: pwd_info cwd)) = cwd.
Proof. exact pwd_line_roundtrip. Qed.
Print Assumptions C08_pwd_line_roundtrip.

(* the parser alone: text after the closing quote (257 <quoted> created) is never looked at *)
Theorem C08_pwd_trailing_text_ignored : forall d c rest, (c =? QUOTE) = false ->
  pdr (SP :: QUOTE :: dbl d ++ QUOTE :: c :: rest) false O [] = d.
Proof. exact pdr_quoted_trailing. Qed.
Print Assumptions C08_pwd_trailing_text_ignored.

(* LIST fallback (only used against servers without MLSD, or with raw_command="LIST").
   PARTIAL: missing exactly the names with LEADING whitespace (the parser strip()s the column, F13);
   not modelled: the symlink branch, parse_unix_mode / parse_ls_date raising (C07). *)
Theorem C08_list_name_roundtrip_partial : forall (mode nlink size mtime name : text) t m',
  mode = t :: m' -> length m' = 9%nat -> (t =? 108) = false -> nows mode ->
  digits nlink -> digits size ->
  length mtime = 12%nat -> (exists c r, mtime = c :: r /\ is_space c = false) ->
  valid_name name -> lstrip name = name ->
  list_name (build_list mode nlink size mtime name ++ eol) = Some (t, name)
  /\ list_parse (build_list mode nlink size mtime name ++ eol) = Some (mkp 0 [name]).
Proof. exact list_name_roundtrip_partial. Qed.
Print Assumptions C08_list_name_roundtrip_partial.

Theorem C08_list_name_leading_space_refuted :
  valid_name sp_name /\
  list_name (build_list [45;114;119;45;114;119;45;114;119;45] [49] [48]
                        [74;97;110;32;32;49;32;48;48;58;48;48] sp_name ++ eol)
  = Some (45, [120]).
Proof. exact list_name_leading_space_refuted. Qed.
Print Assumptions C08_list_name_leading_space_refuted.

(* non-vacuity: a name full of metacharacters is a valid_name:  ' 250-Type=dir; a=b -> c' *)
Example C08_ex_meta_name_valid :
  valid_name [32;50;53;48;45;84;121;112;101;61;100;105;114;59;32;97;61;98;32;45;62;32;99].
Proof. repeat split; try discriminate. Qed.
Example C08_ex_valid_path : valid_path (mkp 1 [[97;32;98]; [59;61]]).
Proof.
  split; [right; reflexivity|split; [discriminate|]].
  repeat constructor; try discriminate.
Qed.

(* the former counterexamples are inside the hypotheses: a<q>b, <q>, <q><q>, x<q>, <q>x, <q><q><q>,
   <q>a<q><q>b<q> are valid names, the path made of all of them is a valid_path, and on the wire
   the server spells a<q>b with the quote doubled *)
Example C08_ex_quote_names_valid : Forall valid_name quote_names.
Proof. exact quote_names_valid. Qed.
Example C08_ex_quote_path_valid : valid_path (mkp 1 quote_names).
Proof. exact quote_path_valid. Qed.
Example C08_ex_quote_path_roundtrip :
  parse_directory_response (rstrip (SP :: pwd_info (mkp 1 quote_names))) = mkp 1 quote_names.
Proof. apply pwd_line_roundtrip. apply valid_path_wf. exact quote_path_valid. Qed.
Example C08_ex_pwd_info_doubles :
  pwd_info (mkp 1 [[97; 34; 98]]) = [34; 47; 97; 34; 34; 98; 34].
Proof. reflexivity. Qed.

(* TODO (lead, Session + ClientTree): the composed statement name_transparent (create under n =>
   enter, PWD, list, stat, upload, download, rename, delete denote the same MemFS node) from the
   codec theorems above.  Since the F08 repair NO quote-free hypothesis is needed any more (it came
   from PWD only); the one carve-out left is the LIST fallback (leading whitespace, F13), which the
   default MLSD path does not go through.  Validated at wire level by harness/props/c08.py. *)
