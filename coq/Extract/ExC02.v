From Coq Require Import Extraction ExtrOcamlBasic.
From Verif Require Import Lib.Sx Model.PathsWin.
Definition run_main := run_pathswin.
Extraction "../build/ml/c02.ml" run_main.
