From Coq Require Import Extraction ExtrOcamlBasic.
From Verif Require Import Lib.Sx Model.PathsSess.
Definition run_main := run_pathssess.
Extraction "../build/ml/c02.ml" run_main.
