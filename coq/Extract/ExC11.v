From Coq Require Import Extraction ExtrOcamlBasic.
From Verif Require Import Lib.Sx Model.PortPool.
Definition run_main := run_portpool.
Extraction "../build/ml/c11.ml" run_main.
