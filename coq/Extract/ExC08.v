From Coq Require Import Extraction ExtrOcamlBasic.
From Verif Require Import Lib.Sx Model.Names.
Definition run_main := run_names.
Extraction "../build/ml/c08.ml" run_main.
