From Coq Require Import ZArith Extraction ExtrOcamlBasic.
From Verif Require Import Lib.Sx Model.Names Model.NamesSession.
Definition run_main (fn : Z) (a : sx) : sx :=
  if (70 <=? fn)%Z then run_names_session fn a else run_names fn a.
Extraction "../build/ml/c08.ml" run_main.
