From Coq Require Import Extraction ExtrOcamlBasic.
From Verif Require Import Lib.Sx Model.Session.
Definition run_main := run_session.
Extraction "../build/ml/c05.ml" run_main.
