From Coq Require Import Extraction ExtrOcamlBasic.
From Verif Require Import Lib.Sx Model.Framing.
Definition run_main := run_framing.
Extraction "../build/ml/c06.ml" run_main.
