From Coq Require Import Extraction ExtrOcamlBasic.
From Verif Require Import Lib.Sx Model.Timeouts.
Definition run_main := run_timeouts.
Extraction "../build/ml/c16.ml" run_main.
