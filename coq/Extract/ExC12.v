From Coq Require Import Extraction ExtrOcamlBasic.
From Verif Require Import Lib.Sx Model.Transfer Proofs.TransferGen.
Definition run_main := run_transfer genF.
Extraction "../build/ml/c12.ml" run_main.
