From Coq Require Import Extraction ExtrOcamlBasic.
From Verif Require Import Lib.Sx Model.ClientTree.
Definition run_main := run_clienttree.
Extraction "../build/ml/c09.ml" run_main.
