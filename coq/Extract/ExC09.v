From Coq Require Import Extraction ExtrOcamlBasic.
From Verif Require Import Lib.Sx Model.ClientTree Gen.ClientWalks.
(* the model of Client.upload is instantiated with the form of `relative = ...` read from client.py *)
Definition run_main := run_clienttree Gen.ClientWalks.upload_relative_fixed.
Extraction "../build/ml/c09.ml" run_main.
