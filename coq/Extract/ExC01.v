From Coq Require Import Extraction ExtrOcamlBasic.
From Verif Require Import Lib.Sx Model.Bytes Model.TransferBytes Model.TransferTimed Model.TransferFiles.
Definition run_main := run_files.
Extraction "../build/ml/c01.ml" run_main.
