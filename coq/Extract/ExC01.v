From Coq Require Import Extraction ExtrOcamlBasic.
From Verif Require Import Lib.Sx Model.Bytes Model.TransferBytes.
Definition run_main := run_bytes.
Extraction "../build/ml/c01.ml" run_main.
