From Coq Require Import Extraction ExtrOcamlBasic.
From Verif Require Import Lib.Sx Model.Parsers.
Definition run_main := run_parsers.
Extraction "../build/ml/c19.ml" run_main.
