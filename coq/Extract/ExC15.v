From Coq Require Import Extraction ExtrOcamlBasic.
From Verif Require Import Lib.Sx Model.Throttle.
Definition run_main := run_throttle.
Extraction "../build/ml/c15.ml" run_main.
