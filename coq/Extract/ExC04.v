From Coq Require Import Extraction ExtrOcamlBasic.
From Verif Require Import Lib.Sx Model.Perm.
Definition run_main := run_perm.
Extraction "../build/ml/c04.ml" run_main.
