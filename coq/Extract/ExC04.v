From Coq Require Import Extraction ExtrOcamlBasic.
From Verif Require Import Lib.Sx Model.PermXfer.
Definition run_main := run_permxfer.
Extraction "../build/ml/c04.ml" run_main.
