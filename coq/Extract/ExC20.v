From Coq Require Import Extraction ExtrOcamlBasic.
From Verif Require Import Lib.Sx Model.LogCensor.
Definition run_main := run_logcensor.
Extraction "../build/ml/c20.ml" run_main.
