From Coq Require Import Extraction ExtrOcamlBasic.
From Verif Require Import Lib.Sx Model.FsBase Model.MemFS Model.PosixFS Model.BackendSrv Model.BackendsRun.
Definition run_main := run_backends.
Extraction "../build/ml/c18.ml" run_main.
