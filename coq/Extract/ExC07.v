From Coq Require Import Extraction ExtrOcamlBasic.
From Verif Require Import Lib.Sx Model.Listing Model.ListingClient.
Definition run_main := run_listing_client.
Extraction "../build/ml/c07.ml" run_main.
