From Coq Require Import Extraction ExtrOcamlBasic.
From Verif Require Import Lib.Sx Model.Listing.
Definition run_main := run_listing.
Extraction "../build/ml/c07.ml" run_main.
