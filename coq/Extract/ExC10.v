From Coq Require Import Extraction ExtrOcamlBasic.
From Verif Require Import Lib.Sx Model.Counters.
Definition run_main := run_counters.
Extraction "../build/ml/c10.ml" run_main.
