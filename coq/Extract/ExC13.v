From Coq Require Import ZArith List Extraction ExtrOcamlBasic.
From Verif Require Import Lib.Sx Model.Faults Model.FaultsCheck Model.FaultsRound Proofs.GenTable Proofs.GenFaults Gen.Dispatch Gen.Faultsites.
Import ListNotations.
(* the executable model is instantiated with the facts regenerated from the source on this run;
   fn 2 = one wake-up of the dispatcher (Model/FaultsRound.v);
   fn 3 = is this instantiation a model of the source at all: the closed checks of Props/C13.v that say the
          hand-written bodies stand for the code (when one is false the harness switches the model off and judges
          the implementation by the property oracle alone) *)
Definition run_main (fn : Z) (a : sx) : sx :=
  if (fn =? 2)%Z then run_round gen_react dispatcher_try_per_task a
  else if (fn =? 3)%Z then
    L (map sx_of_bool
           [ translator_ok; faultsites_ok; sites_ok; workers_ok; conds_ok;
             params_ok pathcond_defs gen_react gen_wrapped gen_cstor gen_cretr gen_clist gen_cmlsd ])
  else run_faults gen_table pathcond_defs gen_react gen_wrapped gen_cstor gen_cretr gen_clist gen_cmlsd fn a.
Extraction "../build/ml/c13.ml" run_main.
