From Coq Require Import Extraction ExtrOcamlBasic.
From Verif Require Import Lib.Sx Model.Faults Proofs.GenTable Proofs.GenFaults Gen.Dispatch.
(* the executable model is instantiated with the facts regenerated from the source on this run *)
Definition run_main := run_faults gen_table pathcond_defs gen_react gen_wrapped gen_cstor gen_cretr gen_clist gen_cmlsd.
Extraction "../build/ml/c13.ml" run_main.
