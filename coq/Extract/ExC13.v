From Coq Require Import ZArith Extraction ExtrOcamlBasic.
From Verif Require Import Lib.Sx Model.Faults Model.FaultsRound Proofs.GenTable Proofs.GenFaults Gen.Dispatch Gen.Faultsites.
(* the executable model is instantiated with the facts regenerated from the source on this run;
   fn 2 = one wake-up of the dispatcher (Model/FaultsRound.v) *)
Definition run_main (fn : Z) (a : sx) : sx :=
  if (fn =? 2)%Z then run_round gen_react dispatcher_try_per_task a
  else run_faults gen_table pathcond_defs gen_react gen_wrapped gen_cstor gen_cretr gen_clist gen_cmlsd fn a.
Extraction "../build/ml/c13.ml" run_main.
