From Coq Require Import Extraction ExtrOcamlBasic.
From Verif Require Import Lib.Sx Model.Session Model.Multi.
Definition run_main := run_multi.
Extraction "../build/ml/c17.ml" run_main.
