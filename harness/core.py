"""Shared machinery of bin/check: regenerate Gen from /repo, build the Coq cone,
extract + compile the executable model, run it, write evidence, report."""
import fcntl
import hashlib
import json
import os
import re
import subprocess
import sys
import time
from pathlib import Path

from . import sx

VERIF = Path(__file__).resolve().parent.parent
REPO = Path(os.environ.get("VERIF_REPO", "/repo"))
SRC = REPO / "src"
COQ = VERIF / "coq"
BUILD = VERIF / "build"
PY = "/venv/bin/python"
GUARD = "AIOFTP_VERIF"

STMT_RE = re.compile(
    r"^\s*(?:Local\s+|Global\s+|#\[[^\]]*\]\s*)*(Theorem|Lemma|Corollary|Example|Fact|Proposition|Remark)\s+([A-Za-z_][\w']*)",
    re.M,
)
FORBIDDEN = re.compile(
    r"\b(Admitted|admit|Axiom|Axioms|Parameter|Parameters|Conjecture|Conjectures|Abort All)\b"
    r"|Unset\s+Guard|bypass_check|type-in-type|impredicative-set|Admit\s+Obligations"
    r"|Unset\s+Positivity|Unset\s+Universe"
)


def env_for_impl():
    e = dict(os.environ)
    e["PYTHONPATH"] = f"{SRC}:{VERIF}"
    e["PYTHONHASHSEED"] = "0"
    e["TZ"] = "UTC"
    e[GUARD] = "1"
    return e


class BuildLock:
    def __enter__(self):
        BUILD.mkdir(exist_ok=True)
        self.f = open(BUILD / ".lock", "w")
        fcntl.flock(self.f, fcntl.LOCK_EX)
        return self

    def __exit__(self, *a):
        fcntl.flock(self.f, fcntl.LOCK_UN)
        self.f.close()


def sh(cmd, timeout, cwd=None, env=None, input=None):
    t0 = time.time()
    try:
        p = subprocess.run(
            cmd,
            cwd=cwd,
            env=env,
            input=input,
            stdout=subprocess.PIPE,
            stderr=subprocess.STDOUT,
            timeout=timeout,
            text=True,
        )
        return p.returncode, p.stdout, time.time() - t0
    except subprocess.TimeoutExpired as e:
        out = e.stdout or ""
        if isinstance(out, bytes):
            out = out.decode("utf-8", "replace")
        return 124, out + "\n[timeout]", time.time() - t0


# ----------------------------------------------------------------------------
# step 1: translator
def regen():
    (COQ / "Gen").mkdir(exist_ok=True)
    rc, out, _ = sh(
        [PY, "-m", "tools.py2v", str(SRC / "aioftp"), str(COQ / "Gen")],
        timeout=300,
        cwd=str(VERIF),
        env=env_for_impl(),
    )
    return rc == 0, out


# ----------------------------------------------------------------------------
# step 2: coq build
def v_files():
    return sorted(str(p.relative_to(COQ)) for p in COQ.rglob("*.v") if not p.name.startswith("."))


def ensure_makefile():
    files = v_files()
    content = "-Q . Verif\n-arg -w -arg -notation-overridden,-deprecated-hint-without-locality,-deprecated-instance-without-locality\n" + "\n".join(files) + "\n"
    proj = COQ / "_CoqProject"
    changed = (not proj.exists()) or proj.read_text() != content or not (COQ / "Makefile").exists()
    if changed:
        proj.write_text(content)
        rc, out, _ = sh(["coq_makefile", "-f", "_CoqProject", "-o", "Makefile"], 120, cwd=str(COQ))
        if rc != 0:
            raise RuntimeError("coq_makefile failed: " + out)


def hygiene():
    """fail-closed scan of the development for anything that would weaken the kernel's verdict"""
    hits = []
    for f in v_files():
        if f.startswith("Gen/"):
            pass
        txt = (COQ / f).read_text()
        # strip comments (non-nested good enough: we never put the words in comments either)
        for m in FORBIDDEN.finditer(re.sub(r"\(\*.*?\*\)", "", txt, flags=re.S)):
            hits.append(f"{f}: {m.group(0)}")
    return hits


def make(targets, timeout=1500, jobs=16):
    (BUILD / "ml").mkdir(parents=True, exist_ok=True)
    rc, out, dt = sh(["make", f"-j{jobs}", "-k"] + list(targets), timeout, cwd=str(COQ))
    return rc, out, dt


def parse_coq_error(out):
    """first Coq error in a make log -> dict(file, line, msg, statement)"""
    m = re.search(r'File "\./([^"]+)", line (\d+), characters [\d-]+:\s*\nError:(.*?)(?:\n\n|\nmake|\Z)', out, re.S)
    if not m:
        return None
    f, line, msg = m.group(1), int(m.group(2)), " ".join(m.group(3).split())[:600]
    stmt = None
    try:
        lines = (COQ / f).read_text().splitlines()
        for i in range(min(line, len(lines)) - 1, -1, -1):
            mm = STMT_RE.match(lines[i])
            if mm:
                stmt = mm.group(2)
                break
    except OSError:
        pass
    return {"file": f, "line": line, "msg": msg, "statement": stmt}


def cone(target_v):
    """transitive Verif dependencies of a .v file (from coqdep's .Makefile.d)"""
    dep = COQ / ".Makefile.d"
    deps = {}
    if dep.exists():
        txt = dep.read_text().replace("\\\n", " ")
        for line in txt.splitlines():
            if ":" not in line:
                continue
            lhs, rhs = line.split(":", 1)
            outs = [x for x in lhs.split() if x.endswith(".vo")]
            ins = [x[:-1] for x in rhs.split() if x.endswith(".vo")]
            for o in outs:
                deps[o[:-1]] = ins
    seen, todo = [], [target_v]
    while todo:
        f = todo.pop()
        if f in seen:
            continue
        seen.append(f)
        todo.extend(deps.get(f, []))
    return sorted(seen)


def count_statements(files):
    n = 0
    names = []
    for f in files:
        p = COQ / f
        if p.exists():
            for m in STMT_RE.finditer(re.sub(r"\(\*.*?\*\)", "", p.read_text(), flags=re.S)):
                n += 1
                names.append(f"{f}:{m.group(2)}")
    return n, names


def print_assumptions(props_v):
    """re-run coqc on the Props file alone and capture what Print Assumptions says"""
    rc, out, _ = sh(
        ["coqc", "-Q", ".", "Verif", "-w", "-notation-overridden", props_v], 600, cwd=str(COQ)
    )
    blocks = []
    cur = None
    for line in out.splitlines():
        if line.startswith("Closed under the global context"):
            blocks.append("Closed under the global context")
            cur = None
        elif line.startswith("Axioms:"):
            cur = ["Axioms:"]
            blocks.append(cur)
        elif cur is not None and (line.startswith(" ") or ":" in line):
            cur.append(line.strip())
        else:
            cur = None
    res = [b if isinstance(b, str) else " ".join(b) for b in blocks]
    return rc == 0, res, out


# ----------------------------------------------------------------------------
# step 3: executable model
def build_exe(exname):
    """Extract/Ex<NAME>.vo is built by make; it writes build/ml/<name>.ml. Compile with the driver."""
    name = exname[2:].lower()
    ml = BUILD / "ml" / f"{name}.ml"
    exe = BUILD / "bin" / f"{name}.exe"
    (BUILD / "bin").mkdir(parents=True, exist_ok=True)
    if not ml.exists():
        return None, f"{ml} missing (extraction did not run)"
    drv = VERIF / "harness" / "driver_body.ml"
    if exe.exists() and exe.stat().st_mtime >= max(ml.stat().st_mtime, drv.stat().st_mtime):
        return exe, ""
    work = BUILD / "ml" / f"{name}_main"
    work.mkdir(exist_ok=True)
    main = work / f"{name}_main.ml"
    main.write_text(ml.read_text() + "\n" + drv.read_text())
    rc, out, _ = sh(
        ["ocamlfind", "ocamlopt", "-O3", "-w", "-a", "-o", str(exe), str(main)], 600, cwd=str(work)
    )
    if rc != 0:
        rc, out, _ = sh(["ocamlfind", "ocamlopt", "-w", "-a", "-o", str(exe), str(main)], 600, cwd=str(work))
    if rc != 0:
        return None, out
    return exe, ""


def run_model(exe, cases, chunk=20000):
    """cases: list of (fn:int, arg python value) -> list of decoded sx (nested int lists)"""
    res = []
    for i in range(0, len(cases), chunk):
        part = cases[i : i + chunk]
        inp = "\n".join(f"{fn} {sx.enc(a)}" for fn, a in part) + "\n"
        p = subprocess.run(
            ["bash", "-c", f"ulimit -s unlimited 2>/dev/null; exec {exe}"],
            input=inp,
            stdout=subprocess.PIPE,
            stderr=subprocess.PIPE,
            text=True,
            timeout=3600,
        )
        lines = p.stdout.splitlines()
        if p.returncode != 0 or len(lines) != len(part):
            raise RuntimeError(f"model run failed rc={p.returncode} got {len(lines)}/{len(part)}: {p.stderr[:500]}")
        res.extend(sx.dec(l) for l in lines)
    return res


def vm_crosscheck(exname, triples, timeout=600):
    """Evaluate the same cases inside Coq (vm_compute) and compare with what the extracted
    binary said: checks extraction + driver glue.  triples: (fn, arg value, decoded result)."""
    if not triples:
        return True, "no cases"
    d = BUILD / "cases"
    d.mkdir(exist_ok=True)
    name = f"Cases_{exname}_{os.getpid()}"
    body = ";\n".join(f"(({fn}, {sx.to_coq(a)}), {sx.nested_to_coq(r)})" for fn, a, r in triples)
    src = (
        "From Coq Require Import ZArith List.\nImport ListNotations.\nOpen Scope Z_scope.\n"
        f"From Verif Require Import Lib.Sx Extract.{exname}.\n"
        f"Definition cases : list (Z * sx * sx) := [\n{body}].\n"
        "Definition bad := mismatches_from run_main 0 cases.\n"
        "Eval vm_compute in bad.\n"
    )
    f = d / f"{name}.v"
    f.write_text(src)
    rc, out, _ = sh(
        ["bash", "-c", f"ulimit -s unlimited 2>/dev/null; exec coqc -Q {COQ} Verif -w none {f}"], timeout, cwd=str(d)
    )
    for ext in (".v", ".vo", ".glob", ".vok", ".vos"):
        try:
            (d / (name + ext)).unlink()
        except OSError:
            pass
    try:
        (d / f".{name}.aux").unlink()
    except OSError:
        pass
    ok = rc == 0 and re.search(r"=\s*\[\s*\]", out) is not None
    return ok, out[-400:]


# ----------------------------------------------------------------------------
# known findings
def known_findings():
    p = VERIF / "known_findings.json"
    if not p.exists():
        return {"findings": [], "fixed": []}
    return json.loads(p.read_text())


# ----------------------------------------------------------------------------
class Ctx:
    """One run of one property's check."""

    def __init__(self, pid, tier, seed):
        self.pid = pid
        self.tier = tier
        self.seed = seed
        self.t0 = time.time()
        self.evaluations = 0
        self.nontrivial = set()
        self.samples = []
        self.dist = {}
        self.disagreements = []  # model != implementation
        self.violations = []  # property oracle violated on the implementation
        self.broken = []  # proof obligations / translator failures
        self.known_hits = []
        self.notes = []
        self.traces_impl = 0
        self.exe = None
        self.assumptions = []
        self.obligations = 0
        self.discharged = 0
        self.stmt_names = []
        self.checker_cmd = ""
        self.trusted = []
        self.extra = {}
        self.violation_keys = {}
        self.known_keys = {}
        self.kf = [f for f in known_findings().get("findings", []) if f.get("property") == pid]

    # -- bookkeeping used by property modules
    def count(self, kind, n=1):
        self.dist[kind] = self.dist.get(kind, 0) + n

    def case(self, key, nontrivial=True):
        self.evaluations += 1
        if nontrivial:
            self.nontrivial.add(hashlib.blake2b(repr(key).encode(), digest_size=8).digest())

    def sample(self, s, limit=6):
        if len(self.samples) < limit:
            self.samples.append(s)

    def model(self, cases):
        return run_model(self.exe, cases)

    def disagree(self, stream, case, model, impl):
        self.disagreements.append({"stream": stream, "case": case, "model": model, "impl": impl})

    def violation(self, what, replay):
        """replay: JSON-serialisable dict describing the failing input / history on the implementation"""
        kid = self.match_known(what, replay)
        if kid is not None:
            kk = replay.get("key", "?")
            self.known_keys[kk] = self.known_keys.get(kk, 0) + 1
            if kid not in [k["id"] for k in self.known_hits]:
                self.known_hits.append({"id": kid, "what": what})
            return False
        self.violations.append({"what": what, "replay": replay})
        k = replay.get("key", "?") if isinstance(replay, dict) else "?"
        self.violation_keys[k] = self.violation_keys.get(k, 0) + 1
        return True

    def match_known(self, what, replay):
        key = replay.get("key") if isinstance(replay, dict) else None
        for f in self.kf:
            if key is not None and key in f.get("keys", []):
                return f["id"]
        return None

    def known_reproduced(self, fid, what):
        if fid not in [k["id"] for k in self.known_hits]:
            self.known_hits.append({"id": fid, "what": what})

    def obligation_broken(self, name, detail):
        self.broken.append({"obligation": name, "detail": detail})

    # -- end of run
    def write_replay(self, payload):
        d = VERIF / "evidence" / "replay"
        d.mkdir(parents=True, exist_ok=True)
        h = hashlib.blake2b(json.dumps(payload, sort_keys=True, default=str).encode(), digest_size=6).hexdigest()
        p = d / f"{self.pid}-{h}.json"
        p.write_text(json.dumps(payload, indent=1, default=str))
        return p

    def finish(self):
        lines = []
        rc = 0
        for k in self.known_hits:
            f = next((f for f in self.kf if f["id"] == k["id"]), None)
            desc = f["what"] if f else k["what"]
            lines.append(f"KNOWN-FINDING: property={self.pid} {k['id']}: {desc}")
        seen = set()
        for v in self.violations:
            payload = {"property": self.pid, "kind": "failing-input", "what": v["what"], "replay": v["replay"]}
            p = self.write_replay(payload)
            if p in seen:
                continue
            seen.add(p)
            lines.append(f"VIOLATION property={self.pid} replay={p}")
            rc = 1
            if len(seen) >= 5:
                break
        if not self.violations and (self.broken or self.disagreements):
            payload = {
                "property": self.pid,
                "kind": "no-failing-input-found",
                "broken_obligations": self.broken[:10],
                "disagreements": self.disagreements[:10],
                "note": "the theorem/correspondence named here no longer checks; the failing-input search "
                "found no input on which the implementation violates the property oracle",
            }
            p = self.write_replay(payload)
            lines.append(f"VIOLATION property={self.pid} replay={p} no-failing-input-found")
            rc = 1
        ev = {
            "property_id": self.pid,
            "tier": self.tier,
            "seed": self.seed,
            "level": "proof",
            "coverage": {
                "obligations": self.obligations,
                "discharged": self.discharged if not self.broken else max(0, self.discharged - len(self.broken)),
                "checker_cmd": self.checker_cmd,
                "trusted_base": self.trusted,
                "evaluations": self.evaluations,
                "distinct_nontrivial": len(self.nontrivial),
                "rule": self.extra.pop("rule", ""),
                "samples": self.samples,
                "traces_validated_against_impl": self.traces_impl,
                "input_distribution": self.dist,
                "print_assumptions": self.assumptions,
                "statements": self.stmt_names[:400],
                "disagreements": len(self.disagreements),
                "broken_obligations": self.broken,
                "known_findings_reproduced": [k["id"] for k in self.known_hits],
                "known_finding_hits_by_key": self.known_keys,
                "violation_keys": self.violation_keys,
                **self.extra,
            },
            "assumptions": self.notes,
            "wall_s": round(time.time() - self.t0, 2),
            "violations": len(self.violations) + (1 if (not self.violations and rc) else 0),
        }
        (VERIF / "evidence").mkdir(exist_ok=True)
        (VERIF / "evidence" / f"{self.pid}.json").write_text(json.dumps(ev, indent=1, default=str))
        for l in lines:
            print(l)
        print(
            f"[{self.pid}] tier={self.tier} seed={self.seed} obligations={self.obligations} "
            f"discharged={ev['coverage']['discharged']} evaluations={self.evaluations} "
            f"disagreements={len(self.disagreements)} violations={len(self.violations)} "
            f"known={len(self.known_hits)} wall={ev['wall_s']}s rc={rc}"
        )
        sys.stdout.flush()
        return rc
