"""bin/check entry point.

  bin/check <Cxx> [quick|thorough] [--replay <file>]
  bin/setup                       (= python -m harness.main --setup)

Per property, in order: regenerate Gen from /repo's working tree; build the cone of
Props/<id>.v (full .vo build); capture Print Assumptions; build the extracted model;
run the correspondence against the real aioftp; replay known findings; when a proof
obligation or the correspondence is broken run the failing-input search; write evidence;
print KNOWN-FINDING / VIOLATION lines; exit 0/1."""
import importlib
import json
import os
import random
import re
import sys
import time
import traceback

from . import core


def setup():
    with core.BuildLock():
        ok, out = core.regen()
        print(out)
        core.ensure_makefile()
        rc, out, dt = core.make(["all"], timeout=3000)
        print(out[-3000:])
        print(f"make all rc={rc} in {dt:.0f}s")
        if rc != 0:
            return 1
        for f in sorted((core.COQ / "Extract").glob("Ex*.v")):
            exe, err = core.build_exe(f.stem)
            print(f"{f.stem}: {exe or err}")
            if exe is None:
                return 1
    return 0


def build_for(ctx, mod):
    """returns model_ok"""
    with core.BuildLock():
        ok, out = core.regen()
        ctx.extra["translator"] = out.strip().splitlines()[-12:]
        # a generator that failed closed matters to THIS property only if its Gen file is in the cone of
        # Props/<id>.v or of the extracted model (decided below, once coqdep has run): a harmless edit that
        # one translator cannot classify must not alarm properties that never look at that translator
        failed_gens = re.findall(r"^py2v: (\w+): FAILED CLOSED: (.*)$", out, re.M) if not ok else []
        if not ok and not failed_gens:
            ctx.obligation_broken("translator", out[-800:])
        hits = core.hygiene()
        if hits:
            ctx.obligation_broken("hygiene", hits[:10])
        core.ensure_makefile()
        props_v = f"Props/{ctx.pid}.v"
        targets = [props_v + "o"]
        exname = getattr(mod, "EXTRACT", None)
        if exname:
            targets.append(f"Extract/{exname}.vo")
        rc, out, dt = core.make(targets)
        ctx.extra["build_s"] = round(dt, 1)
        files = core.cone(props_v)
        if failed_gens:
            mine = set(files)
            if exname:
                mine |= set(core.cone(f"Extract/{exname}.v"))
            uses = getattr(mod, "USES_GEN", [])
            for name, msg in failed_gens:
                if f"Gen/{name}.v" in mine or name in uses:
                    ctx.obligation_broken(f"translator:{name}", msg[:800])
                else:
                    ctx.extra.setdefault("translator_failures_outside_cone", []).append(f"{name}: {msg[:200]}")
        n, names = core.count_statements(files)
        ctx.obligations = n
        ctx.stmt_names = names
        ctx.checker_cmd = f"cd {core.COQ} && make -j16 {' '.join(targets)}  (coqc 8.16.1, full .vo build) && coqc {props_v} (Print Assumptions)"
        proof_ok = (core.COQ / (props_v + "o")).exists() and rc == 0
        if rc != 0:
            err = core.parse_coq_error(out)
            if err is None:
                err = {"file": "?", "line": 0, "msg": out[-600:], "statement": None}
            # an error in the extraction cone only is a model failure, not a proof failure
            ctx.obligation_broken(
                f"{err['file']}:{err['statement'] or 'line %d' % err['line']}", err["msg"]
            )
            ctx.extra["build_error"] = err
            # the failed file and everything downstream did not check
            if (core.COQ / (props_v + "o")).exists():
                proof_ok = True
        if proof_ok:
            ok2, blocks, raw = core.print_assumptions(props_v)
            ctx.assumptions = blocks
            if not ok2:
                ctx.obligation_broken(props_v, raw[-600:])
            ctx.discharged = n
        else:
            # count what did compile
            done = [f for f in files if (core.COQ / (f + "o")).exists()]
            ctx.discharged = core.count_statements(done)[0]
            if ctx.discharged >= ctx.obligations:
                ctx.discharged = max(0, ctx.obligations - 1)
        # thorough tier: re-check the compiled cone with the independent checker and record its context summary
        if proof_ok and ctx.tier == "thorough" and os.environ.get("VERIF_COQCHK", "1") != "0":
            rc3, out3, dt3 = core.sh(
                ["coqchk", "-silent", "-o", "-Q", ".", "Verif", f"Verif.Props.{ctx.pid}"], 2400, cwd=str(core.COQ)
            )
            summary = out3[out3.find("CONTEXT SUMMARY"):] if "CONTEXT SUMMARY" in out3 else out3[-1500:]
            ctx.extra["coqchk"] = {"rc": rc3, "seconds": round(dt3, 1), "summary": " ".join(summary.split())[:1500]}
            ctx.trusted = list(ctx.trusted) + [f"coqchk -o on Verif.Props.{ctx.pid} (independent re-check of the compiled cone): " + " ".join(summary.split())[:600]]
            if rc3 != 0:
                ctx.obligation_broken("coqchk", out3[-800:])
        model_ok = True
        if exname:
            if not (core.COQ / f"Extract/{exname}.vo").exists():
                model_ok = False
                ctx.extra["model_error"] = "extraction file did not compile"
            else:
                exe, err = core.build_exe(exname)
                if exe is None:
                    model_ok = False
                    ctx.extra["model_error"] = err[-600:]
                ctx.exe = exe
    return model_ok


BASE_TRUST = [
    "Coq 8.16.1 kernel (coqc full .vo build, no -vos); vm_compute used for closed boolean obligations; no native_compute",
    "tools/py2v (Python-ast translator, fail-closed) reports /repo/src faithfully as Coq data (Gen/*.v); its pre-pass tools/py2v/normalize.py rewrites a fixed list of spelling variants into the shapes of the pinned source before the generators read it (rules R2-R10 of its docstring: one-line def -> lambda, private module constant of literals -> the literal at its uses, private helper method called with its own parameter names as a whole statement -> its body in place, str.format -> f-string, nested with -> multi-item with, final return None dropped, try/except inside try/finally merged, from-import of a module the source imports whole -> attribute access, hoisted constant subscript written back), each rule an equivalence of Python programs whose side conditions are checked syntactically, skipped when one fails",
    "extraction plugin + exactly the directives ExtrOcamlBasic declares (Extract Inductive bool, option, unit, list, prod, sumbool => bool, sumor => option; Extract Inlined Constant andb => (&&), orb => (||)); no Extract Constant / Extract Inductive of our own (Z, N, positive, Q, nat, string stay extracted datatypes); OCaml 4.13.1; harness/driver_body.ml glue (int<->Z, s-expression I/O); cross-checked against Eval vm_compute on a sample each run",
    "harness (Python) drives the real aioftp from /repo/src and compares faithfully",
]


def main(argv):
    if argv and argv[0] == "--setup":
        return setup()
    if not argv:
        print(__doc__)
        return 2
    pid = argv[0].upper()
    tier = os.environ.get("VERIF_TIER", "quick")
    replay = None
    i = 1
    while i < len(argv):
        if argv[i] in ("quick", "thorough"):
            tier = argv[i]
        elif argv[i] == "--replay":
            replay = argv[i + 1]
            i += 1
        i += 1
    raw_seed = (os.environ.get("VERIF_SEED") or "").strip()
    try:
        seed = int(raw_seed) if raw_seed else 20260926
    except ValueError:  # any text is a seed: hash it reproducibly
        import zlib
        seed = zlib.crc32(raw_seed.encode())
    import logging

    logging.getLogger("asyncio").setLevel(logging.CRITICAL)  # cancelled-dispatcher noise at server.close()
    logging.getLogger("aioftp").setLevel(logging.CRITICAL)
    mod = importlib.import_module(f"harness.props.{pid.lower()}")
    ctx = core.Ctx(pid, tier, seed)
    ctx.rng = random.Random(seed)
    ctx.trusted = BASE_TRUST + list(getattr(mod, "TRUSTED", []))
    ctx.notes = list(getattr(mod, "ASSUMPTIONS", []))
    if replay:
        data = json.loads(open(replay).read())
        model_ok = build_for(ctx, mod)
        ok = mod.replay(ctx, data)
        print("REPLAY", "reproduces (property violated)" if not ok else "does not reproduce")
        return 1 if not ok else 0
    try:
        model_ok = build_for(ctx, mod)
        if model_ok or not getattr(mod, "EXTRACT", None):
            mod.correspondence(ctx)
        else:
            ctx.obligation_broken("model-build", ctx.extra.get("model_error", ""))
        if hasattr(mod, "known"):
            mod.known(ctx)
        if (ctx.broken or ctx.disagreements) and hasattr(mod, "search"):
            mod.search(ctx)
    except Exception:
        tb = traceback.format_exc()
        print(tb)
        ctx.obligation_broken("harness-exception", tb[-1500:])
    return ctx.finish()


if __name__ == "__main__":
    sys.exit(main(sys.argv[1:]))
