"""ftpsim: run one scripted FTP session against the REAL aioftp.Server on simnet and observe it
at the granularity of Model/Session.v events (shared by C03, C05, C13, C17 harnesses)."""
import asyncio
import io
import re
import pathlib

import aioftp
from aioftp import pathio

from . import simnet

PORT = 2121


# ---------------------------------------------------------------- trees
# python-side tree: dict name -> (bytes | dict)
def mem_state(tree):
    """build the MemoryPathIO node list for a tree"""

    def mk(name, t):
        if isinstance(t, (bytes, bytearray)):
            return pathio.Node("file", name, 1, 1, content=io.BytesIO(bytes(t)))
        return pathio.Node("dir", name, 1, 1, content=[mk(k, v) for k, v in t.items()])

    return [mk("/", tree)]


def mem_tree(state):
    def rd(node, depth=0):
        if depth > 40:
            return {"<cycle>": {}}
        if node.type == "file":
            return bytes(node.content.getbuffer())
        if not isinstance(node.content, list):
            return {"<corrupt>": {}}
        return {c.name: rd(c, depth + 1) for c in node.content}

    return rd(state[0])


def disk_write(root, tree):
    root.mkdir(parents=True, exist_ok=True)
    for k, v in tree.items():
        p = root / k
        if isinstance(v, (bytes, bytearray)):
            p.write_bytes(v)
        else:
            disk_write(p, v)


def disk_tree(root):
    out = {}
    for p in sorted(root.iterdir()):
        out[p.name] = p.read_bytes() if p.is_file() else disk_tree(p)
    return out


def tree_to_sx(t):
    if isinstance(t, (bytes, bytearray)):
        return [0, bytes(t)]
    return [1, [[k, tree_to_sx(v)] for k, v in t.items()]]


def sx_to_tree(x):
    if x[0] == 0:
        return bytes(x[1])
    return {"".join(map(chr, k)): sx_to_tree(v) for k, v in x[1]}


def canon_tree(t):
    if isinstance(t, (bytes, bytearray)):
        return bytes(t)
    return {k: canon_tree(t[k]) for k in sorted(t)}


# ---------------------------------------------------------------- events
DATACONN = "!"


def parse_passive(lines):
    for l in lines:
        m = re.search(r"\((\d+),(\d+),(\d+),(\d+),(\d+),(\d+)\)", l)
        if l.startswith("227") and m:
            return (int(m.group(5)) << 8) | int(m.group(6))
        m = re.search(r"\(\|\|\|(\d+)\|\)", l)
        if l.startswith("229") and m:
            return int(m.group(1))
    return None


def parse_listing(data, verb):
    out = []
    for line in data.decode("utf-8", "replace").split("\r\n"):
        if not line:
            continue
        if verb == "mlsd":
            facts, _, name = line.partition(" ")
            d = dict(f.partition("=")[::2] for f in facts.rstrip(";").split(";") if f)
            d = {k.lower(): v for k, v in d.items()}
            out.append((name, d.get("type") == "dir", int(d.get("size", 0)) if d.get("type") == "file" else 0))
        else:
            f = line.split(None, 8)
            name = f[8] if len(f) > 8 else ""
            # "Mmm dd hh:mm name" -> date occupies 3 fields: fields 5,6,7 ; name = field 8
            out.append((name, line[0] == "d", int(f[4]) if line[0] == "-" else 0))
    return sorted(out)


class Session:
    """drives one control connection; `server` is a started aioftp.Server"""

    def __init__(self, net, server):
        self.net = net
        self.server = server
        self.raw = None
        self.pasv_port = None
        self.data = []  # pending data connections (reader, writer)
        self.ended = False

    async def start(self):
        self.raw = await simnet.Raw.connect(self.net, self.server.server_port)
        lines = await self.raw.drain_replies()
        return simnet.final_codes(lines)

    def conn(self):
        """the server-side Connection object of this session (white-box state probe), or None when gone"""
        for k, c in self.server.connections.items():
            peer = k.writer.transport.get_extra_info("peername")
            if peer and peer[1] == self.raw.writer.transport.get_extra_info("sockname")[1]:
                return c
        return None

    def probe(self):
        c = self.conn()
        if c is None:
            return None
        logged = c.future.logged.done()
        return {
            "user": c.user.login if c.future.user.done() else None,
            "has_user": c.future.user.done(),
            "logged": logged,
            "cwd": str(c.current_directory) if c.future.current_directory.done() else None,
            "rnfr": str(c.rename_from) if c.future.rename_from.done() else None,
            "rest": c.restart_offset,
            "passive": c.future.passive_server.done(),
            "data": c.future.data_connection.done(),
            "workers": len(c.extra_workers),
        }

    async def event(self, verb, arg="", payload=None):
        """returns dict(codes, lines, bytes, listing, ended)"""
        res = {"codes": [], "lines": [], "bytes": None, "listing": None}
        if self.raw.eof or self.ended:
            self.ended = True
            res["ended"] = True
            return res
        if verb == DATACONN:
            if self.pasv_port is not None:
                try:
                    r, w = await self.net.open_connection("127.0.0.1", self.pasv_port)
                    self.data.append((r, w))
                except ConnectionRefusedError:
                    pass
            await self.net.settle()
            # a connection the server refused (second pending one) is closed by it at once
            self.data = [(r, w) for r, w in self.data if not (r.at_eof() and not r._buffer)]
            res["ended"] = False
            return res
        line = verb if arg == "" else verb + " " + arg
        lines = await self.raw.send(line)
        v = verb.lower()
        if payload is not None and v in ("stor", "appe") and self.data and "150" in simnet.final_codes(lines):
            r, w = self.data[0]
            if payload:
                w.write(payload)
            w.close()
            lines += await self.raw.drain_replies()
        codes = simnet.final_codes(lines)
        if codes and codes[-1] == "150":
            # the worker is waiting (data connection / data): let wait_future_timeout pass
            await asyncio.sleep(1.25)
            lines += await self.raw.drain_replies()
            codes = simnet.final_codes(lines)
        res["lines"] = lines
        res["codes"] = codes
        port = parse_passive(lines)
        if port is not None:
            self.pasv_port = port
            # PASV/EPSV close a pending data connection
            await self.net.settle()
            self.data = [(r, w) for r, w in self.data if not r.at_eof()]
        if "150" in codes and self.data:
            r, w = self.data.pop(0)
            await self.net.settle()
            buf = bytes(r._buffer)
            res["data_eof"] = r.at_eof() or r._eof
            if v == "retr":
                res["bytes"] = buf
            elif v in ("list", "mlsd"):
                try:
                    res["listing"] = parse_listing(buf, v)
                except Exception as e:  # unparsable listing: keep raw
                    res["listing"] = [("<unparsable>", False, 0), (repr(buf[:80]), False, 0)]
            if not w.transport.is_closing():
                w.close()
        await self.net.settle()
        self.ended = self.raw.eof or self.raw.reader.at_eof()
        res["ended"] = self.ended
        return res


def make_server(users, tree, backend="memory", tmpdir=None, **kw):
    """users: list of dict(login, password, home, perms=[(path, r, w)])"""
    ulist = []
    for u in users:
        perms = [aioftp.Permission(p, readable=r, writable=w) for p, r, w in u.get("perms", [])] or None
        base = "/" if backend == "memory" else str(tmpdir)
        ulist.append(
            aioftp.User(u["login"], u["password"], base_path=base, home_path=u.get("home", "/"), permissions=perms,
                        maximum_connections=u.get("maxconn"))
        )
    if backend == "memory":
        factory = aioftp.MemoryPathIO
    elif backend == "path":
        factory = aioftp.PathIO
    else:
        factory = aioftp.AsyncPathIO
    server = aioftp.Server(ulist, path_io_factory=factory, **kw)
    if backend == "memory":
        server.path_io_factory.state = mem_state(tree)
    else:
        disk_write(pathlib.Path(tmpdir), tree)
    return server


def final_tree(server, backend, tmpdir=None):
    if backend == "memory":
        return canon_tree(mem_tree(server.path_io_factory.state))
    return canon_tree(disk_tree(pathlib.Path(tmpdir)))
