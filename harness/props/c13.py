"""C13 — backend failures are contained: 451, data channel closed, session lives on.

The REAL aioftp.Server runs on simnet with a fault-injecting backend: a subclass of the shipped backend class
in which the INNERMOST function of every operation (below the class's own decorator stack, which is rebuilt
around it unchanged - so `universal_exception` is exercised exactly where the source puts it) raises an exception (27 classes)
at the k-th backend call of the run - or (the SHAPE dimension) an override of the operation ABOVE that stack, the custom
backend's own method, reports the failure itself as an aioftp.PathIOError (bare, with a `reason` of several shapes, subclasses).  Scripts x every k (single) and pairs (double) are compared with the
extracted Model/Faults.v (instantiated with the facts regenerated from the source) and judged by the
property's own oracle (451, no 2xx, data EOF, follow-ups on the same and on a second session).

Smoke test of the driver (fault at `open` of RETR):
    obs, tree, log = run_impl(script_events("retr"), {4})
"""
import asyncio
import errno
import sys
import time
import shutil
import tempfile
import types

import aioftp

from .. import core, ftpsim, simnet, sx

ID = "C13"
EXTRACT = "ExC13"
TECHNIQUE = (
    "Coq proof over a sequential session model with an explicit fault oracle on the backend interface (every decorator probe, body "
    "call, worker call open/seek/read/write/close/list step/per-entry stat is one oracle position; data-stream ownership and the "
    "order of the workers' async-with items are explicit), parametric in the facts regenerated from server.py/pathio.py (decorator "
    "table, PathConditions probes, dispatcher except entry, context order, universal_exception wrapping) with the closed checks "
    "recomputed by vm_compute; correspondence of the extracted model (instantiated with those facts) against the real server on "
    "simnet with a backend whose k-th call raises, for every k and for pairs"
)
LEVEL_TEXT = (
    "Proved from ONE boolean premise on the regenerated facts (params_ok: universal_exception outermost on every backend operation "
    "incl. the PathConditions probes, dispatcher entry PathIOError -> 451 + continue, known async-with shapes), for every user table, "
    "decorator table, block size, world (= every prior history, tree and remaining fault plan: single, repeated, or a genuine backend "
    "error) and command: C13_fault_gives_451 (+ _generic: replies are exactly [451] or [150;451]: one 451, no 2xx), "
    "C13_no_fault_normal_path (converse), C13_session_survives (not ended; user, login, cwd, listener unchanged; restart offset "
    "cleared / pending rename / data connection as by the fault-free rules), C13_usable_after_fault (PWD -> 257 with the old cwd, PASV -> 227), "
    "C13_every_history and C13_faults_never_end_session (every command of every run), C13_others_unaffected and C13_other_steps_alone "
    "(two sessions on one backend), C13_fault_before_150 (final 451 alone, data connection still the session's), "
    "C13_data_closed (FULL: after 150 the detached data stream is closed on EVERY fault, open() included; obligation "
    "C13_stream_first_obligation: both transfer workers enter the stream context before the file - false on the pre-fix order), "
    "C13_data_closed_stream_first (the same for every parameter set with that order). The restart offset is 0 after any known verb, "
    "failed transfers included (the dispatcher's hand-over rule). "
    "C13_same_wakeup_contained (one wake-up of the dispatcher with ANY finished tasks in any order: each PathIOError task its own 451, "
    "every command line dispatched and parse_command re-armed; obligation C13_round_obligation: each task.result() under its own try), "
    "C13_batch_try_drops (what one try around all results would lose). "
    "C13_shape_obligation (the dispatcher's PathIOError clause never reads the exception object: the reaction is the same for a "
    "PathIOError made by universal_exception, one raised by the backend itself with reason=None or any other reason, and any subclass). "
    "Tied to the code by C13_source_obligations / C13_probe_obligations (vm_compute on facts regenerated from server.py / pathio.py) "
    "and by scripts x every fault position (single, double; 27 exception classes incl. the TimeoutError family and a real path_timeout expiry; "
    "every fault site x 11 shapes of a PathIOError the backend raises itself; three backends) and by the same-wake-up stream (two tasks of one session aligned in one dispatcher round) on the real server."
)
LEVEL_NOTE = (
    "Trusted: Coq kernel, py2v (gen_dispatch, gen_faultsites), extraction, simnet, the fault injector (rebuilds each backend method's "
    "decorator closure around a raising leaf). Modelled not verified: asyncio `async with` enter/exit order and exception "
    "replacement, one command at a time, faults while writing to the data socket, cancellation (C14), custom backends that do "
    "not use universal_exception and raise something else than PathIOError (a custom backend that raises PathIOError itself - any "
    "shape, any subclass - IS exercised: the shape stream; the Coq model has no exception payload, which is what C13_shape_obligation ties to the source)."
)
TRUSTED = [
    "fault injector: types.FunctionType re-closure of the shipped methods' decorator stacks around a leaf that raises (27 classes), outlasts path_timeout, or parks until released",
    "fault injector, shape stream: an override of each operation above the shipped decorator stack raises aioftp.PathIOError / a subclass at the k-th backend call",
    "simnet: EOF / open-transport ledger stands for what a TCP peer would observe",
]
ASSUMPTIONS = [
    "sequential sessions (one command at a time; the harness waits for quiescence before the next command)",
    "the model's tree is the POSIX-like reference of Model/Session.v; MemoryPathIO divergences (C18) are kept out of the corpus",
]

USERS = [{"login": "u", "password": "pw", "home": "/"}]
TREE = {"d": {"f": b"hello world", "e": {}}, "g": b"0123456789", "m": {"a": b"1", "b": b"22"}}
BLK = 4
A, B = 0, 1
DC = ftpsim.DATACONN

# what the injected failure is: the property speaks of the backend FAILING, whatever it raises
# (every Exception subclass except the documented pass-throughs of universal_exception: NotImplementedError "this
# backend does not implement the operation", StopAsyncIteration the iteration protocol; CancelledError is not one).
# The OSError family as the OS raises it: OSError(errno, ..) constructs the subclass (ETIMEDOUT -> TimeoutError, which
# IS asyncio.TimeoutError since 3.11; ECONNRESET -> ConnectionResetError; EACCES -> PermissionError; ...).
KINDS = {
    "os": OSError,
    "value": ValueError,
    "runtime": RuntimeError,
    "etimedout": lambda m: OSError(errno.ETIMEDOUT, m),
    "aio-timeout": asyncio.TimeoutError,
    "conn-reset": lambda m: OSError(errno.ECONNRESET, m),
    "conn-aborted": lambda m: OSError(errno.ECONNABORTED, m),
    "broken-pipe": lambda m: OSError(errno.EPIPE, m),
    "perm": lambda m: OSError(errno.EACCES, m),
    "notfound": lambda m: OSError(errno.ENOENT, m),
    "exists": lambda m: OSError(errno.EEXIST, m),
    "isdir": lambda m: OSError(errno.EISDIR, m),
    "notdir": lambda m: OSError(errno.ENOTDIR, m),
    "eintr": lambda m: OSError(errno.EINTR, m),
    "eagain": lambda m: OSError(errno.EAGAIN, m),
    "enospc": lambda m: OSError(errno.ENOSPC, m),
    "eio": lambda m: OSError(errno.EIO, m),
    "key": KeyError,
    "eof": EOFError,
    "assert": AssertionError,
    "unicode": lambda m: UnicodeDecodeError("utf-8", b"\xff", 0, 1, m),
    "memory": MemoryError,
    "recursion": RecursionError,
    "lookup": IndexError,
    "type": TypeError,
    "attr": AttributeError,
    "incomplete-read": lambda m: asyncio.IncompleteReadError(b"", 1),
    # not an exception thrown by the harness: the operation takes longer than path_timeout and the backend's own
    # `with_timeout` (AsyncPathIO) expires
    "slow": None,
}
KIND_NAMES = tuple(k for k in KINDS if k != "slow")


# ---- the SHAPE of the failure.  The kinds above are raised INSIDE the shipped operation (below its decorator stack): the
# shipped `universal_exception` turns them into PathIOError(reason=sys.exc_info()).  A backend may just as well report its
# own failure the documented way - by raising aioftp.PathIOError ITSELF from a method of its own that carries no
# universal_exception (a quota check in an overridden mkdir / write, a remote store that is down ...).  PathIOError is
# public, `reason` is optional (default None) and nothing says what it holds; subclasses are PathIOErrors.  These kinds
# are raised by an override of the operation ABOVE the shipped decorator stack, so they reach the dispatcher as they are.
class QuotaExceeded(aioftp.PathIOError):
    """plain subclass"""


class BackendDown(aioftp.PathIOError):
    """subclass with a constructor of its own (no `reason` keyword, hence no `reason` attribute; own attributes)"""

    def __init__(self, op):
        Exception.__init__(self, op)
        self.op = op


class DiskError(aioftp.PathIOError, OSError):
    """subclass that is an OSError too (as aioftp's own NoAvailablePort is)"""


def _as_universal_exception_does(m):
    try:
        raise OSError(errno.ENOSPC, m)
    except OSError as e:
        x = aioftp.PathIOError(reason=sys.exc_info())
        x.__cause__ = e
        return x


def _chained(m):
    x = aioftp.PathIOError(m)
    x.__cause__ = OSError(errno.EDQUOT, m)
    return x


SHAPES = {
    "pio-bare": lambda m: aioftp.PathIOError(),
    "pio-msg": lambda m: aioftp.PathIOError(m),
    "pio-chained": _chained,
    "pio-excinfo": _as_universal_exception_does,
    "pio-reason-empty-excinfo": lambda m: aioftp.PathIOError(m, reason=(None, None, None)),  # sys.exc_info() outside a handler
    "pio-reason-exc": lambda m: aioftp.PathIOError(reason=OSError(errno.ENOSPC, m)),
    "pio-reason-str": lambda m: aioftp.PathIOError(m, reason="quota exceeded"),
    "pio-sub": QuotaExceeded,
    "pio-sub-own-init": BackendDown,
    "pio-sub-oserror": lambda m: DiskError(errno.EIO, m),
}
# ... and a PathIOError raised INSIDE the shipped operation (wrapped once more by universal_exception: reason names a PathIOError)
KINDS["pio-inside"] = lambda m: aioftp.PathIOError(m)
SHAPE_NAMES = tuple(SHAPES) + ("pio-inside",)
PATH_TIMEOUT = 3
SEARCH_SECONDS = 90  # wall-clock box of the escalated failing-input search


# operations whose result the server ignores (the interface documents None): a backend may return anything there.
# A run whose kind ends in "/truthy" makes them return truthy values instead of None.
RESULT_IGNORED = ("close", "mkdir", "rmdir", "unlink", "rename")
TRUTHY = (1, True, 4096, "done", (0,), object())


def kind_class(kind):
    kind = kind.partition("/")[0]
    if kind == "slow":
        return "path_timeout-expiry"
    if kind in SHAPES:
        return "by-the-backend-itself:" + kind
    return type(KINDS[kind]("x")).__name__


class Ctl:
    """per-run switches of the fault injector"""

    def __init__(self, kind="os"):
        kind, _, rv = kind.partition("/")
        self.kind = kind
        self.truthy = rv == "truthy"
        self.gate_idx = {}  # backend call index -> asyncio.Event: the call parks there, then raises
        self.gate_ops = {}  # operation name -> asyncio.Event: the NEXT call of that operation parks, then raises
        self.parked = []
        self.async_level = kind == "slow"  # inject above the executor hop (inside with_timeout / universal_exception)
        self.outer = kind in SHAPES  # the backend's own override raises a PathIOError of that shape, above the shipped decorators

OPS = ("exists", "is_dir", "is_file", "mkdir", "rmdir", "unlink", "stat", "_open", "seek", "write", "read", "close", "rename")


# ---------------------------------------------------------------- fault-injecting backend
def rebuild(fn, leaf, async_level=False):
    """a copy of the decorated function `fn` whose innermost (undecorated) function is leaf(innermost); the
    decorator wrappers in between are the SAME code objects with a fresh closure.  async_level: stop at the innermost
    COROUTINE function (for AsyncPathIO: the `_blocking_io` wrapper that hops to the executor), so that the leaf can
    await - still below `with_timeout` and `universal_exception`"""
    inner = getattr(fn, "__wrapped__", None)
    if inner is None or not getattr(fn, "__closure__", None):
        return leaf(fn)
    if async_level:
        chain, x = [], fn
        while x is not None:
            chain.append(x)
            x = getattr(x, "__wrapped__", None)
        below = [asyncio.iscoroutinefunction(x) for x in chain[1:]]
        if asyncio.iscoroutinefunction(fn) and not any(below):
            return leaf(fn)
    cells, hit = [], 0
    for c in fn.__closure__:
        if c.cell_contents is inner:
            cells.append(types.CellType(rebuild(inner, leaf, async_level)))
            hit += 1
        else:
            cells.append(c)
    if hit != 1:
        raise RuntimeError(f"cannot re-close {fn!r}")
    g = types.FunctionType(fn.__code__, fn.__globals__, fn.__name__, fn.__defaults__, tuple(cells))
    g.__kwdefaults__ = fn.__kwdefaults__
    g.__dict__.update({k: v for k, v in fn.__dict__.items() if k != "__wrapped__"})
    g.__wrapped__ = cells[[c.cell_contents is inner for c in fn.__closure__].index(True)].cell_contents
    return g


def fault_factory(base, plan, log, kind="os", ctl=None):
    """subclass of `base` whose k-th backend call (k in plan, counted over the whole run, all sessions) fails from
    INSIDE the operation: raises KINDS[kind], or (kind "slow") outlasts path_timeout, or (ctl.gate_*) parks until the
    harness releases it and raises then; log gets (operation, raised) per call"""
    ctl = ctl or Ctl(kind)

    def ret(name, r):
        if ctl.truthy and r is None and name in RESULT_IGNORED:
            return TRUTHY[len(log) % len(TRUTHY)]
        return r

    def make_exc(i, name):
        k = ctl.kind if ctl.kind != "slow" and not ctl.outer else "os"
        return KINDS[k](f"injected fault at backend call {i} ({name})")

    def override(name, fn):
        """the custom backend's own method: reports ITS failure as a PathIOError of shape ctl.kind, else the shipped operation"""
        if not ctl.outer:
            return fn

        def fail_here():
            i = len(log)
            if i in plan:
                log.append((name, True))
                raise SHAPES[ctl.kind](f"backend reports its own failure at backend call {i} ({name})")

        if asyncio.iscoroutinefunction(fn):

            async def g(self, *a, **k):
                fail_here()
                return await fn(self, *a, **k)

        else:

            def g(self, *a, **k):
                fail_here()
                return fn(self, *a, **k)

        g.__name__ = getattr(fn, "__name__", name)
        return g

    def tick(name):
        i = len(log)
        hit = i in plan
        log.append((name, hit))
        if hit:
            raise make_exc(i, name)
        return i

    def leaf_for(name):
        def leaf(inner):
            if asyncio.iscoroutinefunction(inner):

                async def f(self, *a, **k):
                    i = len(log)
                    gate = ctl.gate_idx.get(i) or ctl.gate_ops.pop(name, None)
                    hit = i in plan or gate is not None
                    log.append((name, hit))
                    if gate is not None:
                        ctl.parked.append(i)
                        await gate.wait()
                        raise make_exc(i, name)
                    if hit and ctl.kind == "slow":
                        await asyncio.sleep(PATH_TIMEOUT * 20)  # cancelled by the backend's own with_timeout
                    if hit:
                        raise make_exc(i, name)
                    try:
                        return ret(name, await inner(self, *a, **k))
                    except (StopAsyncIteration, asyncio.CancelledError):
                        raise
                    except Exception:
                        log[i] = (name, True)
                        raise

            else:

                def f(self, *a, **k):
                    i = tick(name)
                    try:
                        return ret(name, inner(self, *a, **k))
                    except (StopAsyncIteration, StopIteration):
                        raise
                    except Exception:
                        log[i] = (name, True)
                        raise

            return f

        return leaf

    class Faulty(base):
        def list(self, path):
            lister = super().list(path)
            cls = type(lister)
            cls.__anext__ = override("list", rebuild(cls.__anext__, leaf_for("list"), ctl.async_level))
            return lister

    for n in OPS:
        setattr(Faulty, n, override(n.lstrip("_"), rebuild(getattr(base, n), leaf_for(n.lstrip("_")), ctl.async_level)))
    return Faulty


# ---------------------------------------------------------------- driver
class Sess(ftpsim.Session):
    def __init__(self, net, server):
        super().__init__(net, server)
        self.dc = None  # the data connection we made and the server has not consumed yet
        self.patience = 0  # virtual seconds to wait for a reply that needs time to pass (path_timeout expiry)

    async def ev(self, verb, arg, payload):
        res = {"codes": [], "sent": None, "closed": None, "took": False, "ended": False, "pwd": None}
        if self.raw.eof:
            res["ended"] = True
            return res
        if verb == DC:
            # "make sure a data connection to the CURRENT passive listener is there": one we made and the server has
            # not consumed is still the session's (a second one would be closed by the passive handler)
            if self.pasv_port is not None and self.dc is None:
                try:
                    self.dc = await self.net.open_connection("127.0.0.1", self.pasv_port)
                except ConnectionRefusedError:
                    self.dc = None
            await self.net.settle()
            return res
        lines = await self.raw.send(verb if arg == "" else verb + " " + arg)
        if self.patience:
            await asyncio.sleep(self.patience)
            lines += await self.raw.drain_replies()
        codes = simnet.final_codes(lines)
        v = verb.lower()
        if "150" in codes and self.dc is not None:
            r, w = self.dc
            res["took"] = True
            if v in ("stor", "appe") and not (r._eof or r.exception() is not None):
                if payload:
                    w.write(payload)
                w.write_eof()
                lines += await self.raw.drain_replies()
            # "within virtual time": let half a minute pass
            await asyncio.sleep(30)
            lines += await self.raw.drain_replies()
            codes = simnet.final_codes(lines)
            res["closed"] = bool(r._eof or r.exception() is not None)
            res["sent"] = bytes(r._buffer)
            w.close()
            self.dc = None
        elif codes and codes[-1] == "150":
            await asyncio.sleep(30)  # no data connection: wait_future_timeout -> 425
            lines += await self.raw.drain_replies()
            codes = simnet.final_codes(lines)
        port = ftpsim.parse_passive(lines)
        if port is not None:
            self.pasv_port = port
            if self.dc is not None:  # PASV closes a pending data connection
                self.dc[1].close()
                self.dc = None
        if v == "pwd" and lines:
            res["pwd"] = lines[-1][4:]
        await self.net.settle()
        res["codes"] = codes
        res["ended"] = bool(self.raw.eof or self.raw.reader.at_eof())
        return res


def run_impl(events, plan, backend="memory", kind="os"):
    """-> (observations per event, final tree, backend call log)"""
    tmp = None
    if backend != "memory":
        (core.BUILD / "tmp").mkdir(parents=True, exist_ok=True)
        tmp = tempfile.mkdtemp(dir=str(core.BUILD / "tmp"))
    log, obs = [], []
    plan = set(plan)
    try:

        async def main(net):
            kw = {"path_timeout": PATH_TIMEOUT} if kind.startswith("slow") else {}
            server = ftpsim.make_server(USERS, TREE, backend, tmp, wait_future_timeout=1, block_size=BLK, **kw)
            server.path_io_factory.factory = fault_factory(server.path_io_factory.factory, plan, log, kind)
            await server.start("127.0.0.1", ftpsim.PORT)
            sess = {}
            for who, verb, arg, payload in events:
                if who not in sess:
                    sess[who] = Sess(net, server)
                    sess[who].patience = 2 * PATH_TIMEOUT + 1 if kind.startswith("slow") else 0
                    await sess[who].start()
                n0 = len(log)
                r = await sess[who].ev(verb, arg, payload)
                r["calls"] = [(m, bool(h)) for m, h in log[n0:]]
                r["probe"] = sess[who].probe()
                r["srv_data_open"] = len([t for t in net.open_transports("server") if t.listener_port != ftpsim.PORT])
                obs.append(r)
            tree = ftpsim.final_tree(server, backend, tmp)
            await server.close()
            return tree

        tree = simnet.run(main)
        return obs, tree, log
    finally:
        if tmp:
            shutil.rmtree(tmp, ignore_errors=True)


# ---------------------------------------------------------------- two tasks of one session finishing in the same wake-up
ROUND_FIRST = {
    "retr": ("RETR", "g", None), "stor": ("STOR", "new", b"abcdefghij"), "list": ("LIST", "d", None), "mlsd": ("MLSD", "", None),
    "mkd": ("MKD", "x", None), "dele": ("DELE", "g", None),
}
# what else finishes at that moment: parse_command with the next line (known verb / unknown verb), or another command
# whose backend call fails
ROUND_SECOND = {
    "pwd": ("line", "PWD", "257"), "unknown": ("line", "XYZZ", "502"),
    "mkd": ("fail", "MKD y", "mkdir"), "dele": ("fail", "DELE d/f", "unlink"),
}


async def spin(n):
    for _ in range(n):
        await asyncio.sleep(0)


def run_round_impl(first, j, second, d):
    """The j-th backend call of command `first` parks inside the backend; then the `second` event is prepared (the next
    command line written but held on the wire, or a pipelined command whose own backend call parks too); then both are
    let go d event-loop iterations apart (d < 0: the second one first), so that for some d both tasks are done in the
    same wake-up of the dispatcher.  -> observation dict"""
    log, out = [], {"first": first, "j": j, "second": second, "d": d}

    async def main(net):
        server = ftpsim.make_server(USERS, TREE, "memory", None, wait_future_timeout=1, block_size=BLK)
        ctl = Ctl("eio")
        g1 = asyncio.Event()
        ctl.gate_idx[j] = g1
        server.path_io_factory.factory = fault_factory(server.path_io_factory.factory, set(), log, "eio", ctl)
        await server.start("127.0.0.1", ftpsim.PORT)
        rounds = []
        orig_wait = asyncio.wait

        async def spy(fs, **kw):
            done, pending = await orig_wait(fs, **kw)
            if kw.get("return_when") == asyncio.FIRST_COMPLETED:
                rounds.append(len(done))
            return done, pending

        asyncio.wait = spy
        try:
            a, b = Sess(net, server), Sess(net, server)
            for s_ in (a, b):
                await s_.start()
                await s_.ev("USER", "u", None)
                await s_.ev("PASS", "pw", None)
            await a.ev("PASV", "", None)
            await a.ev(DC, "", None)
            verb, arg, payload = ROUND_FIRST[first]
            mark = len(rounds)
            lines = await a.raw.send(verb if arg == "" else verb + " " + arg)
            out["took"] = took = "150" in simnet.final_codes(lines) and a.dc is not None
            if took and payload is not None:
                a.dc[1].write(payload)
                a.dc[1].write_eof()
                lines += await a.raw.drain_replies()
            kind2, line2, what2 = ROUND_SECOND[second]
            g2 = asyncio.Event()
            if ctl.parked != [j]:
                out["skip"] = "first command does not reach that call"
            elif kind2 == "fail":
                ctl.gate_ops[what2] = g2
                lines += await a.raw.send(line2)
                if len(ctl.parked) != 2:
                    out["skip"] = "second command did not reach its call"
                let_second = g2.set
            else:
                link = a.raw.writer.transport.out
                link.hold = True
                a.raw.writer.write(line2.encode() + b"\r\n")
                let_second = link.release
            if "skip" in out:
                g1.set()
                g2.set()
                await net.settle()
            else:
                mark = len(rounds)
                if d >= 0:
                    g1.set()
                    await spin(d)
                    let_second()
                else:
                    let_second()
                    await spin(-d)
                    g1.set()
                lines += await a.raw.drain_replies()
                await asyncio.sleep(30)
                lines += await a.raw.drain_replies()
                out["codes"] = simnet.final_codes(lines)
                out["max_done"] = max(rounds[mark:] or [0])
                if took:
                    r, w = a.dc
                    out["closed"] = bool(r._eof or r.exception() is not None)
                    w.close()
                    a.dc = None
                out["ended"] = bool(a.raw.eof or a.raw.reader.at_eof())
                out["later"] = (await a.ev("PWD", "", None))["codes"]
                out["other"] = (await b.ev("PWD", "", None))["codes"]
                out["calls"] = [(m, bool(h)) for m, h in log]
            await server.close()
        finally:
            asyncio.wait = orig_wait

    simnet.run(main)
    return out


def round_expect(o):
    """what the property demands of such a run: (number of 451, other final codes as a sorted list)"""
    kind2, line2, what2 = ROUND_SECOND[o["second"]]
    n451 = 1 + (1 if kind2 == "fail" else 0)
    others = (["150"] if o["took"] else []) + ([what2] if kind2 == "line" else [])
    return n451, sorted(others)


def round_oracle(ctx, o):
    rep = {"stream": "same-round", "first": o["first"], "j": o["j"], "second": o["second"], "d": o["d"]}
    n451, others = round_expect(o)
    codes = o["codes"]
    why = None
    if o["ended"]:
        why = "session-ended"
    elif codes.count("451") < n451:
        why = "failed-command-without-451"
    elif codes.count("451") > n451:
        why = "too-many-451"
    elif any(c.startswith("2") and c not in others for c in codes):
        why = "success-reply-despite-fault"
    elif sorted(c for c in codes if c != "451") != others:
        why = "concurrent-command-not-answered"
    elif o["took"] and not o["closed"]:
        why = "data-not-closed"
    elif o["later"] != ["257"]:
        why = "session-deaf-afterwards"
    elif o["other"] != ["257"]:
        why = "second-session-affected"
    if why:
        op = o["calls"][o["j"]][0] if o["j"] < len(o["calls"]) else "?"
        ctx.violation(
            f"property oracle (two tasks done in one wake-up): {why} ({' '.join(ROUND_FIRST[o['first']][:2])} failing at backend call "
            f"{o['j']} ({op}) while {ROUND_SECOND[o['second']][1]!r} {'fails too' if ROUND_SECOND[o['second']][0] == 'fail' else 'arrives'}; "
            f"replies {codes}, later PWD {o['later']})",
            dict(rep, key=f"c13-round-{why}-{o['first']}-{op}-{o['second']}", codes=codes, later=o["later"], max_done=o["max_done"]),
        )
        return False
    return True


def round_model_case(o):
    kind2 = ROUND_SECOND[o["second"]]
    second = [0, 1] if kind2[0] == "fail" else [2, 1 if kind2[2] == "257" else 0]
    return (2, [[0, 1], second])


def round_compare(ctx, o, mo):
    """the dispatcher-round model against the run, when both tasks were indeed done in one wake-up"""
    if o["max_done"] < 2:
        return True
    codes, spawned, reparsed, alive = mo
    m451 = sx.txts(codes).count("451")
    kind2 = ROUND_SECOND[o["second"]]
    got_second = (kind2[2] in o["codes"]) if kind2[0] == "line" else None
    bad = None
    if m451 != o["codes"].count("451"):
        bad = ("number-of-451", m451, o["codes"].count("451"))
    elif kind2[0] == "line" and bool(reparsed) != (o["later"] == ["257"]):
        bad = ("parse_command-rearmed", bool(reparsed), o["later"])
    elif kind2[0] == "line" and got_second != bool(spawned or "502" in sx.txts(codes)):
        bad = ("line-dispatched", bool(spawned or "502" in sx.txts(codes)), got_second)
    elif bool(alive) == o["ended"]:
        bad = ("dispatcher-alive", bool(alive), not o["ended"])
    if bad:
        ctx.disagree("dispatcher-round", {"first": o["first"], "j": o["j"], "second": o["second"], "d": o["d"], "kind": bad[0]}, str(bad[1]), str(bad[2]))
        return False
    return True


def round_stream(ctx):
    thorough = ctx.tier == "thorough"
    offsets = list(range(-4, 5)) if thorough else [-2, -1, 0, 1, 2]
    cases = []
    for first in ROUND_FIRST:
        n = len(log_of_first(first))
        for j in range(n):
            for second in ROUND_SECOND:
                for d in offsets:
                    cases.append((first, j, second, d))
    return cases


_first_calls = {}


def log_of_first(first):
    """backend calls the first command makes when nothing fails"""
    if first not in _first_calls:
        events = login(A) + data(A) + [(A,) + ROUND_FIRST[first]]
        obs, _, _ = run_impl(events, set(), "memory")
        _first_calls[first] = obs[-1]["calls"]
    return _first_calls[first]


def check_rounds(ctx):
    cases = round_stream(ctx)
    aligned = 0
    obs = []
    if getattr(ctx, "deadline", None):
        cases = ctx.rng.sample(cases, min(len(cases), 300))
    for first, j, second, d in cases:
        if getattr(ctx, "deadline", None) and time.time() > ctx.deadline:
            break
        try:
            o = run_round_impl(first, j, second, d)
        except Exception as e:  # the implementation (or the driver on it) blew up: an observation, not the end of the run
            ctx.disagree("dispatcher-round", {"first": first, "j": j, "second": second, "d": d, "kind": "exception"}, "a run", repr(e)[:300])
            continue
        ctx.traces_impl += 1
        ctx.case(("round", first, j, second, d))
        if "skip" in o:
            ctx.count("round_skipped")
            continue
        ctx.count("round_" + ROUND_SECOND[second][0])
        if o["max_done"] >= 2:
            aligned += 1
        obs.append(o)
    outs = ctx.model([round_model_case(o) for o in obs])
    for o, mo in zip(obs, outs):
        round_compare(ctx, o, mo)
        round_oracle(ctx, o)
    ctx.count("round_runs_with_two_tasks_done_in_one_wakeup", aligned)
    if obs and not aligned:
        ctx.obligation_broken("same-round-alignment", "no run of the same-round stream had two tasks done in one wake-up: the stream is vacuous")


# ---------------------------------------------------------------- corpus
def login(who):
    return [(who, "USER", "u", None), (who, "PASS", "pw", None)]


def data(who):
    return [(who, "PASV", "", None), (who, DC, "", None)]


SCRIPTS = {
    "mkd": [("MKD", "x", None)],
    "rmd": [("RMD", "d/e", None)],
    "rmd-nonempty": [("RMD", "d", None)],  # a GENUINE backend error, no injection needed
    "dele": [("DELE", "g", None)],
    "rename": [("RNFR", "g", None), ("RNTO", "h", None)],
    "cwd": [("CWD", "d", None)],
    "mlst-dir": [("MLST", "d", None)],
    "mlst-file": [("MLST", "g", None)],
    "list": [("LIST", "d", None)],
    "mlsd": [("MLSD", "", None)],
    "retr": [("RETR", "g", None)],
    "stor": [("STOR", "new", b"abcdefghij")],
    "appe": [("APPE", "g", b"XYZWV")],
    "rest-stor": [("REST", "3", None), ("STOR", "g", b"ABCDEF")],
    "rest-retr": [("REST", "3", None), ("RETR", "g", None)],
    "retr-stor": [("RETR", "g", None), "data", ("STOR", "g", b"new content!")],
    # r+b on a missing file is a genuine open() failure (all three backends since MemoryPathIO validates r+b opens)
    "rest-stor-missing": [("REST", "3", None), ("STOR", "nofile", b"ABCDEF")],
    "list-homog": [("LIST", "m", None)],
    "mlsd-homog": [("MLSD", "m", None)],
}
MEMORY_SCRIPTS = list(SCRIPTS)
# on disk the listing order is the file system's: only listings whose entries are all of one kind
DISK_SCRIPTS = ["mkd", "rmd-nonempty", "dele", "rename", "cwd", "mlst-file", "list-homog", "mlsd-homog", "retr", "stor", "appe",
                "rest-stor", "rest-stor-missing"]
ASYNC_SCRIPTS = ["retr", "rest-stor", "mlsd-homog"]
# follow-ups: PWD; a transfer on the SAME passive listener (a new connection to it, no new PASV - standard clients may
# reuse the listener; aioftp's own client never does); a fresh PASV + transfer; the second session
SAME_LISTENER = 2  # index in FOLLOW of the transfer that reuses the listener
FOLLOW = ([(A, "PWD", "", None), (A, DC, "", None), (A, "LIST", "/m", None)] + data(A) + [(A, "LIST", "/m", None), (B, "PWD", "", None)]
          + data(B) + [(B, "RETR", "/d/f", None)])


def script_events(name):
    ev = login(A) + login(B) + data(A)
    for e in SCRIPTS[name]:
        ev += data(A) if e == "data" else [(A,) + e]
    return ev + FOLLOW


def n_main(name):
    """index of the first follow-up event"""
    return len(script_events(name)) - len(FOLLOW)


def user_sx(u):
    return [[u["login"]], [u["password"]], [p for p in u["home"].split("/") if p], []]


def model_case(events, plan):
    n = (max(plan) + 1) if plan else 0
    pl = [1 if i in plan else 0 for i in range(n)]
    evs = [[who, verb.lower() if verb != DC else verb, arg, [payload] if payload is not None else []] for who, verb, arg, payload in events]
    return (0, [[user_sx(u) for u in USERS], ftpsim.tree_to_sx(TREE), evs, pl, BLK])


def decode_step(st):
    codes, dst, sent, info, sess, calls = st
    s = {"logged": bool(sess[1]), "cwd": "/" + "/".join(sx.txts(sess[2])), "rnfr": ("/" + "/".join(sx.txts(sess[3][0]))) if sess[3] else None,
         "rest": sess[4], "passive": bool(sess[5]), "data": bool(sess[6]), "ended": bool(sess[7])}
    return {"codes": sx.txts(codes), "dst": dst, "sent": [bytes(b) for b in sent], "info": sx.txt(info), "sess": s,
            "calls": [(sx.txt(m), bool(r)) for m, r in calls]}


def listed_names(buf, verb):
    return [n for n, _, _ in ftpsim.parse_listing(buf, verb)]


# ---------------------------------------------------------------- model vs implementation
def compare(ctx, name, events, plan, mo, obs, tree, backend, kind="os"):
    steps = [decode_step(s) for s in mo[3]]
    rep = {"script": name, "plan": sorted(plan), "backend": backend, "raises": kind}
    leaked = 0
    pend = {A: False, B: False}
    for i, ((who, verb, arg, payload), m, o) in enumerate(zip(events, steps, obs)):
        v = verb.lower()
        bad = None
        if m["codes"] != o["codes"]:
            bad = ("codes", m["codes"], o["codes"])
        elif m["calls"] != o["calls"]:
            bad = ("backend-calls", m["calls"], o["calls"])
        elif m["sess"]["ended"] != o["ended"]:
            bad = ("ended", m["sess"]["ended"], o["ended"])
        elif (m["dst"] != 0) != o["took"]:
            bad = ("data-connection-taken", m["dst"], o["took"])
        elif o["took"] and (m["dst"] == 2) != o["closed"]:
            bad = ("data-stream-closed", m["dst"] == 2, o["closed"])
        elif o["took"] and v == "retr" and b"".join(m["sent"]) != o["sent"]:
            bad = ("bytes", b"".join(m["sent"]), o["sent"])
        elif o["took"] and v in ("list", "mlsd"):
            got = listed_names(o["sent"], v)
            want = [b.decode() for b in m["sent"]]
            if (sorted(got) != sorted(want)) if backend == "memory" else (len(got) != len(want)):
                bad = ("listing", want, got)
        if bad is None and v == "pwd" and m["codes"] == ["257"] and o["pwd"] != m["info"]:
            bad = ("pwd-text", m["info"], o["pwd"])
        pr = o["probe"]
        if bad is None and pr is not None and not m["sess"]["ended"]:
            ms = m["sess"]
            mine = (ms["logged"], ms["cwd"] if ms["logged"] else None, ms["rest"], ms["passive"], ms["data"], ms["rnfr"] is not None)
            theirs = (pr["logged"], pr["cwd"] if pr["logged"] else None, pr["rest"], pr["passive"], pr["data"], pr["rnfr"] is not None)
            if mine != theirs:
                bad = ("session-state", mine, theirs)
            elif backend == "memory" and ms["rnfr"] != pr["rnfr"]:
                bad = ("rename-from", ms["rnfr"], pr["rnfr"])
        if bad is None:
            # ledger of server-side data transports: pending ones + the ones a faulted worker left open
            pend[who] = m["sess"]["data"]
            if m["dst"] == 1:
                leaked += 1
            want_open = int(pend[A]) + int(pend[B]) + leaked
            if want_open != o["srv_data_open"]:
                bad = ("server-data-transports-open", want_open, o["srv_data_open"])
        if bad:
            ctx.disagree("fault-session", dict(rep, at=i, event=[who, verb, arg], kind=bad[0]), str(bad[1]), str(bad[2]))
            return False
    mt = ftpsim.canon_tree(ftpsim.sx_to_tree(mo[2]))
    if backend != "memory" and any(m == "close" and h for o in obs for m, h in o["calls"]):
        # a real file whose close() failed stays open: what was written sits in its buffer until the object is collected;
        # the content on disk is then not a function of the history (and not part of the property)
        ctx.count("tree_not_compared_after_failed_close_on_disk")
    elif mt != tree:
        ctx.disagree("fault-session-tree", dict(rep, kind="tree"), str(mt), str(tree))
        return False
    return True


# ---------------------------------------------------------------- the property, on the implementation alone
def oracle(ctx, name, events, plan, obs, backend, kind="os"):
    rep = {"script": name, "plan": sorted(plan), "backend": backend, "raises": kind}
    first_follow = n_main(name)
    prev = {}
    last_fault = "nofault"
    for i, ((who, verb, arg, payload), o) in enumerate(zip(events, obs)):
        v = verb.lower()
        if verb == DC:
            continue
        raised = [m for m, h in o["calls"] if h]
        codes = o["codes"]
        why = None
        if raised:
            last_fault = f"{v}-{raised[0]}"
        if raised:
            if o["ended"]:
                why = "session-ended"
            elif codes.count("451") != 1:
                why = "not-exactly-one-451"
            elif any(c.startswith("2") for c in codes):
                why = "success-reply-despite-fault"
            elif [c for c in codes if c not in ("150", "451")]:
                why = "unexpected-reply"
            elif "150" in codes and o["took"] and not o["closed"]:
                why = "data-not-closed"
            else:
                pr, pv = o["probe"], prev.get(who)
                if pr is None:
                    why = "session-gone"
                elif pv is not None and (pr["logged"], pr["cwd"], pr["passive"], pr["user"]) != (pv["logged"], pv["cwd"], pv["passive"], pv["user"]):
                    why = "session-state-changed"
        elif i >= first_follow:
            # follow-up probes (no backend call of theirs failed): the session - and the other session - work as usual
            want = {"pwd": ["257"], "pasv": ["227"], "list": ["150", "226"], "retr": ["150", "226"]}[v]
            if codes != want or o["ended"]:
                why = "follow-up-fails"
            elif v == "list" and (not o["closed"] or sorted(listed_names(o["sent"], v)) != ["a", "b"]):
                why = "follow-up-listing-wrong"
            elif v == "retr" and (not o["closed"] or o["sent"] != TREE["d"]["f"]):
                why = "follow-up-download-wrong"
            if why and who == B:
                why = "second-session-" + why
            elif why and i == first_follow + SAME_LISTENER:
                why = "next-transfer-on-same-listener-" + why
        if why:
            key = f"c13-{why}-{v}-{raised[0]}" if raised else f"c13-{why}-{v}-after-{last_fault}"
            ctx.violation(
                f"property oracle: {why} ({verb} {arg}; raising backend calls {raised})",
                dict(rep, key=key, at=i, event=[who, verb, arg], codes=codes, calls=[list(c) for c in o["calls"]]),
            )
            return False
        if o["probe"] is not None:
            prev[who] = o["probe"]
    return True


# ---------------------------------------------------------------- streams
def plans_for(rng, n, thorough):
    singles = [{k} for k in range(n)]
    doubles = []
    if thorough:
        doubles = [{k, j} for k in range(n) for j in range(k + 1, n + 2)]
    else:
        for k in range(n):
            doubles.append({k, k + 1})
            doubles.append({k, rng.randint(k + 1, n + 1)})
    seen, out = set(), []
    for p in singles + doubles:
        t = tuple(sorted(p))
        if t not in seen:
            seen.add(t)
            out.append(p)
    return out


def set_model_switch(ctx):
    """when the regenerated facts say that the hand-written bodies no longer stand for the source (a translator failed
    closed, an unknown async-with item, a new call site ...) the model's predictions mean nothing: the comparison is
    switched off and the implementation is judged by the property oracle alone"""
    names = ("translator_ok", "faultsites_ok", "sites_ok", "workers_ok", "conds_ok", "params_ok")
    usable = dict(zip(names, (bool(x) for x in ctx.model([(3, [])])[0])))
    ctx.extra["model_is_a_model_of_this_source"] = usable
    ctx.model_off = [k for k, v in usable.items() if not v]


def check_case(ctx, name, events, plan, mo, backend, kind="os"):
    try:
        obs, tree, log = run_impl(events, plan, backend, kind)
    except Exception as e:  # the implementation (or the driver on it) blew up: an observation, the search goes on
        ctx.disagree("fault-session", {"script": name, "plan": sorted(plan), "backend": backend, "raises": kind, "kind": "exception"},
                     "a run", repr(e)[:300])
        return False, []
    ctx.traces_impl += 1
    if getattr(ctx, "model_off", None):
        ctx.count("runs_judged_by_the_oracle_alone")
        oracle(ctx, name, events, plan, obs, backend, kind)
        return False, obs
    ok = compare(ctx, name, events, plan, mo, obs, tree, backend, kind)
    oracle(ctx, name, events, plan, obs, backend, kind)
    return ok, obs


def correspondence(ctx, budget=None):
    rng = ctx.rng
    thorough = ctx.tier == "thorough"
    ctx.extra["rule"] = (
        "scripts {MKD, RMD (empty / non-empty = genuine error), DELE, RNFR+RNTO, CWD, MLST dir/file, LIST, MLSD, RETR, STOR, APPE, "
        "REST+STOR, REST+RETR, RETR then STOR, REST+STOR on a missing file (genuine open failure)} after login of two sessions "
        "and with the data connection made, followed by probes on the same session (PWD; a LIST over a NEW connection to the SAME passive "
        "listener, no new PASV; fresh PASV + LIST) and on the second one "
        "(PWD, PASV + RETR); block size 4 so that transfers make several read/write calls. For each script the fault-free run counts "
        "the N backend calls of the whole run; then every single fault k < N and double faults (quick: (k,k+1) and (k,random); thorough: "
        "all pairs) are run on the real server with the fault-injecting backend (the injected exception rotates over 27 classes: the OSError family as the "
        "OS constructs it from errno - ETIMEDOUT = TimeoutError = asyncio.TimeoutError, ECONNRESET, EPIPE, EACCES, ENOENT, EEXIST, EISDIR, "
        "ENOTDIR, EINTR, EAGAIN, ENOSPC, EIO - and ValueError, RuntimeError, KeyError, EOFError, AssertionError, UnicodeDecodeError, "
        "MemoryError, RecursionError, IndexError, TypeError, AttributeError, IncompleteReadError; thorough: every single fault with each "
        "class on the in-memory backend; on AsyncPathIO additionally every single position as an operation that outlasts path_timeout so "
        "that the backend's own with_timeout expires): MemoryPathIO for all, PathIO (tmpdir) and AsyncPathIO "
        "for subsets. Compared with the model per command: reply codes, backend call sequence with raise marks, data connection "
        "taken / closed (client-side EOF after 30 virtual seconds), bytes / listing received, session probe, server-side open data "
        "transports, final tree. Every other run uses a backend whose result-ignored operations (close, mkdir, rmdir, unlink, rename) return "
        "truthy values instead of None. SHAPE of the failure: besides exceptions raised inside the shipped operation (wrapped by universal_exception) "
        "the backend reports its failure ITSELF - an override above the shipped decorator stack raises aioftp.PathIOError() / PathIOError(msg) / "
        "with __cause__ / reason=sys.exc_info() / reason=(None, None, None) / reason=<exception> / reason=<str> / a plain subclass / a subclass with "
        "its own constructor (no reason attribute) / a subclass that is an OSError too, and PathIOError raised inside the shipped operation: every fault "
        "site (backend, command, operation) x every shape on MemoryPathIO (two shapes per site on PathIO / AsyncPathIO), every other single position and "
        "every third double with one rotating shape; thorough: every single position x every shape. Non-trivial = distinct (backend, script, fault plan, class/return mode). SAME-ROUND stream: the j-th backend call "
        "of RETR / STOR / LIST / MLSD / MKD / DELE (every j) parks inside the backend; then either the next command line (PWD, or an "
        "unknown verb) is written but held on the wire, or a pipelined MKD / DELE parks in its own backend call; both are let go d loop "
        "iterations apart (quick d in -2..2, thorough -4..4) so that both tasks are done in ONE wake-up of the dispatcher (counted by a spy "
        "on asyncio.wait; the stream is vacuous-checked); oracle: every failed command has its own 451, the concurrent line is answered, "
        "data EOF, the session and the other session answer PWD afterwards; compared with Model/FaultsRound.v (fn 2)."
    )
    params = ctx.model([(1, [])])[0]
    set_model_switch(ctx)
    ctx.extra["model_parameters_from_source"] = {
        "ctx_stor": sx.txts(params[0]), "ctx_retr": sx.txts(params[1]), "ctx_list": sx.txts(params[2]), "ctx_mlsd": sx.txts(params[3]),
        "dispatcher_pathioerror": sx.txts(params[4][0]) if params[4] else None,
        "unwrapped_ops": [sx.txt(m) for m, w in params[5] if not w],
    }
    jobs = []
    seen_sites = set()
    todo = [("memory", s) for s in MEMORY_SCRIPTS] + [("path", s) for s in DISK_SCRIPTS] + [("async", s) for s in ASYNC_SCRIPTS]
    for backend, name in todo:
        events = script_events(name)
        obs0, tree0, log0 = run_impl(events, set(), backend)
        n = len(log0)
        ctx.count("backend_calls_in_fault_free_runs", n)
        # fault SITE of every position: (command, operation)
        site_of = [(e[1].lower(), m) for e, o in zip(events, obs0) for m, _ in o["calls"]]
        plans = [set()] + plans_for(rng, n, thorough)
        if backend == "async" or (backend == "path" and not thorough):
            plans = [p for p in plans if len(p) <= 1] + [p for p in plans if len(p) > 1][:: 4]
        if budget:
            plans = plans[:1] + rng.sample(plans[1:], min(len(plans) - 1, budget))
        for p in plans:
            # the exception class rotates over the positions; thorough: every single fault with every class
            kind = KIND_NAMES[(sum(p) + len(jobs)) % len(KIND_NAMES)] if p else "os"
            # every other run on a backend whose result-ignored operations (close, mkdir, ...) return truthy values
            if len(jobs) % 2 == 1:
                kind += "/truthy"
            jobs.append((backend, name, events, p, kind))
            if not p:
                jobs.append((backend, name, events, p, "os/truthy"))
            if thorough and not budget and len(p) == 1 and backend == "memory":
                jobs.extend((backend, name, events, p, k2) for k2 in KIND_NAMES + SHAPE_NAMES if k2 != kind)
            elif p:
                # the SHAPE of the failure: the backend reports it ITSELF as a PathIOError (bare, with a reason of some shape,
                # a subclass).  Every fault site (backend, command, operation) x every shape once; every other single
                # position and every third double with one shape (rotating)
                site = (backend,) + site_of[min(p)] if min(p) < len(site_of) else None
                shapes = ()
                if len(p) == 1 and site not in seen_sites and not budget:
                    seen_sites.add(site)
                    shapes = SHAPE_NAMES if backend == "memory" else tuple(SHAPE_NAMES[(len(jobs) + j) % len(SHAPE_NAMES)] for j in (0, 5))
                elif (len(p) == 1 and backend == "memory") or len(jobs) % 3 == 0:
                    shapes = (SHAPE_NAMES[(sum(p) + len(jobs)) % len(SHAPE_NAMES)],)
                for j, k2 in enumerate(shapes):
                    jobs.append((backend, name, events, p, k2 + ("/truthy" if (len(jobs) + j) % 2 else "")))
            if len(p) == 1 and backend == "async":
                # the operation outlasts path_timeout: the backend's own with_timeout expires (AsyncPathIO only has one)
                jobs.append((backend, name, events, p, "slow/truthy" if len(jobs) % 2 else "slow"))
    model_out = ctx.model([model_case(ev, p) for _, _, ev, p, _ in jobs])
    xcheck = []
    sites = {}
    for (backend, name, events, plan, kind), mo in zip(jobs, model_out):
        ctx.case((backend, name, tuple(sorted(plan)), kind))
        ctx.count("backend_" + backend)
        ctx.count("faults_%d" % len(plan))
        if plan:
            ctx.count("raises_" + kind_class(kind))
            ctx.count("failure_shape_" + ("PathIOError_raised_by_the_backend_itself" if kind.partition("/")[0] in SHAPES else "exception_inside_the_shipped_operation"))
        if kind.endswith("/truthy"):
            ctx.count("backend_returns_truthy_where_None_is_documented")
        if getattr(ctx, "deadline", None) and time.time() > ctx.deadline:
            ctx.notes.append("failing-input search stopped at its time box")
            break
        ok, obs = check_case(ctx, name, events, plan, mo, backend, kind)
        for o in obs:
            for m, h in o["calls"]:
                if h:
                    sites[m] = sites.get(m, 0) + 1
        if ok and len(plan) == 1 and len(xcheck) < 16 and rng.random() < 0.05:
            xcheck.append(model_case(events, plan) + (mo,))
        if len(ctx.samples) < 5 and len(plan) == 2 and rng.random() < 0.02:
            ctx.sample({"backend": backend, "script": name, "plan": sorted(plan),
                        "transcript": [[e[1], e[2], o["codes"]] for e, o in zip(events, obs) if e[1] != DC]})
    ctx.extra["raising_call_sites_exercised"] = sites
    check_rounds(ctx)
    ok, out = core.vm_crosscheck(EXTRACT, [(fn, a, r) for fn, a, r in xcheck])
    ctx.extra["vm_compute_crosscheck"] = {"cases": len(xcheck), "agree": ok}
    if not ok:
        ctx.obligation_broken("extraction-crosscheck", out)


def search(ctx):
    if ctx.violations or ctx.exe is None:
        return
    if getattr(ctx, "model_off", None):
        # nothing to learn from model disagreements; the oracle-only pass over the quick streams has been made
        ctx.notes.append(f"model switched off ({ctx.model_off}); no escalation of the search")
        return
    try:
        # the thorough streams, sampled and time-boxed: the search must end with a verdict inside the quick budget
        ctx.tier = "thorough"
        ctx.deadline = time.time() + SEARCH_SECONDS
        correspondence(ctx, budget=25)
    except Exception as e:
        ctx.notes.append(f"search aborted: {e!r}")


def replay(ctx, data):
    r = data.get("replay", {})
    if r.get("stream") == "same-round":
        before = len(ctx.violations) + len(ctx.disagreements)
        o = run_round_impl(r["first"], r["j"], r["second"], r["d"])
        print({k: o.get(k) for k in ("first", "j", "second", "d", "skip", "took", "codes", "closed", "ended", "later", "other", "max_done")})
        if "skip" not in o:
            round_compare(ctx, o, ctx.model([round_model_case(o)])[0])
            round_oracle(ctx, o)
        return len(ctx.violations) + len(ctx.disagreements) == before
    if "script" not in r:
        print(data)
        return False
    name, plan, backend, kind = r["script"], set(r["plan"]), r.get("backend", "memory"), r.get("raises", "os")
    set_model_switch(ctx)
    events = script_events(name)
    mo = ctx.model([model_case(events, plan)])[0]
    before = len(ctx.violations) + len(ctx.disagreements) + len(ctx.known_hits)
    ok, obs = check_case(ctx, name, events, plan, mo, backend, kind)
    for e, o in zip(events, obs):
        if e[1] != DC:
            print("AB"[e[0]], e[1], e[2], "->", o["codes"], [m + ("!" if h else "") for m, h in o["calls"]],
                  ("data closed" if o["closed"] else "DATA LEFT OPEN") if o["took"] else "")
    return len(ctx.violations) + len(ctx.disagreements) + len(ctx.known_hits) == before
