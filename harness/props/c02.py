"""C02 — every client-supplied path stays inside the user's base directory.

Correspondence of coq/Lib/PosixPath.v, coq/Lib/WinPath.v with the real pathlib, of
coq/Model/Paths.v / PathsWin.v with the real Server.get_paths (both flavours of base_path),
and the property oracle (confined + virtual = normalised location) evaluated on the real
outputs, independent of the model."""
import asyncio
import itertools
import pathlib

import aioftp

from .. import core, sx

ID = "C02"
EXTRACT = "ExC02"
TECHNIQUE = (
    "Coq proof (fold invariants over a model of pathlib.PurePosixPath) about a statement-by-statement model of "
    "Server.get_paths, equated with an independent stack specification `normalize`; tied to the code by bounded-exhaustive "
    "differential correspondence of the extracted model against the real pathlib and the real Server.get_paths"
)
LEVEL_TEXT = (
    "POSIX flavour: C02_get_paths_spec, C02_virt_normal, C02_virt_spec, C02_alias_same, C02_real_is_base_plus_virt, "
    "C02_confined, C02_up_clamps, C02_cwd_invariant, C02_cdup_is_parent are proved for every base path, every absolute "
    "working directory (even with '..'), every string and every CWD/CDUP history (Closed under the global context). "
    "Windows flavour of base_path: the property is refuted (C02_confined_win_refuted, C02_virt_is_location_win_refuted, "
    "C02_drive_escape_win_refuted; known finding F11) and proved for inputs whose resolved components contain neither "
    "backslash nor colon (C02_confined_win_partial). The models are hand-written; the tie is a bounded-exhaustive "
    "correspondence with the real pathlib and the real get_paths (about 3*10^5 cases per quick run)."
)
LEVEL_NOTE = (
    "Trusted: Coq kernel; extraction cross-checked with vm_compute; harness. Modelled, not verified: CPython 3.12 pathlib "
    "(PurePosixPath fully for the operations used; PureWindowsPath only outside UNC/device forms, lower() character-wise); "
    "symlinks (the property is lexical). The statement that handlers obtain paths only through get_paths "
    "(only_through_get_paths) needs Gen.Dispatch and is left to the Session model."
)
TRUSTED = [
    "pathlib model: Lib/PosixPath.v and Lib/WinPath.v stand for CPython 3.12 PurePosixPath / PureWindowsPath "
    "(validated by the bounded-exhaustive streams 'pathlib' and 'winpath' on every run, not proved)",
]
ASSUMPTIONS = [
    "lexical confinement only: symlinks inside base_path are outside the property",
    "the working directory is only ever assigned home_path or the virtual result of get_paths (cwd/cdup handlers; checked by reading, "
    "to be re-checked structurally by the Session model over Gen.Dispatch)",
    "Windows flavour: UNC/device forms (two leading separators) are outside the model; the oracle still runs on the implementation there",
]

SEGS = ["a", "b", "..", ".", "", "a\\b", "..\\..", "C:", "C:x", "C:..", "\\x", ".hidden", "..."]
PREFIXES = ["", "/", "//", "///"]
CWDS = ["/", "/a", "/a/b", "/a/../b", "//x", "/..", "/a\\b/C:"]
POSIX_BASES = ["/srv/ftp", "rel/base", ".", "/srv/../x", "", "/", "//srv/ftp"]
WIN_BASES = ["C:\\ftp", "C:\\ftp\\sub", "ftp\\rel", "C:\\ftp\\..\\x", ".", "\\ftp", "C:/ftp"]


# ---------------------------------------------------------------- independent oracle
def py_normalize(cwd, s):
    """the property's notion of 'normalised absolute form', written without pathlib"""

    def fold(st, segs):
        for seg in segs:
            if seg == "..":
                if st:
                    st.pop()
            elif seg in ("", "."):
                pass
            else:
                st.append(seg)
        return st

    st = [] if s.startswith("/") else fold([], cwd.split("/"))
    return fold(st, s.split("/"))


def special(part):
    return "\\" in part or ":" in part


def oracle(flavour, base, cwd, s, real, virt):
    """returns None when the property holds on this output, else (kind, detail)"""
    norm = py_normalize(cwd, s)
    bparts = base.parts
    rparts = real.parts
    vparts = virt.parts
    if not vparts or vparts[0] != "/" or any(p in ("..", ".", "") or "/" in p for p in vparts[1:]):
        return ("virtual-not-normal", f"virtual parts {vparts!r}")
    if rparts[: len(bparts)] != bparts:
        return ("outside", f"base parts {bparts!r} are not a prefix of real parts {rparts!r}")
    suffix = rparts[len(bparts):]
    if ".." in suffix:
        return ("dotdot", f"'..' below base in real parts {rparts!r}")
    if tuple(suffix) != tuple(vparts[1:]):
        return ("alias", f"real location {suffix!r} differs from virtual path {vparts!r}")
    if list(vparts[1:]) != norm:
        # the is_relative_to guard may send a request to the root on the Windows flavour when a
        # component is special for PureWindowsPath; anything else must be the normal form
        if flavour == "win" and len(vparts) == 1 and any(special(p) for p in norm):
            return None
        return ("virtual-not-normalize", f"virtual {vparts!r} but normalize gives {norm!r}")
    return None


def violation_key(flavour, kind, cwd, s):
    norm = py_normalize(cwd, s)
    if flavour == "win" and any(special(p) for p in norm):
        shape = "backslash" if any("\\" in p for p in norm) else "drive"
        return f"win-{kind}-{shape}"
    return f"{flavour}-{kind}-plain"


# ---------------------------------------------------------------- implementation drivers
class Impl:
    def __init__(self):
        self.loop = asyncio.new_event_loop()
        asyncio.set_event_loop(self.loop)
        self.conn = None
        self.key = None

    def get_paths(self, flavour, base, cwd, s):
        if self.key != (flavour, base, cwd):
            if flavour == "posix":
                user = aioftp.User(base_path=base)
            else:
                user = aioftp.User()
                user.base_path = pathlib.PureWindowsPath(base)
            self.conn = aioftp.Connection(current_directory=pathlib.PurePosixPath(cwd), user=user)
            self.key = (flavour, base, cwd)
        try:
            return aioftp.Server.get_paths(self.conn, s), self.conn.user.base_path
        except ValueError:
            return None, self.conn.user.base_path

    def close(self):
        self.loop.close()


def canon_posix(p):
    anchor = {"": 0, "/": 1, "//": 2}[p.root]
    parts = list(p.parts[1:] if p.root else p.parts)
    return [anchor, parts]


def model_ppath(m):
    return [m[0], sx.txts(m[1])]


def canon_win(p):
    parts = list(p.parts[1:] if p.anchor else p.parts)
    return [p.drive, bool(p.root), parts]


def model_wpath(m):
    return [sx.txt(m[0]), bool(m[1]), sx.txts(m[2])]


def path_strings_n(n, segs=SEGS, prefixes=PREFIXES):
    """every string with exactly n segments"""
    out = set()
    for combo in itertools.product(segs, repeat=n):
        body = "/".join(combo)
        for pre in prefixes:
            out.add(pre + body)
    return sorted(out)


def path_strings(k, segs=SEGS, prefixes=PREFIXES):
    out = set()
    for n in range(0, k + 1):
        out.update(path_strings_n(n, segs, prefixes))
    return sorted(out)


def is_unc(x):
    return len(x) >= 2 and x[0] in "\\/" and x[1] in "\\/"


# ---------------------------------------------------------------- streams
def stream_pathlib(ctx, xcheck):
    """Lib/PosixPath.v against pathlib.PurePosixPath"""
    P = pathlib.PurePosixPath
    segs = ["a", "..", ".", "", "a\\b", ".h", "..."]
    strs = path_strings(4 if ctx.tier == "thorough" else 3, segs) + ["a/", "/a/", "a//b/", "//", "///", "////a", "/./", "./a", "a/./..", "\x00", "a\x00/b"]
    strs = sorted(set(strs))
    cases = []
    for s in strs:
        for fn in (0, 1, 3, 4, 7, 8):
            cases.append((fn, [s]))
    small = path_strings(2, ["a", "b", "..", ".", ""], ["", "/", "//", "///"])
    for a in small:
        for b in small:
            for fn in (2, 5, 6):
                cases.append((fn, [a, b]))
    out = ctx.model(cases)
    for (fn, arg), mo in zip(cases, out):
        ctx.case(("pathlib", fn, tuple(arg)))
        a = P(arg[0])
        if fn == 0:
            im, mc = canon_posix(a), model_ppath(mo)
        elif fn == 1:
            im, mc = str(a), sx.txt(mo)
        elif fn == 2:
            r = a / arg[1]
            # the anchored code also joins Path / PurePosixPath objects: same result as joining the string
            assert r == a / P(arg[1])
            im, mc = [canon_posix(r), str(r)], [model_ppath(mo[0]), sx.txt(mo[1])]
        elif fn == 3:
            im, mc = canon_posix(a.parent), model_ppath(mo)
        elif fn == 4:
            im, mc = a.name, sx.txt(mo)
        elif fn == 5:
            try:
                im = [canon_posix(a.relative_to(arg[1]))]
            except ValueError:
                im = []
            mc = [model_ppath(x) for x in mo]
        elif fn == 6:
            im, mc = a.is_relative_to(arg[1]), bool(mo)
        elif fn == 7:
            im, mc = a.is_absolute(), bool(mo)
        else:
            im, mc = list(a.parts), sx.txts(mo)
        if im != mc:
            ctx.disagree("pathlib", [fn, arg], mc, im)
        if len(xcheck) < 30 and ctx.rng.random() < 0.002:
            xcheck.append((fn, arg, mo))
    ctx.count("pathlib_posix_unary_strings", len(strs))
    ctx.count("pathlib_posix_binary_pairs", len(small) ** 2)


def stream_winpath(ctx, xcheck):
    """Lib/WinPath.v against pathlib.PureWindowsPath (outside UNC forms)"""
    W = pathlib.PureWindowsPath
    segs = ["a", "B", "..", ".", "", "C:", "c:", "C:x", "D:y", "a:b", "::", "..."]
    strs = set()
    for n in range(0, 3):
        for combo in itertools.product(segs, repeat=n):
            for sep in ("\\", "/"):
                body = sep.join(combo)
                for pre in ("", "\\", "/", "C:\\", "C:", "c:/", "D:\\"):
                    strs.add(pre + body)
    strs |= {"C:\\ftp\\..\\x", "a\\b/c", "..\\..\\windows", "C:..", "x\\", "\\\\srv\\share\\x", "//srv/share", "\\/x", "é:\\x", "İ:x"}
    strs = sorted(strs)
    cases = [(20, [s]) for s in strs]
    bases = ["C:\\ftp", "C:\\ftp\\sub", "ftp\\rel", "C:\\ftp\\..\\x", ".", "", "\\ftp", "C:/ftp", "c:ftp", "C:"]
    for b in bases:
        for s in strs:
            cases.append((21, [b, s]))
    rel = sorted(s for s in strs if len(s) <= 8)[:: 3]
    for a in rel:
        for b in bases + ["C:\\FTP", "c:\\ftp", "FTP\\rel"]:
            cases.append((22, [a, b]))
    out = ctx.model(cases)
    n_out = 0
    for (fn, arg), mo in zip(cases, out):
        ctx.case(("winpath", fn, tuple(arg)))
        unc = any(is_unc(x) for x in arg)
        if mo[0] == -1:
            n_out += 1
            if not unc:
                ctx.disagree("winpath", [fn, arg], "outside-fragment", "not a UNC form")
            continue
        if unc:
            ctx.disagree("winpath", [fn, arg], "model answered", "UNC form is outside the fragment")
            continue
        if fn == 20:
            p = W(arg[0])
            im = [canon_win(p), str(p), list(p.parts)]
            mc = [model_wpath(mo[1][0]), sx.txt(mo[1][1]), sx.txts(mo[1][2])]
        elif fn == 21:
            p = W(arg[0]) / arg[1]
            im = [canon_win(p), str(p), list(p.parts)]
            mc = [model_wpath(mo[1][0]), sx.txt(mo[1][1]), sx.txts(mo[1][2])]
        else:
            im, mc = W(arg[0]).is_relative_to(W(arg[1])), bool(mo[1])
        if im != mc:
            ctx.disagree("winpath", [fn, arg], mc, im)
        if len(xcheck) < 50 and ctx.rng.random() < 0.002:
            xcheck.append((fn, arg, mo))
    ctx.count("pathlib_windows_cases", len(cases))
    ctx.count("pathlib_windows_outside_fragment", n_out)


def check_get_paths(ctx, impl, flavour, base, cwd, s, mo, stream):
    """compare one real get_paths call with the model and run the oracle on the real output"""
    res, base_obj = impl.get_paths(flavour, base, cwd, s)
    ctx.traces_impl += 1
    if res is None:
        im = "ValueError"
    else:
        real, virt = res
        if flavour == "posix":
            im = [canon_posix(real), canon_posix(virt), str(real), str(virt)]
        else:
            im = [canon_win(real), canon_posix(virt), str(real), str(virt)]
    if mo[0] == -1:
        mc = "ValueError" if mo[1] == 1 else "outside-fragment"
    elif flavour == "posix":
        mc = [model_ppath(mo[1][0]), model_ppath(mo[1][1]), sx.txt(mo[1][2]), sx.txt(mo[1][3])]
    else:
        mc = [model_wpath(mo[1][0]), model_ppath(mo[1][1]), sx.txt(mo[1][2]), sx.txt(mo[1][3])]
    if mc == "outside-fragment":
        ctx.count("get_paths_windows_outside_fragment")
        if not (is_unc(base) or is_unc("/".join(py_normalize(cwd, s)))):
            ctx.disagree(stream, [flavour, base, cwd, s], mc, im)
    elif mc != im:
        ctx.disagree(stream, [flavour, base, cwd, s], mc, im)
    if res is None:
        ctx.violation("get_paths raised ValueError", {"key": f"{flavour}-raises", "flavour": flavour, "base": base, "cwd": cwd, "path": s})
        return
    bad = oracle(flavour, base_obj, cwd, s, real, virt)
    if bad is not None:
        kind, detail = bad
        ctx.violation(
            f"get_paths breaks confinement/normal form ({kind}): {detail}",
            {"key": violation_key(flavour, kind, cwd, s), "flavour": flavour, "base": base, "cwd": cwd, "path": s,
             "real": str(real), "virtual": str(virt), "kind": kind},
        )


def stream_get_paths(ctx, xcheck, k=None, n_random=None):
    thorough = ctx.tier == "thorough"
    k = k or (4 if thorough else 3)
    n_random = n_random or (60000 if thorough else 6000)
    rng = ctx.rng
    strs = path_strings(k)
    ctx.count(f"path_strings_exhaustive_k{k}", len(strs))
    impl = Impl()
    combos = [("posix", b, c) for b in POSIX_BASES for c in CWDS] + [("win", b, c) for b in WIN_BASES for c in CWDS]
    if not thorough:
        # quick: every (base, cwd) pair sees every string with < k segments; the k-segment layer is spread
        # round-robin over the pairs so that each string is still seen with a quarter of the pairs
        short = path_strings(k - 1)
        seen = set(short)
        long_ = [s for s in path_strings_n(k) if s not in seen]
    for idx, (flavour, base, cwd) in enumerate(combos):
        if thorough:
            mine = strs
        else:
            mine = short + [s for j, s in enumerate(long_) if (j + idx) % 4 == 0]
        fn = 10 if flavour == "posix" else 30
        out = ctx.model([(fn, [base, cwd, s]) for s in mine])
        for s, mo in zip(mine, out):
            ctx.case(("gp", flavour, base, cwd, s))
            check_get_paths(ctx, impl, flavour, base, cwd, s, mo, "get_paths")
            if len(xcheck) < 90 and rng.random() < 0.0005:
                xcheck.append((fn, [base, cwd, s], mo))
        ctx.count(f"get_paths_{flavour}", len(mine))
    # random longer paths (up to 7 segments), random base / cwd built from the same alphabet
    rnd = []
    for _ in range(n_random):
        flavour = rng.choice(["posix", "posix", "win"])
        base = rng.choice(POSIX_BASES if flavour == "posix" else WIN_BASES)
        cwd = "/" + "/".join(rng.choice(SEGS[:4] + SEGS[5:]) for _ in range(rng.randint(0, 4))) if rng.random() < 0.6 else rng.choice(CWDS)
        s = rng.choice(PREFIXES + ["", ""]) + "/".join(rng.choice(SEGS) for _ in range(rng.randint(3, 7)))
        rnd.append((flavour, base, cwd, s))
    rnd.sort()
    out = ctx.model([(10 if f == "posix" else 30, [b, c, s]) for f, b, c, s in rnd])
    for (flavour, base, cwd, s), mo in zip(rnd, out):
        ctx.case(("gpr", flavour, base, cwd, s))
        check_get_paths(ctx, impl, flavour, base, cwd, s, mo, "get_paths_random")
    ctx.count("get_paths_random_long", len(rnd))
    ctx.sample({"stream": "get_paths", "flavour": "posix", "base": "/srv/ftp", "cwd": "/a/../b", "path": "//a/../../b/./..hidden"})
    impl.close()


def stream_normalize(ctx, xcheck):
    """the Coq specification `normalize` against the harness's independent py_normalize"""
    strs = path_strings(3, ["a", "..", ".", "", "b\\c"], PREFIXES)
    cases = [(11, [cwd, s]) for cwd in CWDS for s in strs]
    out = ctx.model(cases)
    for (fn, (cwd, s)), mo in zip(cases, out):
        ctx.case(("norm", cwd, s))
        if sx.txts(mo) != py_normalize(cwd, s):
            ctx.disagree("normalize-spec", [cwd, s], sx.txts(mo), py_normalize(cwd, s))
    ctx.count("normalize_spec_cases", len(cases))
    xcheck.extend((fn, arg, mo) for (fn, arg), mo in list(zip(cases, out))[:: max(1, len(cases) // 10)][:10])


def stream_histories(ctx, xcheck):
    """CWD/CDUP histories: the working directory as the real handlers maintain it
    (current_directory = get_paths(...)[1]; cdup passes current_directory.parent) against
    Model nav_run, and the invariant `cwd stays normalised` on the real values"""
    rng = ctx.rng
    n = 3000 if ctx.tier == "thorough" else 400
    impl = Impl()
    cases = []
    for _ in range(n):
        home = rng.choice(CWDS)
        base = rng.choice(POSIX_BASES)
        h = []
        for _ in range(rng.randint(1, 8)):
            if rng.random() < 0.3:
                h.append([1, rng.random() < 0.85])
            else:
                s = rng.choice(["", "/", "//"]) + "/".join(rng.choice(SEGS) for _ in range(rng.randint(0, 4)))
                h.append([0, s, rng.random() < 0.85])
        cases.append((base, home, h))
    out = ctx.model([(12, [b, c, h]) for b, c, h in cases])
    for (base, home, h), mo in zip(cases, out):
        ctx.case(("hist", base, home, repr(h)))
        user = aioftp.User(base_path=base, home_path=home)
        conn = aioftp.Connection(current_directory=user.home_path, user=user)
        moved = False
        for step in h:
            if step[0] == 0 and step[2]:
                conn.current_directory = aioftp.Server.get_paths(conn, step[1])[1]
                moved = True
            elif step[0] == 1 and step[1]:
                conn.current_directory = aioftp.Server.get_paths(conn, conn.current_directory.parent)[1]
                moved = True
            cur = conn.current_directory
            if moved and (cur.parts[:1] != ("/",) or any(p in ("..", ".", "") for p in cur.parts[1:])):
                ctx.violation("working directory left the normalised form", {"key": "posix-cwd-not-normal", "base": base, "home": home, "history": h, "cwd": str(cur)})
        ctx.traces_impl += 1
        if canon_posix(conn.current_directory) != model_ppath(mo):
            ctx.disagree("histories", [base, home, h], model_ppath(mo), canon_posix(conn.current_directory))
    ctx.count("cwd_histories", n)
    xcheck.extend((12, [b, c, h], mo) for (b, c, h), mo in list(zip(cases, out))[:5])
    impl.close()


# ---------------------------------------------------------------- known findings
WITNESSES = [
    # (finding key, flavour, base, cwd, path)
    ("win-dotdot-backslash", "win", "C:\\ftp", "/", "..\\..\\windows"),
    ("win-alias-drive", "win", "C:\\ftp", "/", "C:foo"),
    ("win-alias-backslash", "win", "C:\\ftp", "/", "a/\\x"),
    ("win-dotdot-drive", "win", "C:\\ftp", "/", "C:.."),
]


def run_witness(flavour, base, cwd, s):
    impl = Impl()
    try:
        res, base_obj = impl.get_paths(flavour, base, cwd, s)
        if res is None:
            return ("raises", "ValueError"), None
        return oracle(flavour, base_obj, cwd, s, *res), res
    finally:
        impl.close()


def known(ctx):
    for f in ctx.kf:
        for key, flavour, base, cwd, s in WITNESSES:
            if key in f.get("keys", []):
                bad, res = run_witness(flavour, base, cwd, s)
                if bad is not None:
                    ctx.known_reproduced(f["id"], f"{key}: get_paths({base!r}, cwd={cwd!r}, {s!r}) -> real {str(res[0])!r}, virtual {str(res[1])!r}: {bad[1]}")


# ---------------------------------------------------------------- entry points
def correspondence(ctx, widen=False):
    ctx.extra["rule"] = (
        "streams: (pathlib) every string of <= 3 segments (4 thorough) over {a,..,.,'',a\\b,.h,...} x prefixes {'','/','//','///'} "
        "through each unary PurePosixPath operation of the model, all pairs of <= 2-segment strings through join/relative_to/"
        "is_relative_to; (winpath) the same for PureWindowsPath over a drive/colon/backslash alphabet; (get_paths) every path "
        "string of <= 3 segments (4 thorough) over the 13-segment alphabet of the property x 4 prefixes x 7 working directories x "
        "7 POSIX + 7 Windows bases on the real Server.get_paths (quick: the 3-segment layer is spread round-robin over the "
        "base/cwd pairs), plus random paths of 3-7 segments; (normalize) the Coq specification against an independent Python "
        "fold; (histories) random CWD/CDUP histories with refused steps. The oracle (real = base + virtual components, no '..' "
        "below base, virtual = normalize) runs on every real output. A case is non-trivial when its input is distinct."
    )
    xcheck = []
    stream_pathlib(ctx, xcheck)
    stream_winpath(ctx, xcheck)
    stream_normalize(ctx, xcheck)
    if widen:
        stream_get_paths(ctx, xcheck, k=4, n_random=40000)
    else:
        stream_get_paths(ctx, xcheck)
    stream_histories(ctx, xcheck)
    ok, out = core.vm_crosscheck(EXTRACT, xcheck[:100])
    ctx.extra["vm_compute_crosscheck"] = {"cases": len(xcheck[:100]), "agree": ok}
    if not ok:
        ctx.obligation_broken("extraction-crosscheck", out)


def search(ctx):
    """the oracle already ran on every real output; when something is broken and no failing input
    was found yet, widen the exhaustive layer once"""
    if ctx.violations or ctx.tier == "thorough" or ctx.exe is None:
        return
    try:
        correspondence(ctx, widen=True)
    except Exception as e:
        ctx.notes.append(f"search aborted: {e!r}")


def replay(ctx, data):
    r = data.get("replay", {})
    if "path" in r:
        bad, res = run_witness(r["flavour"], r["base"], r["cwd"], r["path"])
        print("get_paths ->", None if res is None else (str(res[0]), str(res[1])), "oracle:", bad)
        return bad is None
    if "history" in r:
        asyncio.set_event_loop(asyncio.new_event_loop())
        user = aioftp.User(base_path=r["base"], home_path=r["home"])
        conn = aioftp.Connection(current_directory=user.home_path, user=user)
        ok = True
        for step in r["history"]:
            if step[0] == 0 and step[2]:
                conn.current_directory = aioftp.Server.get_paths(conn, step[1])[1]
            elif step[0] == 1 and step[1]:
                conn.current_directory = aioftp.Server.get_paths(conn, conn.current_directory.parent)[1]
            else:
                continue
            cur = conn.current_directory
            ok = ok and cur.parts[:1] == ("/",) and not any(p in ("..", ".", "") for p in cur.parts[1:])
        print("cwd:", conn.current_directory)
        return ok
    print("replay payload:", data)
    return False
