"""C02 — every client-supplied path stays inside the user's base directory.

Correspondence of coq/Lib/PosixPath.v, coq/Lib/WinPath.v with the real pathlib, of
coq/Model/Paths.v / PathsWin.v with the real Server.get_paths (both flavours of base_path),
and the property oracle (confined + virtual = normalised location) evaluated on the real
outputs, independent of the model."""
import asyncio
import itertools
import os
import pathlib
import shutil
import tempfile
import time

import aioftp

from .. import core, ftpsim, simnet, sx

ID = "C02"
EXTRACT = "ExC02"
TECHNIQUE = (
    "Coq proof (fold invariants over a model of pathlib.PurePosixPath) about a statement-by-statement model of "
    "Server.get_paths, equated with an independent stack specification `normalize`; tied to the code by bounded-exhaustive "
    "differential correspondence of the extracted model against the real pathlib and the real Server.get_paths"
)
LEVEL_TEXT = (
    "POSIX flavour: C02_get_paths_spec, C02_virt_normal, C02_virt_spec, C02_alias_same, C02_real_is_base_plus_virt, "
    "C02_confined, C02_up_clamps, C02_cwd_invariant, C02_cdup_is_parent are proved for every base path, every absolute "
    "working directory (even with '..'), every string and every CWD/CDUP history (Closed under the global context). "
    "C02_names_are_kept, C02_decorated_dotdot_is_a_name_r/_l, C02_decorated_dotdot_not_folded: a segment folds only when it is exactly '..'; "
    "'..' (or any text) decorated with blanks, TABs, NBSP or any other code point is a name and reaches the real and the virtual path "
    "unchanged, for every base, working directory, decoration and sequence of names. "
    "Windows flavour of base_path: the property is refuted (C02_confined_win_refuted, C02_virt_is_location_win_refuted, "
    "C02_drive_escape_win_refuted; known finding F11) and proved for inputs whose resolved components contain neither "
    "backslash nor colon (C02_confined_win_partial). Histories on ONE control connection with several logins "
    "(Model/PathsSess.v): C02_session_spec (every path handed to the backend along any history of logins, CWD/CDUP, path "
    "commands, STOR/APPE, RNFR/RNTO is base_path(owner) ++ names as an independent bookkeeping says), "
    "C02_path_output_history_independent, C02_session_no_path_from_previous_login (every path is owned by the user logged in "
    "when the command ran; F18 is repaired and user() provably drops a pending rename source: closed check "
    "C02_user_drops_rename_source), C02_session_confined_plain and C02_session_confined_partial (on the handler model, every "
    "history: confined in the current user's base or exactly the parent of that base) are proved for every user table with "
    "absolute home paths and every history; the full statement is refuted once (C02_session_stor_root_parent_refuted = F19). "
    "C02_get_paths_reads_only_user_and_cwd and C02_transfers_use_the_path_resolved_at_the_command are closed checks, recomputed "
    "on every run, that the source of get_paths reads nothing of the connection but user.base_path and current_directory and "
    "keeps no state, and that transfer workers use the path resolved when the command was handled. The models are hand-written; the "
    "tie is a bounded-exhaustive correspondence with the real pathlib and the real get_paths (about 3*10^5 cases per quick "
    "run), histories on one reused Connection object, wire-level sessions with re-logins on simnet with a recording backend, and wire-level "
    "sessions with the stock PathIO on the real file system (confinement of every path handed to the backend after the kernel's '..' resolution)."
)
LEVEL_NOTE = (
    "Trusted: Coq kernel; extraction cross-checked with vm_compute; harness. Modelled, not verified: CPython 3.12 pathlib "
    "(PurePosixPath fully for the operations used; PureWindowsPath only outside UNC/device forms, lower() character-wise); "
    "symlinks (the property is lexical). The statement that handlers obtain paths only through get_paths "
    "(only_through_get_paths) needs Gen.Dispatch and is left to the Session model."
)
TRUSTED = [
    "pathlib model: Lib/PosixPath.v and Lib/WinPath.v stand for CPython 3.12 PurePosixPath / PureWindowsPath "
    "(validated by the bounded-exhaustive streams 'pathlib' and 'winpath' on every run, not proved)",
    "tools/py2v/gen_resolve.py (syntactic: attribute chains of the parameter `connection`, free names, scope statements of Server.get_paths)",
    "Model/PathsSess.v transcribes what user(), cwd/cdup, stor, rnfr, rnto do with connection.user / current_directory / rename_from "
    "(validated by the wire stream on the real handlers, not derived from the source)",
]
USES_GEN = ["Resolve"]
ASSUMPTIONS = [
    "lexical confinement only: symlinks inside base_path are outside the property",
    "the working directory is only ever assigned home_path or the virtual result of get_paths (cwd/cdup handlers; checked by reading, "
    "to be re-checked structurally by the Session model over Gen.Dispatch)",
    "Windows flavour: UNC/device forms (two leading separators) are outside the model; the oracle still runs on the implementation there",
]

SEGS = ["a", "b", "..", ".", "", "a\\b", "..\\..", "C:", "C:x", "C:..", "\\x", ".hidden", "..."]
# compatibility look-alikes of '.', '/', '\\', ':' and of plain letters ("for all path strings"): none of them is '..' or a
# separator for the server, so each is an ordinary name -- and must stay one on the real side (no Unicode normalisation
# between the '..' fold and the backend).  U+2024 ONE DOT LEADER, U+FF0E FULLWIDTH FULL STOP, U+2025 TWO DOT LEADER,
# U+FF0F FULLWIDTH SOLIDUS, U+FE52 SMALL FULL STOP, U+FF3C FULLWIDTH REVERSE SOLIDUS, U+FF1A FULLWIDTH COLON,
# U+FF41 FULLWIDTH a, e + U+0301 (decomposed e-acute), U+00E9 (composed), U+2215 DIVISION SLASH
UNI_SEGS = ["a", "..", "", "\u2024\u2024", "\uff0e\uff0e", "\u2025", "\uff0e\uff0e\uff0fx", "\uff0e", "x\uff0fy", "\ufe52\ufe52", "\uff3cx", "C\uff1a",
            "\uff41", "e\u0301", "\u00e9", "\u2215x"]
UNI_COMBOS = [("posix", "/srv/ftp", "/"), ("win", "C:\\ftp", "/"), ("posix", "rel/base", "/a/b"), ("posix", "/srv/ftp", "/\u2024\u2024/\uff41"),
              ("posix", "/", "/a"), ("posix", "/srv/\uff41", "/"), ("win", "C:\\ftp\\sub", "/a"), ("win", "ftp\\rel", "/\uff0e\uff0e")]
# '..' and '.' DECORATED with white space (blank, TAB, NBSP, EM SPACE, other str.isspace() code points) before / after: a segment
# is '..' only when it is exactly '..' -- `".. "`, `" .."`, `"..\t"` are ordinary names and must reach the backend as they are
# (no strip()/rstrip() between the '..' test and the backend, none before it either).  In inner positions: parse_command
# strips the END of the command line, so over the wire the last segment never carries trailing white space.
WS_SEGS = ["a", "..", ".", "", ".. ", " ..", "..\t", ". ", " .", "..\u00a0", "\u00a0..", " .. ", "..\u2003", "a ", " ", "..\x1f"]
ALL_WS = [chr(c) for c in list(range(0x3000 + 1)) if chr(c).isspace() and chr(c) not in "\r\n"]  # 27 code points (CR/LF end a command line)
WS_COMBOS = [("posix", "/srv/ftp", "/"), ("win", "C:\\ftp", "/"), ("posix", "/srv/ftp", "/a/b"), ("posix", "/srv/ftp ", "/.. /a "),
             ("posix", "/", "/a"), ("posix", "rel/base", "/ .."), ("win", "C:\\ftp\\sub", "/a"), ("win", "ftp\\rel", "/..\t")]


def ws_decorated():
    """every white-space code point around '..' and '.', as first and as inner segment (2-3 segments)"""
    out = []
    for w in ALL_WS:
        for seg in ("..", "."):
            for d in (seg + w, w + seg, w + seg + w, seg + w + w):
                out += [d + "/x", d + "/.", d + "/..", "a/" + d + "/x", "/" + d + "/" + d + "/x", d + "/" + d + "/../x"]
        out += [w + "/x", "a" + w + "/../x"]
    return sorted(set(out))


PREFIXES = ["", "/", "//", "///"]
CWDS = ["/", "/a", "/a/b", "/a/../b", "//x", "/..", "/a\\b/C:"]
POSIX_BASES = ["/srv/ftp", "rel/base", ".", "/srv/../x", "", "/", "//srv/ftp"]
WIN_BASES = ["C:\\ftp", "C:\\ftp\\sub", "ftp\\rel", "C:\\ftp\\..\\x", ".", "\\ftp", "C:/ftp"]


# ---------------------------------------------------------------- independent oracle
def py_normalize(cwd, s):
    """the property's notion of 'normalised absolute form', written without pathlib"""

    def fold(st, segs):
        for seg in segs:
            if seg == "..":
                if st:
                    st.pop()
            elif seg in ("", "."):
                pass
            else:
                st.append(seg)
        return st

    st = [] if s.startswith("/") else fold([], cwd.split("/"))
    return fold(st, s.split("/"))


def special(part):
    return "\\" in part or ":" in part


def oracle(flavour, base, cwd, s, real, virt):
    """returns None when the property holds on this output, else (kind, detail)"""
    norm = py_normalize(cwd, s)
    bparts = base.parts
    rparts = real.parts
    vparts = virt.parts
    if not vparts or vparts[0] != "/" or any(p in ("..", ".", "") or "/" in p for p in vparts[1:]):
        return ("virtual-not-normal", f"virtual parts {vparts!r}")
    if rparts[: len(bparts)] != bparts:
        return ("outside", f"base parts {bparts!r} are not a prefix of real parts {rparts!r}")
    suffix = rparts[len(bparts):]
    if ".." in suffix:
        return ("dotdot", f"'..' below base in real parts {rparts!r}")
    if tuple(suffix) != tuple(vparts[1:]):
        return ("alias", f"real location {suffix!r} differs from virtual path {vparts!r}")
    if list(vparts[1:]) != norm:
        # the is_relative_to guard may send a request to the root on the Windows flavour when a
        # component is special for PureWindowsPath; anything else must be the normal form
        if flavour == "win" and len(vparts) == 1 and any(special(p) for p in norm):
            return None
        return ("virtual-not-normalize", f"virtual {vparts!r} but normalize gives {norm!r}")
    return None


def violation_key(flavour, kind, cwd, s):
    norm = py_normalize(cwd, s)
    if flavour == "win" and any(special(p) for p in norm):
        shape = "backslash" if any("\\" in p for p in norm) else "drive"
        return f"win-{kind}-{shape}"
    return f"{flavour}-{kind}-plain"


# ---------------------------------------------------------------- implementation drivers
class Impl:
    def __init__(self):
        self.loop = asyncio.new_event_loop()
        asyncio.set_event_loop(self.loop)
        self.conn = None
        self.key = None

    def get_paths(self, flavour, base, cwd, s):
        if self.key != (flavour, base, cwd):
            if flavour == "posix":
                user = aioftp.User(base_path=base)
            else:
                user = aioftp.User()
                user.base_path = pathlib.PureWindowsPath(base)
            self.conn = aioftp.Connection(current_directory=pathlib.PurePosixPath(cwd), user=user)
            self.key = (flavour, base, cwd)
        try:
            return aioftp.Server.get_paths(self.conn, s), self.conn.user.base_path
        except ValueError:
            return None, self.conn.user.base_path

    def close(self):
        self.loop.close()


def canon_posix(p):
    anchor = {"": 0, "/": 1, "//": 2}[p.root]
    parts = list(p.parts[1:] if p.root else p.parts)
    return [anchor, parts]


def model_ppath(m):
    return [m[0], sx.txts(m[1])]


def canon_win(p):
    parts = list(p.parts[1:] if p.anchor else p.parts)
    return [p.drive, bool(p.root), parts]


def model_wpath(m):
    return [sx.txt(m[0]), bool(m[1]), sx.txts(m[2])]


def path_strings_n(n, segs=SEGS, prefixes=PREFIXES):
    """every string with exactly n segments"""
    out = set()
    for combo in itertools.product(segs, repeat=n):
        body = "/".join(combo)
        for pre in prefixes:
            out.add(pre + body)
    return sorted(out)


def path_strings(k, segs=SEGS, prefixes=PREFIXES):
    out = set()
    for n in range(0, k + 1):
        out.update(path_strings_n(n, segs, prefixes))
    return sorted(out)


def is_unc(x):
    return len(x) >= 2 and x[0] in "\\/" and x[1] in "\\/"


# ---------------------------------------------------------------- streams
def stream_pathlib(ctx, xcheck):
    """Lib/PosixPath.v against pathlib.PurePosixPath"""
    P = pathlib.PurePosixPath
    segs = ["a", "..", ".", "", "a\\b", ".h", "..."]
    strs = path_strings(4 if ctx.tier == "thorough" else 3, segs) + ["a/", "/a/", "a//b/", "//", "///", "////a", "/./", "./a", "a/./..", "\x00", "a\x00/b"]
    strs = sorted(set(strs))
    cases = []
    for s in strs:
        for fn in (0, 1, 3, 4, 7, 8):
            cases.append((fn, [s]))
    small = path_strings(2, ["a", "b", "..", ".", ""], ["", "/", "//", "///"])
    for a in small:
        for b in small:
            for fn in (2, 5, 6):
                cases.append((fn, [a, b]))
    out = ctx.model(cases)
    for (fn, arg), mo in zip(cases, out):
        ctx.case(("pathlib", fn, tuple(arg)))
        a = P(arg[0])
        if fn == 0:
            im, mc = canon_posix(a), model_ppath(mo)
        elif fn == 1:
            im, mc = str(a), sx.txt(mo)
        elif fn == 2:
            r = a / arg[1]
            # the anchored code also joins Path / PurePosixPath objects: same result as joining the string
            assert r == a / P(arg[1])
            im, mc = [canon_posix(r), str(r)], [model_ppath(mo[0]), sx.txt(mo[1])]
        elif fn == 3:
            im, mc = canon_posix(a.parent), model_ppath(mo)
        elif fn == 4:
            im, mc = a.name, sx.txt(mo)
        elif fn == 5:
            try:
                im = [canon_posix(a.relative_to(arg[1]))]
            except ValueError:
                im = []
            mc = [model_ppath(x) for x in mo]
        elif fn == 6:
            im, mc = a.is_relative_to(arg[1]), bool(mo)
        elif fn == 7:
            im, mc = a.is_absolute(), bool(mo)
        else:
            im, mc = list(a.parts), sx.txts(mo)
        if im != mc:
            ctx.disagree("pathlib", [fn, arg], mc, im)
        if len(xcheck) < 30 and ctx.rng.random() < 0.002:
            xcheck.append((fn, arg, mo))
    ctx.count("pathlib_posix_unary_strings", len(strs))
    ctx.count("pathlib_posix_binary_pairs", len(small) ** 2)


def stream_winpath(ctx, xcheck):
    """Lib/WinPath.v against pathlib.PureWindowsPath (outside UNC forms)"""
    W = pathlib.PureWindowsPath
    segs = ["a", "B", "..", ".", "", "C:", "c:", "C:x", "D:y", "a:b", "::", "..."]
    strs = set()
    for n in range(0, 3):
        for combo in itertools.product(segs, repeat=n):
            for sep in ("\\", "/"):
                body = sep.join(combo)
                for pre in ("", "\\", "/", "C:\\", "C:", "c:/", "D:\\"):
                    strs.add(pre + body)
    strs |= {"C:\\ftp\\..\\x", "a\\b/c", "..\\..\\windows", "C:..", "x\\", "\\\\srv\\share\\x", "//srv/share", "\\/x", "é:\\x", "İ:x"}
    strs = sorted(strs)
    cases = [(20, [s]) for s in strs]
    bases = ["C:\\ftp", "C:\\ftp\\sub", "ftp\\rel", "C:\\ftp\\..\\x", ".", "", "\\ftp", "C:/ftp", "c:ftp", "C:"]
    for b in bases:
        for s in strs:
            cases.append((21, [b, s]))
    rel = sorted(s for s in strs if len(s) <= 8)[:: 3]
    for a in rel:
        for b in bases + ["C:\\FTP", "c:\\ftp", "FTP\\rel"]:
            cases.append((22, [a, b]))
    out = ctx.model(cases)
    n_out = 0
    for (fn, arg), mo in zip(cases, out):
        ctx.case(("winpath", fn, tuple(arg)))
        unc = any(is_unc(x) for x in arg)
        if mo[0] == -1:
            n_out += 1
            if not unc:
                ctx.disagree("winpath", [fn, arg], "outside-fragment", "not a UNC form")
            continue
        if unc:
            ctx.disagree("winpath", [fn, arg], "model answered", "UNC form is outside the fragment")
            continue
        if fn == 20:
            p = W(arg[0])
            im = [canon_win(p), str(p), list(p.parts)]
            mc = [model_wpath(mo[1][0]), sx.txt(mo[1][1]), sx.txts(mo[1][2])]
        elif fn == 21:
            p = W(arg[0]) / arg[1]
            im = [canon_win(p), str(p), list(p.parts)]
            mc = [model_wpath(mo[1][0]), sx.txt(mo[1][1]), sx.txts(mo[1][2])]
        else:
            im, mc = W(arg[0]).is_relative_to(W(arg[1])), bool(mo[1])
        if im != mc:
            ctx.disagree("winpath", [fn, arg], mc, im)
        if len(xcheck) < 50 and ctx.rng.random() < 0.002:
            xcheck.append((fn, arg, mo))
    ctx.count("pathlib_windows_cases", len(cases))
    ctx.count("pathlib_windows_outside_fragment", n_out)


def check_get_paths(ctx, impl, flavour, base, cwd, s, mo, stream):
    """compare one real get_paths call with the model and run the oracle on the real output"""
    res, base_obj = impl.get_paths(flavour, base, cwd, s)
    ctx.traces_impl += 1
    if res is None:
        im = "ValueError"
    else:
        real, virt = res
        if flavour == "posix":
            im = [canon_posix(real), canon_posix(virt), str(real), str(virt)]
        else:
            im = [canon_win(real), canon_posix(virt), str(real), str(virt)]
    if mo[0] == -1:
        mc = "ValueError" if mo[1] == 1 else "outside-fragment"
    elif flavour == "posix":
        mc = [model_ppath(mo[1][0]), model_ppath(mo[1][1]), sx.txt(mo[1][2]), sx.txt(mo[1][3])]
    else:
        mc = [model_wpath(mo[1][0]), model_ppath(mo[1][1]), sx.txt(mo[1][2]), sx.txt(mo[1][3])]
    if mc == "outside-fragment":
        ctx.count("get_paths_windows_outside_fragment")
        if not (is_unc(base) or is_unc("/".join(py_normalize(cwd, s)))):
            ctx.disagree(stream, [flavour, base, cwd, s], mc, im)
    elif mc != im:
        ctx.disagree(stream, [flavour, base, cwd, s], mc, im)
    if res is None:
        ctx.violation("get_paths raised ValueError", {"key": f"{flavour}-raises", "flavour": flavour, "base": base, "cwd": cwd, "path": s})
        return
    bad = oracle(flavour, base_obj, cwd, s, real, virt)
    if bad is not None:
        kind, detail = bad
        ctx.violation(
            f"get_paths breaks confinement/normal form ({kind}): {detail}",
            {"key": violation_key(flavour, kind, cwd, s), "flavour": flavour, "base": base, "cwd": cwd, "path": s,
             "real": str(real), "virtual": str(virt), "kind": kind},
        )


def stream_get_paths(ctx, xcheck, k=None, n_random=None, layer_mod=4, layer_offsets=(0,), skip_short=False, deadline=None):
    """deadline (time.time() value): stop between (base, cwd) pairs when it has passed (bounded search)"""
    thorough = ctx.tier == "thorough" and deadline is None
    k = k or (4 if thorough else 3)
    n_random = n_random or (60000 if thorough else 6000)
    rng = ctx.rng
    strs = path_strings(k)
    ctx.count(f"path_strings_exhaustive_k{k}", len(strs))
    impl = Impl()
    combos = [("posix", b, c) for b in POSIX_BASES for c in CWDS] + [("win", b, c) for b in WIN_BASES for c in CWDS]
    if not thorough:
        # quick: every (base, cwd) pair sees every string with < k segments; the k-segment layer is spread
        # round-robin over the pairs so that each string is still seen with a quarter of the pairs
        short = path_strings(k - 1)
        seen = set(short)
        long_ = [s for s in path_strings_n(k) if s not in seen]
    for idx, (flavour, base, cwd) in enumerate(combos):
        if deadline is not None and time.time() > deadline:
            ctx.notes.append(f"bounded search: get_paths k={k} stopped after {idx} of {len(combos)} (base, cwd) pairs")
            break
        if thorough:
            mine = strs
        else:
            mine = ([] if skip_short else short) + [s for j, s in enumerate(long_) if (j + idx) % layer_mod in layer_offsets]
        fn = 10 if flavour == "posix" else 30
        out = ctx.model([(fn, [base, cwd, s]) for s in mine])
        for s, mo in zip(mine, out):
            ctx.case(("gp", flavour, base, cwd, s))
            check_get_paths(ctx, impl, flavour, base, cwd, s, mo, "get_paths")
            if len(xcheck) < 90 and rng.random() < 0.0005:
                xcheck.append((fn, [base, cwd, s], mo))
        ctx.count(f"get_paths_{flavour}", len(mine))
    # random longer paths (up to 7 segments), random base / cwd built from the same alphabet
    rnd = []
    for _ in range(n_random):
        flavour = rng.choice(["posix", "posix", "win"])
        base = rng.choice(POSIX_BASES if flavour == "posix" else WIN_BASES)
        r_alpha = rng.random()  # a third of the random paths mix in Unicode look-alikes, a fifth white-space decorated '..' / '.'
        alpha = SEGS + UNI_SEGS[3:] if r_alpha < 0.3 else SEGS + WS_SEGS[4:] + [".." + rng.choice(ALL_WS), rng.choice(ALL_WS) + "."] if r_alpha < 0.5 else SEGS
        cwd = "/" + "/".join(rng.choice(alpha[:4] + alpha[5:]) for _ in range(rng.randint(0, 4))) if rng.random() < 0.6 else rng.choice(CWDS)
        s = rng.choice(PREFIXES + ["", ""]) + "/".join(rng.choice(alpha) for _ in range(rng.randint(3, 7)))
        rnd.append((flavour, base, cwd, s))
    rnd.sort()
    out = ctx.model([(10 if f == "posix" else 30, [b, c, s]) for f, b, c, s in rnd])
    for (flavour, base, cwd, s), mo in zip(rnd, out):
        ctx.case(("gpr", flavour, base, cwd, s))
        check_get_paths(ctx, impl, flavour, base, cwd, s, mo, "get_paths_random")
    ctx.count("get_paths_random_long", len(rnd))
    ctx.sample({"stream": "get_paths", "flavour": "posix", "base": "/srv/ftp", "cwd": "/a/../b", "path": "//a/../../b/./..hidden"})
    impl.close()


def stream_unicode(ctx, xcheck, k=None, deadline=None, segs=None, combos=None, extra=(), tag="unicode"):
    """get_paths on names made of compatibility look-alikes of '.', '..', '/', '\\', ':' and letters: bounded-exhaustive
    over UNI_SEGS (k segments, 3 prefixes) x UNI_COMBOS; same comparison and oracle as stream_get_paths.
    With segs=WS_SEGS / combos=WS_COMBOS / extra=ws_decorated(): the white-space decorated forms of '..' and '.' (tag "blanks")"""
    k = k or 3
    segs = segs or UNI_SEGS
    combos = combos or UNI_COMBOS
    impl = Impl()
    strs = sorted(set(path_strings(k, segs, ["", "/", "//"])) | set(extra))
    shorter = sorted(set(path_strings(k - 1, segs, ["", "/", "//"])) | set(extra))
    n = 0
    for idx, (flavour, base, cwd) in enumerate(combos):
        if deadline is not None and time.time() > deadline:
            ctx.notes.append(f"bounded search: {tag} k={k} stopped after {idx} of {len(combos)} (base, cwd) pairs")
            break
        full = deadline is not None or idx < (4 if k <= 3 else 2)  # the other pairs see the strings one segment shorter
        mine = strs if full else shorter
        fn = 10 if flavour == "posix" else 30
        out = ctx.model([(fn, [base, cwd, s]) for s in mine])
        for s, mo in zip(mine, out):
            ctx.case(("gpu", flavour, base, cwd, s))
            check_get_paths(ctx, impl, flavour, base, cwd, s, mo, "get_paths_" + tag)
            if len(xcheck) < 96 and ctx.rng.random() < 0.0005:
                xcheck.append((fn, [base, cwd, s], mo))
        n += len(mine)
    if tag == "unicode":
        ctx.count(f"get_paths_unicode_lookalikes_k{k}", n)
        ctx.sample({"stream": "unicode", "flavour": "posix", "base": "/srv/ftp", "cwd": "/", "path": "\uff0e\uff0e\uff0fx/\u2024\u2024/a"})
    else:
        ctx.count(f"get_paths_whitespace_decorated_k{k}", n)
        ctx.sample({"stream": "blanks", "flavour": "posix", "base": "/srv/ftp", "cwd": "/", "path": ".. /..\t/ ../outside.txt"})
    impl.close()


def stream_blanks(ctx, xcheck, k=None, deadline=None):
    """'..' / '.' decorated with white space: every string of <= k segments over WS_SEGS x 3 prefixes, plus every str.isspace()
    code point around '..' and '.' in first and inner position, on WS_COMBOS (bases and working directories with such names too)"""
    stream_unicode(ctx, xcheck, k=k, deadline=deadline, segs=WS_SEGS, combos=WS_COMBOS, extra=ws_decorated(), tag="blanks")


def stream_normalize(ctx, xcheck):
    """the Coq specification `normalize` against the harness's independent py_normalize"""
    strs = path_strings(3, ["a", "..", ".", "", "b\\c"], PREFIXES)
    cases = [(11, [cwd, s]) for cwd in CWDS for s in strs]
    out = ctx.model(cases)
    for (fn, (cwd, s)), mo in zip(cases, out):
        ctx.case(("norm", cwd, s))
        if sx.txts(mo) != py_normalize(cwd, s):
            ctx.disagree("normalize-spec", [cwd, s], sx.txts(mo), py_normalize(cwd, s))
    ctx.count("normalize_spec_cases", len(cases))
    xcheck.extend((fn, arg, mo) for (fn, arg), mo in list(zip(cases, out))[:: max(1, len(cases) // 10)][:10])


def stream_histories(ctx, xcheck):
    """CWD/CDUP histories: the working directory as the real handlers maintain it
    (current_directory = get_paths(...)[1]; cdup passes current_directory.parent) against
    Model nav_run, and the invariant `cwd stays normalised` on the real values"""
    rng = ctx.rng
    n = 3000 if ctx.tier == "thorough" else 400
    impl = Impl()
    cases = []
    for _ in range(n):
        home = rng.choice(CWDS)
        base = rng.choice(POSIX_BASES)
        h = []
        for _ in range(rng.randint(1, 8)):
            if rng.random() < 0.3:
                h.append([1, rng.random() < 0.85])
            else:
                s = rng.choice(["", "/", "//"]) + "/".join(rng.choice(SEGS) for _ in range(rng.randint(0, 4)))
                h.append([0, s, rng.random() < 0.85])
        cases.append((base, home, h))
    out = ctx.model([(12, [b, c, h]) for b, c, h in cases])
    for (base, home, h), mo in zip(cases, out):
        ctx.case(("hist", base, home, repr(h)))
        user = aioftp.User(base_path=base, home_path=home)
        conn = aioftp.Connection(current_directory=user.home_path, user=user)
        moved = False
        for step in h:
            if step[0] == 0 and step[2]:
                conn.current_directory = aioftp.Server.get_paths(conn, step[1])[1]
                moved = True
            elif step[0] == 1 and step[1]:
                conn.current_directory = aioftp.Server.get_paths(conn, conn.current_directory.parent)[1]
                moved = True
            cur = conn.current_directory
            if moved and (cur.parts[:1] != ("/",) or any(p in ("..", ".", "") for p in cur.parts[1:])):
                ctx.violation("working directory left the normalised form", {"key": "posix-cwd-not-normal", "base": base, "home": home, "history": h, "cwd": str(cur)})
        ctx.traces_impl += 1
        if canon_posix(conn.current_directory) != model_ppath(mo):
            ctx.disagree("histories", [base, home, h], model_ppath(mo), canon_posix(conn.current_directory))
    ctx.count("cwd_histories", n)
    xcheck.extend((12, [b, c, h], mo) for (b, c, h), mo in list(zip(cases, out))[:5])
    impl.close()



# ---------------------------------------------------------------- ONE connection, several logins
# A Connection object survives USER/PASS (Server.user() replaces user / logged / current_directory only).
# Events: [0,i] login as users[i] | [1,s,ok] CWD | [2,ok] CDUP | [3,s] single-path command |
#         [4,s] STOR/APPE | [5,s,ok] RNFR | [6,s,ok] RNTO            (ok = accepted by the decorators)
SESS_POSIX_USERS = [("/srv/a", "/"), ("/srv/b", "/"), ("/srv/a", "/d"), ("/srv/a/d", "/"), ("rel/base", "/a/../b"), ("", "/"), ("/", "/srv/a"), ("/srv/b", "/a\\b/C:")]
SESS_WIN_USERS = [("C:\\ftp", "/"), ("C:\\ftp\\sub", "/a"), ("ftp\\rel", "/")]
SESS_ARGS = ["f", "/f", "d", "/d", "d/f", "../f", "..", "/", "", ".", "//f", "/d/../f", "a\\b", "C:x", "../../f", "g", "\uff0e\uff0e/f", "\u2024\u2024", "d/\uff0e\uff0e\uff0ff",
             ".. /f", "d/.. /f", "..\t/..\u00a0/f", " ../f", ". /..", ".. ", "d/ .. /../f"]


_REPORTED = {}


def report(ctx, what, payload, per_key=2):
    """at most `per_key` replays per violation key from the session streams (the rest is only counted), so that the
    five replay files core writes show different shapes"""
    n = _REPORTED.get(payload["key"], 0)
    _REPORTED[payload["key"]] = n + 1
    if n < per_key:
        ctx.violation(what, payload)
    else:
        ctx.count("further_violations_" + payload["key"])


def mk_user(flavour, base, home):
    if flavour == "posix":
        return aioftp.User(base_path=base, home_path=home)
    u = aioftp.User(home_path=home)
    u.base_path = pathlib.PureWindowsPath(base)
    return u


def session_oracle_cwd(cwd, step):
    """the working directory after an accepted CWD/CDUP, by the property's own normal form"""
    if step[0] == 1:
        return "/" + "/".join(py_normalize(cwd, step[1]))
    parts = py_normalize(cwd, "")
    return "/" + "/".join(parts[:-1])


def run_session_impl(users, first, events):
    """drive the real Server.get_paths on ONE Connection object the way the handlers do; per event:
    (canonical paths handed to the backend, list of problems found by the oracle on the real outputs).
    users: [(flavour, base, home)].  An exception of the implementation is an observation, not an abort."""
    objs = [mk_user(*u) for u in users]
    conn = aioftp.Connection(current_directory=objs[first].home_path, user=objs[first], logged=True)
    cur, cwd = first, users[first][2]
    rn = None
    per_event, problems = [], []

    def resolve(k, s_arg, s_text):
        """the three get_paths calls of a path command (PathConditions, PathPermissions, body)"""
        flavour, base, _ = users[cur]
        out = None
        for call in range(3):
            try:
                real, virt = aioftp.Server.get_paths(conn, s_arg)
            except Exception as e:  # noqa: BLE001 - observation
                problems.append((k, f"session-{flavour}-raises", f"get_paths raised {type(e).__name__}: {e}"))
                return None
            bad = oracle(flavour, objs[cur].base_path, cwd, s_text, real, virt)
            if bad is not None:
                kind, detail = bad
                key = violation_key(flavour, kind, cwd, s_text)
                if not (flavour == "win" and key.split("-")[-1] in ("backslash", "drive")):
                    key = f"session-{flavour}-{kind}"
                problems.append((k, key, f"call {call + 1} of 3 as user {cur} (base {users[cur][1]!r}, cwd {cwd!r}, arg {s_text!r}): {detail}"))
            else:
                # independence: a fresh Connection with the same user and cwd must resolve identically
                fresh = aioftp.Connection(current_directory=conn.current_directory, user=objs[cur])
                try:
                    want = aioftp.Server.get_paths(fresh, s_arg)
                except Exception as e:  # noqa: BLE001
                    want = ("raised", type(e).__name__)
                if want != (real, virt):
                    problems.append((k, "session-history-dependent", f"shared connection gives {(str(real), str(virt))}, a fresh one {tuple(map(str, want))}"))
            if out is None:
                out = (real, virt)
        return out

    for k, ev in enumerate(events):
        paths = []
        ran_as = cur  # the user logged in when the command arrived (a login command runs under the previous one)
        if ev[0] == 0:
            if ev[1] < len(objs):
                # Server.user(): del user / logged / rename_from, set user, current_directory = home_path
                del conn.user
                del conn.logged
                del conn.rename_from
                rn = None
                conn.user = objs[ev[1]]
                conn.current_directory = objs[ev[1]].home_path
                conn.logged = True
                cur, cwd = ev[1], users[ev[1]][2]
        elif ev[0] in (1, 2):
            arg = ev[1] if ev[0] == 1 else conn.current_directory.parent
            text = ev[1] if ev[0] == 1 else str(arg)
            r = resolve(k, arg, text)
            if r is not None:
                paths.append(r[0])
                if ev[-1]:
                    conn.current_directory = r[1]
                    if users[cur][0] == "posix":
                        cwd = session_oracle_cwd(cwd, ev)
                        if str(r[1]) != cwd:
                            problems.append((k, "session-posix-cwd", f"working directory became {str(r[1])!r}, normal form is {cwd!r}"))
                    else:
                        # Windows flavour: the is_relative_to guard may send a request with a special component to the
                        # root (accepted by `oracle`); follow the virtual path the oracle has just validated
                        cwd = str(r[1])
        else:
            r = resolve(k, ev[1], ev[1])
            if r is not None:
                real = r[0]
                if ev[0] == 3:
                    paths.append(real)
                elif ev[0] == 4:
                    paths += [real.parent, real]
                elif ev[0] == 5:
                    paths.append(real)
                    if ev[2]:
                        conn.rename_from = real
                        rn = real
                elif ev[0] == 6:
                    if rn is None:
                        paths = []
                    elif ev[2]:
                        paths += [real, conn.rename_from]
                        del conn.rename_from
                        rn = None
                    else:
                        paths.append(real)
        per_event.append((ran_as, paths))
    return per_event, problems, str(conn.current_directory)


def sess_model_arg(users, first, events):
    return [[[b, h] for _, b, h in users], first, [list(e) for e in events]]


def check_session(ctx, users, first, events, mo, stream):
    ctx.case((stream, tuple(users), first, repr(events)))
    ctx.traces_impl += 1
    per_event, problems, final_cwd = run_session_impl(users, first, events)
    for k, key, detail in problems[:3]:
        report(
            ctx, f"one connection, several logins: {detail}",
            {"key": key, "session": True, "users": [list(u) for u in users], "first": first, "events": [list(e) for e in events], "step": k},
        )
    if mo is None:
        return
    if mo[0] != 0:
        ctx.disagree(stream, [users, first, events], mo, "model refused the case")
        return
    m_steps, m_cwd = mo[1]
    mc = [[sx.txt(b[1]), [[model_ppath(p[0]), sx.txt(p[1])] for p in ps]] for b, ps in m_steps]
    im = [[str(pathlib.PurePosixPath(users[c][1])), [[canon_posix(p), str(p)] for p in ps]] for c, ps in per_event]
    if mc != im or sx.txt(m_cwd[1]) != final_cwd:
        ctx.disagree(stream, [users, first, events], [mc, sx.txt(m_cwd[1])], [im, final_cwd])


def stream_relogin(ctx, xcheck):
    """function level: ONE Connection object reused across get_paths calls while connection.user and
    current_directory change (USER/PASS again).  Bounded-exhaustive over a 13-event alphabet on 3 users
    (two bases, two homes), plus random histories over POSIX and Windows users."""
    rng = ctx.rng
    thorough = ctx.tier == "thorough"
    loop = asyncio.new_event_loop()  # aioftp.Connection creates futures
    asyncio.set_event_loop(loop)
    users3 = [("posix", "/srv/a", "/"), ("posix", "/srv/b", "/"), ("posix", "/srv/a", "/d")]
    alphabet = [[0, 0], [0, 1], [0, 2], [3, "f"], [3, "/f"], [3, "../f"], [1, "d", True], [2, True], [5, "f", True], [6, "g", True], [4, "f"], [4, "/"], [1, "..", False]]
    cases = []
    depth = 4 if thorough else 3
    for n in range(1, depth + 1):
        for combo in itertools.product(alphabet, repeat=n):
            cases.append((users3, 0, list(combo)))
    ctx.count(f"relogin_exhaustive_len_le{depth}", len(cases))
    n_random = 20000 if thorough else 2500
    n_login = 0
    for _ in range(n_random):
        pool = [("posix",) + u for u in SESS_POSIX_USERS]
        if rng.random() < 0.25:
            pool += [("win",) + u for u in SESS_WIN_USERS]
        users = rng.sample(pool, rng.randint(2, 4))
        ev = []
        last = None
        for _ in range(rng.randint(2, 10)):
            r = rng.random()
            if r < 0.22:
                ev.append([0, rng.randrange(len(users))])
                n_login += 1
                if last is not None and rng.random() < 0.6:
                    ev.append(list(last))  # the same request again under the new login
                continue
            s = rng.choice(SESS_ARGS)
            if r < 0.42:
                e = [1, s, rng.random() < 0.8]
            elif r < 0.5:
                e = [2, rng.random() < 0.8]
            elif r < 0.75:
                e = [3, s]
            elif r < 0.83:
                e = [4, s]
            elif r < 0.92:
                e = [5, s, rng.random() < 0.8]
            else:
                e = [6, s, rng.random() < 0.8]
            if e[0] != 2:
                last = e
            ev.append(e)
        cases.append((users, rng.randrange(len(users)), ev))
    ctx.count("relogin_random_histories", n_random)
    ctx.count("relogin_random_login_events", n_login)
    modelled = [i for i, (users, _, _) in enumerate(cases) if all(u[0] == "posix" for u in users)]
    out = ctx.model([(50, sess_model_arg(*cases[i])) for i in modelled])
    spec = ctx.model([(51, sess_model_arg(*cases[i])) for i in modelled[:: 9]])
    by_idx = dict(zip(modelled, out))
    for i, (users, first, ev) in enumerate(cases):
        check_session(ctx, users, first, ev, by_idx.get(i), "relogin")
    # the independent bookkeeping of the model (fn 51) realised in Python must give the model's paths (fn 50)
    for i, so in zip(modelled[:: 9], spec):
        users, first, ev = cases[i]
        mo = by_idx[i]
        if so[0] != 0 or mo[0] != 0:
            continue
        want = []
        for cur, labs in so[1]:
            ps = []
            for owner, names, par in labs:
                bp = pathlib.PurePosixPath(users[owner][1])
                p = bp.joinpath(*sx.txts(names)) if names else bp
                ps.append(str(p.parent if par else p))
            want.append([str(pathlib.PurePosixPath(users[cur][1])), ps])
        got = [[sx.txt(b[1]), [sx.txt(p[1]) for p in ps]] for b, ps in mo[1][0]]
        if want != got:
            ctx.disagree("relogin-spec", [users, first, ev], got, want)
    xcheck.extend((50, sess_model_arg(*cases[i]), by_idx[i]) for i in modelled[:: max(1, len(modelled) // 8)][:8])
    ctx.sample({"stream": "relogin", "users": users3, "events": [[3, "/f"], [0, 1], [3, "/f"]]})
    loop.close()


# ---------------------------------------------------------------- wire level: recording backend on simnet
WIRE_TREE = {
    "alice": {"f": b"ALICE-f", "d": {"g": b"alice-d-g", "f": b"alice-d-f"}, "e": {}},
    "bob": {"f": b"BOB-f", "d": {"g": b"bob-d-g", "e": {}}, "x": {"f": b"bob-x-f"}},
    "f": b"ROOT-f",
    "d": {"g": b"root-d-g"},
}
# login, password, base_path, home_path
WIRE_USERS = [("alice", "a", "/alice", "/"), ("bob", "b", "/bob", "/d"), ("carol", "c", "alice/d", "/"), ("root", "r", "/", "/alice"), ("dave", "d", "/bob", "/")]
WIRE_ARGS = ["f", "/f", "d", "/d", "d/g", "g", "../f", "..", "/", "", ".", "//f", "/d/../f", "x/f", "e", "new", "/d/new", "../../f", "/alice/f", "\uff0e\uff0e/f", "d/\u2024\u2024/f", "\uff0e\uff0e\uff0ff",
             # white-space decorated '..' / '.' in inner position (the end of a command line is stripped by parse_command)
             ".. /f", "d/.. /f", ".. /.", "..\t/alice/f", " ../f", "..\u00a0/d/g", "d/.. /.. /f", ". /f", "/.. /bob/f"]
PATH_VERBS = ["CWD", "MLST", "MKD", "RMD", "DELE", "RNFR", "RNTO", "LIST", "MLSD", "RETR", "STOR", "APPE"]
DATA_VERBS = ("LIST", "MLSD", "RETR", "STOR", "APPE")


def rec_factory(log, parent=None):
    parent = parent or aioftp.MemoryPathIO

    class Rec(parent):
        pass

    def wrap(name):
        orig = getattr(parent, name)

        async def f(self, *a, **k):
            log.append((name, [str(x) for x in a if isinstance(x, pathlib.PurePath)]))
            return await orig(self, *a, **k)

        return f

    for n in ("exists", "is_dir", "is_file", "mkdir", "rmdir", "unlink", "stat", "_open", "rename"):
        setattr(Rec, n, wrap(n))
    orig_list = parent.list

    def lst(self, path):
        log.append(("list", [str(path)]))
        return orig_list(self, path)

    Rec.list = lst
    return Rec


def run_wire(events, users=None, disk=False):
    """events: [(verb, arg, payload)] on ONE control connection of the real server (simnet, MemoryPathIO
    wrapped by a recorder) -> per event dict(codes, lines, calls, bytes).
    disk=True: the stock aioftp.PathIO on the real file system (the users' base paths exist), wrapped by the same recorder"""
    log, obs = [], []
    table = users or WIRE_USERS

    async def main(net):
        users = [aioftp.User(l, p, base_path=b, home_path=h) for l, p, b, h in table]
        if disk:
            server = aioftp.Server(users, path_io_factory=aioftp.PathIO, wait_future_timeout=1)
            server.path_io_factory.factory = rec_factory(log, aioftp.PathIO)
        else:
            server = aioftp.Server(users, path_io_factory=aioftp.MemoryPathIO, wait_future_timeout=1)
            server.path_io_factory.state = ftpsim.mem_state(WIRE_TREE)
            server.path_io_factory.factory = rec_factory(log)
        await server.start("127.0.0.1", ftpsim.PORT)
        s = ftpsim.Session(net, server)
        await s.start()
        for verb, arg, payload in events:
            before = len(log)
            try:
                r = await s.event(verb, arg, payload)
            except Exception as e:  # noqa: BLE001 - observation
                r = {"codes": [], "lines": [], "error": repr(e), "ended": True}
            r["calls"] = log[before:]
            obs.append(r)
            if r.get("ended"):
                break
        tree = None if disk else ftpsim.final_tree(server, "memory")
        await server.close()
        return tree

    tree = simnet.run(main)
    return obs, tree


def wire_oracle(events, obs, users=None):
    """the property on the recorded backend calls, stated without the model: every path handed to the backend
    is base_path(current user) + normalize(cwd, arg) (or its parent for the STOR/APPE reachability probe, or a
    child for LIST/MLSD entries, or the recorded RNFR target as the rename source).  -> (problems, model events)"""
    WIRE_USERS = users or globals()["WIRE_USERS"]
    by_login = {u[0]: u for u in WIRE_USERS}
    cur, logged, cwd = None, False, "/"
    rn = None  # (owner login, real path str)
    problems, mev = [], []
    for k, ((verb, arg, _), ob) in enumerate(zip(events, obs)):
        codes, calls = ob["codes"], ob["calls"]
        v = verb.upper()
        if "error" in ob:
            problems.append((k, "wire-driver-error", ob["error"]))
            break
        if v == "USER":
            logged = False
            if "331" in codes:
                cur = by_login.get(arg)
                cwd = cur[3] if cur else "/"
                mev.append([0, [u[0] for u in WIRE_USERS].index(arg)])
            else:
                cur = None
        elif v == "PASS":
            if "230" in codes:
                logged = True
        if v in ("USER", "PASS", "PWD", "PASV", "TYPE", ftpsim.DATACONN) or not logged or cur is None:
            if calls:
                problems.append((k, "wire-backend-touched", f"{verb} {arg!r} reached the backend: {calls[:3]}"))
            if v == "PWD" and logged and codes == ["257"]:
                shown = ob["lines"][-1][4:].strip().strip('"')
                if shown != cwd:
                    problems.append((k, "wire-pwd", f"PWD reports {shown!r}, the working directory is {cwd!r}"))
            continue
        base = pathlib.PurePosixPath(cur[2])
        if v == "CDUP":
            norm = py_normalize(cwd, "")[:-1]
        else:
            norm = py_normalize(cwd, arg)
        target = base.joinpath(*norm) if norm else base
        T = str(target)
        for name, args in calls:
            for j, p in enumerate(args):
                if p == T:
                    continue
                if v in ("STOR", "APPE") and name == "is_dir" and p == str(target.parent):
                    if not norm and target.parent != target:
                        problems.append((k, "wire-stor-root-parent-probe", f"{verb} {arg!r} as {cur[0]} asks is_dir({p!r}): outside base {cur[2]!r}"))
                    continue
                if v in ("LIST", "MLSD") and str(pathlib.PurePosixPath(p).parent) == T and name != "list":
                    continue
                if v == "RNTO" and name == "rename" and j == 0 and rn is not None and p == rn[1]:
                    if rn[0] != cur[0]:
                        problems.append((k, "wire-relogin-rnfr-carried", f"RNTO {arg!r} as {cur[0]} renames {p!r}, the RNFR target of {rn[0]}"))
                    continue
                if v == "RNTO" and name == "rename" and j == 0 and rn is not None:
                    problems.append((k, "wire-rename-source", f"RNTO {arg!r} as {cur[0]} (cwd {cwd!r}) renames {p!r}; the pending RNFR named {rn[1]!r} "
                                     "(= base + normalize(cwd at the RNFR, its argument))"))
                    continue
                problems.append((k, "wire-foreign-path", f"{verb} {arg!r} as {cur[0]} (base {cur[2]!r}, cwd {cwd!r}): backend call {name}({p!r}); the request addresses {T!r}"))
        renamed = [a for n, a in calls if n == "rename"]
        if v == "CWD":
            mev.append([1, arg, codes == ["250"]])
            if codes == ["250"]:
                cwd = "/" + "/".join(norm)
        elif v == "CDUP":
            mev.append([2, codes == ["250"]])
            if codes == ["250"]:
                cwd = "/" + "/".join(norm)
        elif v in ("STOR", "APPE"):
            mev.append([4, arg])
        elif v == "RNFR":
            mev.append([5, arg, codes == ["350"]])
            if codes == ["350"]:
                rn = (cur[0], T)
        elif v == "RNTO":
            reached = bool(renamed) or codes == ["250"]
            mev.append([6, arg, reached])
            if reached:
                rn = None
        else:
            mev.append([3, arg])
        ob["model_index"] = len(mev) - 1
    return problems, mev


def gen_wire_history(rng):
    ev = []
    logins = [u[0] for u in WIRE_USERS]
    pw = {u[0]: u[1] for u in WIRE_USERS}

    def login(name):
        ev.append(("USER", name, None))
        if rng.random() < 0.08:
            ev.append(("MLST", rng.choice(WIRE_ARGS), None))  # between USER and PASS: 503
        ev.append(("PASS", pw[name] if rng.random() < 0.93 else "wrong", None))

    login(rng.choice(logins))
    last = None
    for _ in range(rng.randint(4, 14)):
        r = rng.random()
        if r < 0.2:
            login(rng.choice(logins))
            if last is not None and rng.random() < 0.6:
                ev.extend(last)  # the same request again under the new login
            continue
        if r < 0.27:
            verb = rng.choice(["PWD", "CDUP", "TYPE"])
            ev.append((verb, "I" if verb == "TYPE" else "", None))
            continue
        if r < 0.37:
            # a rename whose source is named relatively, with the working directory moved before the RNTO: the source
            # was supplied by the RNFR and means normalize(cwd AT THE RNFR, arg), whatever the cwd is at the RNTO
            ev.append(("CWD", rng.choice(["/", "d", "/d", "x", "/e", ".."]), None))
            ev.append(("RNFR", rng.choice(["f", "g", "d/g", "d/f", "../f", "e"]), None))
            for _ in range(rng.randint(1, 2)):
                ev.append(rng.choice([("CWD", "/", None), ("CWD", "d", None), ("CWD", "/d", None), ("CWD", "x", None), ("CDUP", "", None), ("CWD", "/e", None)]))
            ev.append(("RNTO", rng.choice(["moved", "/moved", "/d/moved", "../moved2", "/e/m"]), None))
            continue
        verb = rng.choice(PATH_VERBS)
        arg = rng.choice(WIRE_ARGS)
        item = []
        if verb in DATA_VERBS:
            if rng.random() < 0.9:
                item.append(("PASV", "", None))
                if rng.random() < 0.9:
                    item.append((ftpsim.DATACONN, "", None))
            item.append((verb, arg, b"up-" + arg.encode() if verb in ("STOR", "APPE") else None))
        else:
            item.append((verb, arg, None))
        ev.extend(item)
        if verb != "RNTO":
            last = item
    return ev


def check_wire(ctx, events, stream="wire"):
    ctx.case((stream, repr(events)))
    ctx.traces_impl += 1
    try:
        obs, tree = run_wire(events)
    except Exception as e:  # noqa: BLE001 - the (mutated) implementation broke the driver: observation
        ctx.violation(f"wire session could not be driven: {e!r}", {"key": "wire-driver-error", "wire": True, "events": [[v, a, p.decode() if p else None] for v, a, p in events]})
        return None
    problems, mev = wire_oracle(events, obs)
    hist = [[v, a, p.decode() if p else None] for v, a, p in events]
    for k, key, detail in problems[:3]:
        report(ctx, f"wire session, step {k}: {detail}", {"key": key, "wire": True, "events": hist, "step": k})
    return obs, mev


def stream_wire(ctx, xcheck):
    rng = ctx.rng
    n = 1200 if ctx.tier == "thorough" else 120
    hs = [list(h) for h in WIRE_CORPUS] + [gen_wire_history(rng) for _ in range(n)]
    # fixed shapes: the same request before and after a re-login, for every pair of users and several verbs
    for a in WIRE_USERS:
        for b in WIRE_USERS:
            if a is b:
                continue
            for verb, arg in (("MLST", "/f"), ("DELE", "d/g"), ("MKD", "new")):
                if ctx.tier != "thorough" and rng.random() < 0.6:
                    continue
                hs.append([("USER", a[0], None), ("PASS", a[1], None), ("MLST" if verb != "MLST" else verb, arg, None),
                           ("USER", b[0], None), ("PASS", b[1], None), (verb, arg, None), ("PWD", "", None)])
    n_ev = n_login = 0
    results = []
    for h in hs:
        r = check_wire(ctx, h)
        n_ev += len(h)
        n_login += sum(1 for v, _, _ in h if v == "USER")
        if r is not None:
            results.append((h, r))
    # the model on the same histories: the paths it predicts must cover the recorded ones, exactly for rename / the STOR probe
    ulist = [("posix", u[2], u[3]) for u in WIRE_USERS]
    cases, keep = [], []
    for h, (obs, mev) in results:
        if mev and mev[0][0] == 0:
            cases.append((50, sess_model_arg(ulist, mev[0][1], mev[1:])))
            keep.append((h, obs, mev))
    out = ctx.model(cases)
    for (h, obs, mev), mo in zip(keep, out):
        if mo[0] != 0:
            ctx.disagree("wire-model", h, mo, "model refused")
            continue
        steps = mo[1][0]
        for ob in obs:
            mi = ob.get("model_index")
            if mi is None or mi == 0 or mi - 1 >= len(steps):
                continue
            predicted = [sx.txt(p[1]) for p in steps[mi - 1][1]]
            for name, args in ob["calls"]:
                if name == "rename" and args != predicted[::-1]:
                    ctx.disagree("wire-model-rename", h, predicted, args)
                for p in args:
                    if p not in predicted and str(pathlib.PurePosixPath(p).parent) not in predicted:
                        ctx.disagree("wire-model", h, predicted, [name, args])
    ctx.count("wire_sessions", len(hs))
    ctx.count("wire_events", n_ev)
    ctx.count("wire_login_events", n_login)
    ctx.sample({"stream": "wire", "events": [[v, a] for v, a, _ in hs[0][:12]]})
    xcheck.extend((50, a, mo) for (_, a), mo in list(zip(cases, out))[:4])


# ---- transfers are carried out when the data connection arrives: the location is fixed when the command is handled
DEFER_CASES = [
    # (login, password, cwd0, verb, arg)
    ("alice", "a", "/d", "RETR", "g"), ("alice", "a", "/d", "STOR", "new"), ("alice", "a", "/", "LIST", "d"), ("alice", "a", "/d", "MLSD", "."),
    ("bob", "b", "/d", "RETR", "g"), ("bob", "b", "/x", "RETR", "../f"), ("bob", "b", "/d", "STOR", "e/new"), ("bob", "b", "/x", "LIST", ""),
    ("carol", "c", "/", "RETR", "g"), ("carol", "c", "/", "APPE", "f"), ("root", "r", "/alice/d", "RETR", "g"), ("root", "r", "/bob", "MLSD", "d"),
]
DEFER_BETWEEN = [
    [("CWD", "/")], [("CWD", "/e")], [("CWD", "/d")], [("CDUP", "")], [("USER", "dave"), ("PASS", "d")], [("USER", "root"), ("PASS", "r")],
    [("USER", "alice"), ("PASS", "a"), ("CWD", "d")], [("USER", "nobody")], [],
]


def run_deferred(login, password, cwd0, verb, arg, between):
    """USER/PASS; CWD cwd0; PASV; VERB arg (150); <between>; data connection -> observation (recorded backend calls)"""
    log = []
    ob = {"between": []}

    async def main(net):
        users = [aioftp.User(l, p, base_path=b, home_path=h) for l, p, b, h in WIRE_USERS]
        server = aioftp.Server(users, path_io_factory=aioftp.MemoryPathIO, wait_future_timeout=5)
        server.path_io_factory.state = ftpsim.mem_state(WIRE_TREE)
        server.path_io_factory.factory = rec_factory(log)
        await server.start("127.0.0.1", ftpsim.PORT)
        raw = await simnet.Raw.connect(net, server.server_port)
        await raw.drain_replies()
        await raw.send("USER " + login)
        ob["login"] = simnet.final_codes(await raw.send("PASS " + password))
        ob["cwd0"] = simnet.final_codes(await raw.send("CWD " + cwd0))
        port = ftpsim.parse_passive(await raw.send("PASV"))
        mark = len(log)
        ob["codes"] = simnet.final_codes(await raw.send(f"{verb} {arg}".rstrip()))
        ob["calls_request"] = log[mark:]
        for bv, ba in between:
            ob["between"].append(simnet.final_codes(await raw.send(f"{bv} {ba}".rstrip())))
        mark = len(log)
        if port is not None:
            try:
                r, w = await net.open_connection("127.0.0.1", port)
                if verb in ("STOR", "APPE"):
                    w.write(b"deferred")
                    w.close()
                await net.settle()
                if not w.transport.is_closing():
                    w.close()
            except (ConnectionRefusedError, OSError) as e:
                ob["data_error"] = repr(e)
        ob["after"] = simnet.final_codes(await raw.drain_replies())
        ob["calls_worker"] = log[mark:]
        await server.close()

    try:
        simnet.run(main)
    except Exception as e:  # noqa: BLE001 - observation
        ob["error"] = repr(e)
    return ob


def deferred_oracle(login, cwd0, verb, arg, between, ob):
    """every path the worker hands to the backend is base_path(user at the command) + normalize(cwd at the command, arg)
    (or an entry of that directory for LIST/MLSD)"""
    if "error" in ob:
        return [("wire-driver-error", ob["error"])]
    if ob.get("login") != ["230"] or ob.get("cwd0") != ["250"] or ob.get("codes") != ["150"]:
        return []
    base = pathlib.PurePosixPath({u[0]: u[2] for u in WIRE_USERS}[login])
    norm = py_normalize(cwd0, arg)
    target = str(base.joinpath(*norm) if norm else base)
    bad = []
    for name, args in ob["calls_worker"]:
        for p in args:
            if p == target or (verb in ("LIST", "MLSD") and name != "list" and str(pathlib.PurePosixPath(p).parent) == target):
                continue
            bad.append(("wire-deferred-foreign-path", f"{verb} {arg!r} handled as {login} in {cwd0} addresses {target!r}; after {between} the transfer "
                        f"calls {name}({p!r})"))
    return bad


def stream_deferred(ctx):
    cases = [(c, b) for i, c in enumerate(DEFER_CASES) for j, b in enumerate(DEFER_BETWEEN) if ctx.tier == "thorough" or (i + j) % 3 == 0]
    n150 = 0
    for (login, password, cwd0, verb, arg), between in cases:
        ctx.case(("deferred", login, cwd0, verb, arg, repr(between)))
        ctx.traces_impl += 1
        ob = run_deferred(login, password, cwd0, verb, arg, between)
        n150 += ob.get("codes") == ["150"]
        for key, detail in deferred_oracle(login, cwd0, verb, arg, between, ob)[:1]:
            report(ctx, f"wire session with a deferred transfer: {detail}",
                   {"key": key, "deferred": True, "login": login, "password": password, "cwd": cwd0, "verb": verb, "arg": arg, "between": [list(b) for b in between]})
    ctx.count("deferred_transfer_sessions", len(cases))
    ctx.count("deferred_transfer_sessions_150", n150)


# ---- a backend that INTERPRETS '..': the stock PathIO on the real file system
# MemoryPathIO looks components up by name ('..' is just a name nobody has), so a '..' that survives get_paths is only "not
# found" there.  On the real file system the kernel resolves it.  Layout under a fresh temporary directory:
#   top/            <- everything here but base/ is OUTSIDE (contents start with b"OUTSIDE")
#   top/base/       <- alice's base_path; it contains directories literally named '.. ', '..<TAB>', ' ..', '. ', '..<NBSP>'
#   top/base/pub/   <- bob's base_path (nested: alice's files are outside for bob)
# so "RETR .. /f" has a legitimate answer (top/base/'.. '/f) that differs from the escape (top/f).
REALFS_OUTSIDE = {"f": b"OUTSIDE-f", "outside.txt": b"OUTSIDE-outside.txt", "g": b"OUTSIDE-g", "x": {"f": b"OUTSIDE-x-f"}, "pub": {"f": b"OUTSIDE-pub-f"}}
REALFS_BASE = {
    "f": b"base-f", "g": b"base-g", "outside.txt": b"base-outside.txt",
    ".. ": {"f": b"base-ddblank-f", "outside.txt": b"base-ddblank-outside", ".. ": {"f": b"base-ddblank-ddblank-f"}, "d": {}},
    "..\t": {"f": b"base-ddtab-f"}, " ..": {"f": b"base-blankdd-f"}, ". ": {"f": b"base-dotblank-f"}, ".. ": {"f": b"base-ddnbsp-f"},
    "d": {"g": b"base-d-g", ".. ": {"g": b"base-d-ddblank-g"}},
    "pub": {"f": b"pub-f", "readme.txt": b"pub-readme", ".. ": {"f": b"pub-ddblank-f"}, "d": {}},
}
REALFS_ARGS = [".. /f", ".. /outside.txt", ".. /.. /f", ".. /.", "..\t/f", " ../f", ". /f", ".. /f", "d/.. /g", "pub/.. /.. /planted.txt", ".. /new",
               ".. /d", "/.. /f", "d/.. /.. /f", ".. /x/f", "f", "pub/f", "../f", "..", "/", "d/g", "d/../f", "new", ".. /.. /.. /f", " .. /f", "..  /f", ".. /pub/f"]
REALFS_VERBS = ["CWD", "MLST", "MKD", "RMD", "DELE", "RNFR", "RNTO", "LIST", "MLSD", "RETR", "STOR", "APPE", "RETR", "MLST", "CWD"]
REALFS_CORPUS = [
    [("USER", "alice", None), ("PASS", "a", None), ("PASV", "", None), (ftpsim.DATACONN, "", None), ("RETR", ".. /outside.txt", None),
     ("CWD", ".. /.", None), ("PWD", "", None), ("DELE", ".. /f", None)],
    [("USER", "alice", None), ("PASS", "a", None), ("PASV", "", None), (ftpsim.DATACONN, "", None), ("STOR", "pub/.. /.. /planted.txt", b"planted"),
     ("MLST", ".. /.", None), ("MKD", "..\t/made", None)],
    [("USER", "bob", "b"), ("PASS", "b", None), ("CWD", ".. /.", None), ("PWD", "", None), ("PASV", "", None), (ftpsim.DATACONN, "", None), ("RETR", "f", None),
     ("RNFR", ".. /f", None), ("RNTO", "taken", None)],
]
REALFS_CORPUS[2][0] = ("USER", "bob", None)


def disk_write(root, tree):
    root.mkdir(parents=True, exist_ok=True)
    for name, v in tree.items():
        if isinstance(v, dict):
            disk_write(root / name, v)
        else:
            (root / name).write_bytes(v)


def disk_snapshot(root, skip=None):
    """{relative path: bytes | None for a directory}, without the subtree `skip`"""
    out = {}
    for dirpath, dirs, files in os.walk(root):
        d = pathlib.Path(dirpath)
        if skip is not None and d == skip:
            dirs[:] = []
            continue
        out[str(d.relative_to(root))] = None
        for f in files:
            out[str((d / f).relative_to(root))] = (d / f).read_bytes()
    return out


def run_realfs(events):
    """the wire history on the real server with the stock PathIO over a fresh directory tree -> (problems, obs).
    Oracles, all stated without the model, on what the backend is actually handed and on what the file system shows:
    * wire_oracle: every recorded path = base_path(current user) + normalize(cwd, arg) (parent probe / listing entries as there);
    * realfs-backend-path-escapes: os.path.normpath of every recorded path (what the kernel makes of it; no symlinks in the tree)
      is base_path(current user) or below it, and the path has no '..' component;
    * realfs-outside-content-delivered: no transfer or reply carries bytes of a file outside the base;
    * realfs-outside-modified: the tree outside alice's base is byte-identical afterwards; a session of bob alone also leaves
      alice's files outside top/base/pub alone."""
    tmp = pathlib.Path(tempfile.mkdtemp(prefix="c02fs-"))
    try:
        top = tmp / "top"
        disk_write(top, REALFS_OUTSIDE)
        disk_write(top / "base", REALFS_BASE)
        users = [("alice", "a", str(top / "base"), "/"), ("bob", "b", str(top / "base" / "pub"), "/")]
        only_bob = all(a == "bob" for v, a, _ in events if v == "USER")
        guard = top / "base" / "pub" if only_bob else top / "base"
        before = disk_snapshot(top, skip=guard)
        obs, _ = run_wire(events, users=users, disk=True)
        problems, _ = wire_oracle(events, obs, users=users)
        problems = [(k, key, d.replace(str(tmp), "<tmp>")) for k, key, d in problems]
        by_login = {u[0]: u for u in users}
        cur = None
        extra = []
        for k, ((verb, arg, _), ob) in enumerate(zip(events, obs)):
            if verb == "USER":
                cur = by_login.get(arg) if "331" in ob["codes"] else None
            for name, args in ob.get("calls", []):
                for p in args:
                    base = cur[2] if cur else str(top / "base")
                    np_ = os.path.normpath(p)
                    if verb in ("STOR", "APPE") and name == "is_dir" and p == str(pathlib.PurePosixPath(base).parent):
                        continue  # F19 (parent probe of the virtual root): wire_oracle reports it under its own key, or as a foreign path
                    if ".." in pathlib.PurePosixPath(p).parts or not (np_ == base or np_.startswith(base + "/")):
                        extra.append((k, "realfs-backend-path-escapes", f"{verb} {arg!r} as {cur[0] if cur else None}: PathIO.{name}({p.replace(str(tmp), '<tmp>')!r}) "
                                      f"is resolved by the file system to {np_.replace(str(tmp), '<tmp>')!r}, outside base_path {base.replace(str(tmp), '<tmp>')!r}"))
            blob = (ob.get("bytes") or b"") + "\n".join(ob.get("lines", [])).encode()
            if b"OUTSIDE" in blob:
                extra.append((k, "realfs-outside-content-delivered", f"{verb} {arg!r} delivered {blob[:60]!r}: the content of a file outside base_path"))
        after = disk_snapshot(top, skip=guard)
        if after != before:
            diff = sorted(k for k in set(before) | set(after) if before.get(k, 0) != after.get(k, 0))
            extra.append((len(events) - 1, "realfs-outside-modified", f"the file system outside base_path changed: {diff[:4]}"))
        return extra + problems, obs
    finally:
        shutil.rmtree(tmp, ignore_errors=True)


def gen_realfs_history(rng):
    login = rng.choice(["alice", "alice", "bob"])
    ev = [("USER", login, None), ("PASS", login[0], None)]
    for _ in range(rng.randint(3, 9)):
        r = rng.random()
        if r < 0.1:
            ev.append((rng.choice(["PWD", "CDUP"]), "", None))
            continue
        if r < 0.17:
            login = rng.choice(["alice", "bob"])
            ev += [("USER", login, None), ("PASS", login[0], None)]
            continue
        verb, arg = rng.choice(REALFS_VERBS), rng.choice(REALFS_ARGS)
        if verb in DATA_VERBS:
            ev += [("PASV", "", None), (ftpsim.DATACONN, "", None)]
        ev.append((verb, arg, b"up-" + arg.encode() if verb in ("STOR", "APPE") else None))
    return ev


_REALFS_KEYS = set()


def check_realfs(ctx, events):
    ctx.case(("realfs", repr(events)))
    ctx.traces_impl += 1
    hist = [[v, a, p.decode() if p else None] for v, a, p in events]
    try:
        problems, _ = run_realfs(events)
    except Exception as e:  # noqa: BLE001 - observation
        ctx.violation(f"real-file-system session could not be driven: {e!r}", {"key": "wire-driver-error", "realfs": True, "events": hist})
        return
    seen = set()
    for k, key, detail in problems:
        if key in seen:
            continue
        seen.add(key)
        # one replay per key, and at most three keys with a replay from this stream (core writes the first five replay files:
        # two are left to the function-level streams, whose replay is the minimal (base, cwd, path) triple); the rest is counted
        fresh = key not in _REPORTED
        if fresh and len(_REALFS_KEYS) >= 3 and key not in _REALFS_KEYS:
            ctx.count("further_violations_" + key)
            continue
        _REALFS_KEYS.add(key)
        report(ctx, f"real file system (stock PathIO), step {k}: {detail}", {"key": key, "realfs": True, "events": hist, "step": k}, per_key=1)


def stream_realfs(ctx):
    rng = ctx.rng
    n = 400 if ctx.tier == "thorough" else 45
    hs = [list(h) for h in REALFS_CORPUS]
    # every verb once on the plain escape shapes, as alice (base top/base) and as bob (nested base)
    for login in ("alice", "bob"):
        for arg in (".. /f", "..\t/f", ".. /.. /f") if ctx.tier != "thorough" else REALFS_ARGS[:15]:
            h = [("USER", login, None), ("PASS", login[0], None)]
            for verb in ("MLST", "RETR", "LIST", "STOR", "MKD", "DELE", "CWD"):
                if verb in DATA_VERBS:
                    h += [("PASV", "", None), (ftpsim.DATACONN, "", None)]
                h.append((verb, arg if verb != "MKD" else arg + "2", b"up" if verb == "STOR" else None))
            h.append(("PWD", "", None))
            hs.append(h)
    hs += [gen_realfs_history(rng) for _ in range(n)]
    for h in hs:
        check_realfs(ctx, h)
    ctx.count("realfs_sessions", len(hs))
    ctx.count("realfs_events", sum(len(h) for h in hs))
    ctx.sample({"stream": "realfs", "events": [[v, a] for v, a, _ in hs[0]]})


# ---------------------------------------------------------------- known findings
WITNESSES = [
    # (finding key, flavour, base, cwd, path)
    ("win-dotdot-backslash", "win", "C:\\ftp", "/", "..\\..\\windows"),
    ("win-alias-drive", "win", "C:\\ftp", "/", "C:foo"),
    ("win-alias-backslash", "win", "C:\\ftp", "/", "a/\\x"),
    ("win-dotdot-drive", "win", "C:\\ftp", "/", "C:.."),
]


def run_witness(flavour, base, cwd, s):
    impl = Impl()
    try:
        res, base_obj = impl.get_paths(flavour, base, cwd, s)
        if res is None:
            return ("raises", "ValueError"), None
        return oracle(flavour, base_obj, cwd, s, *res), res
    finally:
        impl.close()


# wire-level witnesses of the session findings: key -> history on one control connection
# the former witness of F18 (repaired in /repo 8b539d4: user() drops a pending rename source) stays as a corpus case
WIRE_CORPUS = [
    [("USER", "alice", None), ("PASS", "a", None), ("RNFR", "/f", None), ("USER", "dave", None), ("PASS", "d", None), ("RNTO", "/taken", None), ("MLST", "/f", None)],
    [("USER", "alice", None), ("PASS", "a", None), ("RNFR", "d/g", None), ("USER", "nobody", None), ("USER", "carol", None), ("PASS", "c", None), ("RNTO", "g2", None)],
]
WIRE_CORPUS += [
    [("USER", "alice", None), ("PASS", "a", None), ("CWD", "d", None), ("RNFR", "f", None), ("CWD", "/", None), ("RNTO", "/e/moved", None)],
    [("USER", "bob", None), ("PASS", "b", None), ("CWD", "/x", None), ("RNFR", "f", None), ("CDUP", "", None), ("RNTO", "d/moved", None)],
    [("USER", "root", None), ("PASS", "r", None), ("CWD", "/alice/d", None), ("RNFR", "g", None), ("CWD", "/bob/d", None), ("RNTO", "/alice/e/g", None)],
]
WIRE_WITNESSES = {
    "wire-stor-root-parent-probe": [("USER", "alice", None), ("PASS", "a", None), ("PASV", "", None), (ftpsim.DATACONN, "", None), ("STOR", "/", b"x")],
}


def known(ctx):
    for f in ctx.kf:
        for key, flavour, base, cwd, s in WITNESSES:
            if key in f.get("keys", []):
                bad, res = run_witness(flavour, base, cwd, s)
                if bad is not None:
                    ctx.known_reproduced(f["id"], f"{key}: get_paths({base!r}, cwd={cwd!r}, {s!r}) -> real {str(res[0])!r}, virtual {str(res[1])!r}: {bad[1]}")
        for key, events in WIRE_WITNESSES.items():
            if key in f.get("keys", []):
                try:
                    obs, _ = run_wire(events)
                    problems, _ = wire_oracle(events, obs)
                except Exception as e:  # noqa: BLE001
                    ctx.notes.append(f"witness of {key} could not be driven: {e!r}")
                    continue
                hit = [d for _, k, d in problems if k == key]
                if hit:
                    ctx.known_reproduced(f["id"], f"{key}: {hit[0]}")


# ---------------------------------------------------------------- entry points
def correspondence(ctx):
    ctx.extra["rule"] = (
        "streams: (blanks) '..' and '.' decorated with white space before/after (blank, TAB, NBSP, EM SPACE, US; 16 segments, every string of "
        "<= 3 segments (4 thorough) x 3 prefixes, plus each of the 27 str.isspace() code points around '..' / '.' in first and inner "
        "position) on 8 (flavour, base, cwd) pairs whose bases / working directories carry such names too; the same forms are mixed "
        "into the random long paths and the session / wire argument lists (inner positions over the wire: parse_command strips the end "
        "of a command line); (realfs) wire sessions on the real server with the STOCK PathIO over a fresh directory tree on the real file "
        "system (a backend that interprets '..'), base directories holding directories literally named '.. ', '..<TAB>', ' ..', '. ', "
        "'..<NBSP>' and same-named files next to the base: every path handed to PathIO must normalise (os.path.normpath) to a location "
        "inside base_path(current user) and contain no '..', nothing delivered may carry bytes of an outside file, the tree outside the "
        "base must be byte-identical afterwards, and the wire oracle (path = base + normalize(cwd, arg)) holds; "
        "(unicode) every string of <= 3 segments (4 thorough) over 16 segments made of compatibility look-alikes of "
        "'.', '..', '/', '\\', ':' and letters (U+2024 U+FF0E U+2025 U+FE52 U+FF0F U+FF3C U+FF1A U+FF41, decomposed/composed e-acute, "
        "U+2215) x 3 prefixes on 8 (flavour, base, cwd) pairs; (deferred, inside wire) transfers answered 150 whose data connection "
        "arrives after a CWD / CDUP / re-login: the backend path must be base(user at the command) + normalize(cwd at the command, arg); "
        "(pathlib) every string of <= 3 segments (4 thorough) over {a,..,.,'',a\\b,.h,...} x prefixes {'','/','//','///'} "
        "through each unary PurePosixPath operation of the model, all pairs of <= 2-segment strings through join/relative_to/"
        "is_relative_to; (winpath) the same for PureWindowsPath over a drive/colon/backslash alphabet; (get_paths) every path "
        "string of <= 3 segments (4 thorough) over the 13-segment alphabet of the property x 4 prefixes x 7 working directories x "
        "7 POSIX + 7 Windows bases on the real Server.get_paths (quick: the 3-segment layer is spread round-robin over the "
        "base/cwd pairs), plus random paths of 3-7 segments; (normalize) the Coq specification against an independent Python "
        "fold; (histories) random CWD/CDUP histories with refused steps; (relogin) ONE Connection object reused across "
        "get_paths calls while connection.user / current_directory change: every history of <= 3 events (4 thorough) over a "
        "13-event alphabet {login as one of 3 users (2 bases, 2 homes), path command with 3 spellings, CWD, CDUP, RNFR, RNTO, "
        "STOR, STOR /, refused CWD} plus random histories of 2-10 events over 8 POSIX and 3 Windows users, each path command "
        "resolved 3 times as the decorators and the body do, compared with Model/PathsSess.v and with a fresh Connection; "
        "(wire) random sessions with re-logins on ONE control connection of the real server on simnet with a recording "
        "backend (5 users: different, nested, relative and equal base paths, different homes), every path handed to the "
        "backend compared with base_path(current user) + normalize(cwd, arg) and with the model. The oracle (real = base + "
        "virtual components, no '..' below base, virtual = normalize) runs on every real output. A case is non-trivial when "
        "its input is distinct."
    )
    xcheck = []
    only = [x for x in os.environ.get("C02_STREAMS", "").split(",") if x]  # development aid: run a subset of the streams

    def want(name):
        return not only or name in only

    if want("realfs"):
        stream_realfs(ctx)
    if want("pathlib"):
        stream_pathlib(ctx, xcheck)
    if want("winpath"):
        stream_winpath(ctx, xcheck)
    if want("normalize"):
        stream_normalize(ctx, xcheck)
    if want("unicode"):
        stream_unicode(ctx, xcheck, k=4 if ctx.tier == "thorough" else 3)
    if want("blanks"):
        stream_blanks(ctx, xcheck, k=4 if ctx.tier == "thorough" else 3)
    if want("get_paths"):
        stream_get_paths(ctx, xcheck)
    if want("histories"):
        stream_histories(ctx, xcheck)
    if want("wire"):
        stream_wire(ctx, xcheck)
        stream_deferred(ctx)
    if want("relogin"):
        stream_relogin(ctx, xcheck)
    ok, out = core.vm_crosscheck(EXTRACT, xcheck[:100])
    ctx.extra["vm_compute_crosscheck"] = {"cases": len(xcheck[:100]), "agree": ok}
    if not ok:
        ctx.obligation_broken("extraction-crosscheck", out)


SEARCH_BUDGET_S = 180


def search(ctx):
    """the oracle already ran on every real output; when an obligation or the tie is broken and no failing input
    was found yet, widen the exhaustive layers -- within SEARCH_BUDGET_S seconds of wall time, so that the check
    always ends with a verdict: look-alike names and white-space decorated '..' one segment deeper, the part of the 3-segment layer the quick
    run spread elsewhere, a 32nd of the 4-segment layer, more random long paths"""
    if ctx.violations or ctx.tier == "thorough" or ctx.exe is None:
        return
    xcheck = []
    third = SEARCH_BUDGET_S / 4
    try:
        stream_unicode(ctx, xcheck, k=4, deadline=time.time() + third)
        if not ctx.violations:
            stream_blanks(ctx, xcheck, k=4, deadline=time.time() + third)
        if not ctx.violations:
            stream_get_paths(ctx, xcheck, k=3, n_random=8000, layer_offsets=(1, 2), skip_short=True, deadline=time.time() + third)
        if not ctx.violations:
            stream_get_paths(ctx, xcheck, k=4, n_random=1, layer_mod=32, layer_offsets=(0,), skip_short=True, deadline=time.time() + third)
    except Exception as e:  # noqa: BLE001
        ctx.notes.append(f"search aborted: {e!r}")


def replay(ctx, data):
    r = data.get("replay", {})
    if r.get("session"):
        asyncio.set_event_loop(asyncio.new_event_loop())
        users = [tuple(u) for u in r["users"]]
        per_event, problems, cwd = run_session_impl(users, r["first"], r["events"])
        for (cur, paths), ev in zip(per_event, r["events"]):
            print("event", ev, "as user", cur, "->", [str(p) for p in paths])
        for k, key, detail in problems:
            print("oracle: step", k, key, detail)
        return not problems
    if r.get("deferred"):
        between = [tuple(b) for b in r["between"]]
        ob = run_deferred(r["login"], r["password"], r["cwd"], r["verb"], r["arg"], between)
        print(r["verb"], r["arg"], "as", r["login"], "in", r["cwd"], "->", ob.get("codes"), "| between", between, "->", ob.get("between"), "| after", ob.get("after"))
        print("backend calls of the transfer:", ob.get("calls_worker"))
        bad = deferred_oracle(r["login"], r["cwd"], r["verb"], r["arg"], between, ob)
        for key, detail in bad:
            print("oracle:", key, detail)
        return not bad
    if r.get("realfs"):
        events = [(v, a, p.encode() if p is not None else None) for v, a, p in r["events"]]
        problems, obs = run_realfs(events)
        for (v, a, _), ob in zip(events, obs):
            print(v, repr(a), ob["codes"], [(n, [x[x.find("/top"):] for x in ps]) for n, ps in ob["calls"]], ob.get("bytes"))
        for k, key, detail in problems:
            print("oracle: step", k, key, detail)
        return not problems
    if r.get("wire"):
        events = [(v, a, p.encode() if p is not None else None) for v, a, p in r["events"]]
        obs, tree = run_wire(events)
        problems, _ = wire_oracle(events, obs)
        for (v, a, _), ob in zip(events, obs):
            print(v, a, ob["codes"], ob["calls"])
        for k, key, detail in problems:
            print("oracle: step", k, key, detail)
        return not problems
    if "path" in r:
        bad, res = run_witness(r["flavour"], r["base"], r["cwd"], r["path"])
        print("get_paths ->", None if res is None else (str(res[0]), str(res[1])), "oracle:", bad)
        return bad is None
    if "history" in r:
        asyncio.set_event_loop(asyncio.new_event_loop())
        user = aioftp.User(base_path=r["base"], home_path=r["home"])
        conn = aioftp.Connection(current_directory=user.home_path, user=user)
        ok = True
        for step in r["history"]:
            if step[0] == 0 and step[2]:
                conn.current_directory = aioftp.Server.get_paths(conn, step[1])[1]
            elif step[0] == 1 and step[1]:
                conn.current_directory = aioftp.Server.get_paths(conn, conn.current_directory.parent)[1]
            else:
                continue
            cur = conn.current_directory
            ok = ok and cur.parts[:1] == ("/",) and not any(p in ("..", ".", "") for p in cur.parts[1:])
        print("cwd:", conn.current_directory)
        return ok
    print("replay payload:", data)
    return False
