"""C17 — concurrent sessions do not interfere with each other.

Pairs / triples of scripted sessions against ONE real aioftp.Server on simnet, each session working in
its own pre-existing directory (/a, /b, /c), under enumerated and random interleavings:

  * command granularity  — a schedule is a merge of the scripts; every step settles (exact quiescence);
  * simultaneous commands — several sessions' command lines are in flight before anything is processed
                            ("send" atoms followed by "collect" atoms);
  * mid-transfer          — a RETR/LIST/MLSD whose data link is HELD (the server-side worker blocks in
                            drain(): simnet's high-water mark is lowered for the run), a STOR/APPE whose
                            payload is sent in two parts, or any command suspended INSIDE a backend call
                            by a gated backend (n-th mkdir/rename/_open/read/write/... of that session);
                            the other sessions run whole scripts, log in again, renew their listener,
                            ABOR, QUIT, crash (RST) or close in the window.

Property oracles (on the implementation only, no model involved):
  O1  every session's full reply transcript (ports / timestamps canonicalised), transferred bytes and
      listings, and backend-call sequence equal those of its SOLO run (same atoms, fresh server);
  O2  the final tree is the initial tree with every dirs[i] replaced by what session i's solo run leaves
      there (union of the solo effects), nothing else changed;
  O3  a step of session i leaves the white-box Connection state of every other session untouched (login,
      user, cwd, pending rename, restart offset, transfer type, listener, data connection, workers);
  O4  the listener / data connection a session holds are its own (listener port = the port announced to it,
      data-connection peer = a socket that session's client opened);
  O5  the backend instance of session i is only ever asked about paths inside dirs[i];
  O6  every command sent and completed in one step gets the same replies by the end of that step, at the same VIRTUAL
      instants after the command, as in the solo run (nobody is delayed or blocked by a peer that stops reading its
      control channel, by a session connecting, or - with per-connection speed limits - by another session's transfer).

  O7  (mechanism, reported as a broken obligation) aliasing: no mutable object reachable from one session's Connection
      (through containers, namedtuples, aioftp objects, results of completed futures: throttles under every key, backend
      instance, futures, streams, worker set) is reachable from another's, except the declared shared ones (server, server-wide
      throttle, user manager / user objects / counters, port pool, backend nursery and its state, the per-user throttle
      of the SAME user); no connection of a vanished peer stays in the server's table at quiescence.
  Two families make the consequences behavioural: an operator assigns `throttle.limit` on ONE session's per-connection
  throttle at run time (the others keep their solo timing), and a session dies uncleanly at every point (control connection
  reset / closed, data peer stalled with unsent data queued: a lingering close; Server.wait_closed() with its CPython >= 3.12.1
  meaning) before another one connects / logs in under a connection limit of 1.

Correspondence with the extracted model (coq/Model/Multi.v):
  M0  the hypotheses of C17_isolation hold for the schedule (fn 1: solo footprints inside dirs[i], dirs
      pairwise incomparable and existing) — non-vacuity, evaluated by the model on every schedule;
  M1  command-granularity schedules: after EVERY step the reply / bytes / listing / ended flag of the acting
      session and the records of ALL sessions (vs. the white-box probes) equal grun's trace (fn 0);
  M2  every schedule: session i's transcript equals the model's SOLO run of i (fn 2) and the final tree equals
      grun's tree for the serialised schedule (sessions that abort / are dropped inside their own transfer
      are excluded from M2: the model has no partial transfers).
"""
import asyncio
import collections
import errno
import itertools
import json
import mmap
import os
import pathlib
import pickle
import re
import select
import shutil
import signal
import struct
import tempfile
import threading
import time
import types

import aioftp

from .. import core, ftpsim, simnet, sx
from . import c05

ID = "C17"
EXTRACT = "ExC17"
TECHNIQUE = (
    "Coq proofs about a multi-session model (shared tree x per-session records of Model/Session.v; an interleaving is a list of "
    "(session, event), sessions can be dropped): locality, a frame lemma per step, commutation of steps with disjoint footprints and "
    "isolation for n sessions by induction on the interleaving; closed obligations recomputed by vm_compute over the write-site "
    "inventory regenerated from server.py (every session function writes connection.<attr> or a declared shared structure only, no "
    "class-level mutable, Connection/queue/backend built once per accepted socket, PASV/EPSV accept handler closes over its own "
    "connection); solo-vs-interleaved oracle and model correspondence on the real server on an in-memory network with held links, "
    "split uploads and a gated spying backend; an aliasing oracle over everything reachable from two Connections; closed obligation "
    "over common.py: every factory whose result is stored under a stream's `throttles` returns a newly constructed object on every path"
)
LEVEL_TEXT = (
    "Proved about the model for every dispatch table, user table, tree, number of sessions and interleaving (commands, data-channel "
    "events, QUIT, dropped sessions anywhere): C17_locality (a step of session i leaves every other session's record unchanged), "
    "C17_step_frame, C17_disjoint_commute, C17_isolation / C17_isolation_gen (sessions whose SOLO runs stay inside pairwise "
    "incomparable existing directories: transcript and final record of each equal its solo run, the final tree is the union of the "
    "solo effects). C17_source_obligations ties locality to the code: closed checks over the write sites, naming, construction and "
    "passive-callback facts regenerated from server.py. That the CODE behaves like the model under real asyncio interleavings is "
    "validated, not proved: enumerated and random interleavings of pairs/triples of scripts at command granularity, with simultaneous "
    "commands and mid-transfer / mid-backend-call suspension, compared with solo runs and with the extracted model."
)
LEVEL_NOTE = (
    "Partial by nature: the model interleaves whole commands; sub-command interleaving (blocks of two transfers, handlers suspended in "
    "backend calls), asyncio scheduling and executor threads are explored by simnet only. Outside the hypothesis and the model: "
    "sessions touching the SAME paths (shared BytesIO position of MemoryPathIO), shared counters by design (connection limits, port "
    "pool, per-user throttle). The transfer type is not in the model (checked by the write-site obligation and by the white-box probe)."
)
TRUSTED = [
    "simnet: in-memory transports, virtual clock, lowered high-water mark stand for TCP, wall time and socket buffers",
    "py2v write-site extraction (gen_isolation.py) is syntactic: attribute/subscript assignments, deletions and calls of a fixed list of mutating methods",
]
ASSUMPTIONS = [
    "each session sends one command at a time (ABOR excepted); different sessions are fully concurrent",
    "sessions work on disjoint pre-existing directories (the property's hypothesis, checked on every schedule by the model's run_in); two families go beyond it and are validated only: disjoint leaves under a common missing ancestor, and different entries of the same existing directory (siblings; Props/C17.v: C17_sibling_removals_commute covers the tree level)",
    "no connection limits among LIVE sessions (one family configures a limit of 1 that only a dead session could exhaust), port pool large enough, no server-wide / per-user speed limits (shared by design: C10, C11, C15); per-connection limits are configured in one family and assigned at run time on one session's own throttle in another",
    "lingering close: a transport closed with unsent data queued gets connection_lost only when the peer has taken the data or reset (asyncio selector transports with kernel buffers of size 0); asyncio.Server.wait_closed() waits for the accepted connections (CPython >= 3.12.1) - both modelled in the harness for the family after-unclean-death only",
]

CRLF = b"\r\n"
XFER = ("retr", "stor", "appe", "list", "mlsd")
DIRS = ["a", "b", "c"]


def pat(seed, n):
    return bytes((seed * 37 + i * (7 + seed)) % 251 for i in range(n))


def subtree(k):
    """the same NAMES in every directory, different CONTENT: cross-talk shows as different bytes"""
    tag = DIRS[k].encode()
    return {
        "f": b"file-" + tag * 3 + b"-0123456789",
        "big": pat(k + 1, 1500),
        "sub": {"x": tag + b"x", "y": {}},
        "e": {},
    }


TREE = {"a": subtree(0), "b": subtree(1), "c": subtree(2), "top": b"outside"}

USERS = [
    {"login": "u", "password": "pw", "home": "/"},
    {"login": "v", "password": "pw2", "home": "/"},
    {"login": "nopw", "password": None, "home": "/"},
    {"login": "ha", "password": "x", "home": "/a"},
    {"login": "hb", "password": "x", "home": "/b"},
    {"login": "hc", "password": "x", "home": "/c"},
    {"login": None, "password": None, "home": "/"},
]
LOGIN = {
    "u": [("USER", "u"), ("PASS", "pw")],
    "v": [("USER", "v"), ("PASS", "pw2")],
    "n": [("USER", "nopw")],
    "h": [("USER", "h{d}"), ("PASS", "x")],
    "anon": [("USER", "anonymous")],
    "ubad": [("USER", "u"), ("PASS", "nope"), ("PWD", ""), ("PASS", "pw")],
}
C = "!"  # the peer connects to the passive listener

# bodies: relative paths after "CWD /{d}" (a leaked cwd then changes what is read / written)
BODIES = {
    "nav": [("PWD", ""), ("MKD", "n/m"), ("CWD", "n/m"), ("PWD", ""), ("CDUP", ""), ("PWD", ""), ("RMD", "m"), ("CWD", ".."), ("RMD", "n"), ("PWD", "")],
    "store": [("PASV", ""), (C, ""), ("STOR", "new", b"payload-{d}-" + bytes(range(40))), (C, ""), ("RETR", "new"), ("DELE", "new"), ("MLST", "f")],
    "rest": [("EPSV", ""), (C, ""), ("REST", "3"), ("RETR", "f"), (C, ""), ("REST", "4"), ("STOR", "f", b"XY"), (C, ""), ("RETR", "f"), ("REST", "2"), ("PWD", ""), (C, ""), ("RETR", "f")],
    "rest2": [("PASV", ""), ("REST", "700"), (C, ""), ("RETR", "big"), ("REST", "5"), (C, ""), ("RETR", "big"), (C, ""), ("RETR", "f")],
    "rename": [("RNFR", "f"), ("RNTO", "f2"), ("RNFR", "f2"), ("PWD", ""), ("RNTO", "sub/f3"), ("RNTO", "x"), ("RNFR", "sub"), ("RNTO", "sub2"), ("MLST", "sub2/f3")],
    "type": [("TYPE", "A"), ("PASV", ""), (C, ""), ("LIST", ""), ("TYPE", "I"), (C, ""), ("MLSD", "sub"), ("MLST", "f"), ("TYPE", "X")],
    "append": [("PASV", ""), (C, ""), ("APPE", "f", b"-tail-{d}"), (C, ""), ("RETR", "f"), (C, ""), ("APPE", "newf", b"q{d}"), (C, ""), ("MLSD", "")],
    "relogin": [("CWD", "sub"), ("PWD", ""), ("USER", "v"), ("PWD", ""), ("PASS", "pw2"), ("PWD", ""), ("CWD", "/{d}/e"), ("MKD", "z"), ("PWD", "")],
    "nodata": [("PASV", ""), ("RETR", "f"), (C, ""), (C, ""), ("RETR", "f"), ("ABOR", ""), ("EPSV", ""), ("EPSV", ""), (C, ""), ("PASV", ""), ("LIST", "sub")],
    "errors": [("DELE", "missing"), ("RMD", "f"), ("CWD", "f"), ("MKD", "sub"), ("RETR", "sub"), ("RNTO", "q"), ("STOR", "e"), ("FOO", "bar"), ("RMD", "sub")],
    "quit": [("MKD", "q1"), ("RNFR", "q1"), ("QUIT", ""), ("RNTO", "q2"), ("PWD", "")],
    "badrest": [("PASV", ""), (C, ""), ("REST", "٣"), ("PWD", "")],
    "epsvarg": [("MKD", "k"), ("EPSV", "1"), ("PWD", "")],
    "abor": [("PASV", ""), (C, ""), ("ABOR", ""), ("PWD", ""), ("RETR", "f"), ("ABOR", ""), ("REST", "9"), ("ABOR", ""), (C, ""), ("RETR", "f")],
    "selfabort": [("PASV", ""), (C, ""), {"k": "send", "verb": "RETR", "arg": "big", "mode": "hold"}, ("ABOR", ""), {"k": "collect"}, ("PWD", ""), (C, ""),
                  {"k": "send", "verb": "STOR", "arg": "part", "payload": "0123456789abcdef", "mode": "split", "marg": 5}, ("ABOR", ""), {"k": "collect"}, ("MLST", "part"), ("ABOR", "")],
    "unicode": [("MKD", "ñandú"), ("CWD", "ñandú"), ("PWD", ""), ("PASV", ""), (C, ""), ("STOR", "данные.bin", b"bytes-{d}"), (C, ""), ("MLSD", ""), ("CDUP", ""),
                ("RNFR", "ñandú"), ("RNTO", "日本語"), (C, ""), ("LIST", ""), ("MLST", "日本語/данные.bin"), (C, ""), ("RETR", "日本語/данные.bin")],
    # a command line that is NOT valid UTF-8 (a legacy latin-1 client): today the server drops that session - and only that one
    "rawbytes": [("MKD", "ok1"), {"k": "cmd", "verb": "MKD", "arg": "caf\u00e9", "raw": True}, ("PWD", "")],
    "rawbytes2": [("PASV", ""), (C, ""), {"k": "cmd", "verb": "STOR", "arg": "\u00fcber.txt", "raw": True, "payload": "x"}, ("MKD", "after")],
    "abs": [("MKD", "/{d}/e/abs"), ("RNFR", "/{d}/e/abs"), ("RNTO", "/{d}/sub/y/abs2"), ("CWD", "/{d}/sub/y/abs2"), ("PWD", ""), ("CDUP", ""), ("RMD", "abs2"), ("DELE", "/{d}/sub/x")],
}
# disjoint LEAVES under a common ancestor that does not exist yet (/inbox): used by the family "shared-missing-ancestor" only
DEEP_BODIES = {
    "deepmkd": [("MKD", "/inbox/{d}/x"), ("CWD", "/inbox/{d}"), ("PWD", ""), ("MKD", "y/z"), ("PASV", ""), (C, ""), ("STOR", "x/f", b"deep-{d}"), (C, ""),
                ("MLSD", "/inbox/{d}"), ("RMD", "y/z"), (C, ""), ("RETR", "x/f")],
    "deepmkd2": [("MKD", "inbox/{d}"), ("MKD", "inbox/{d}/q/r"), ("RNFR", "inbox/{d}/q"), ("RNTO", "inbox/{d}/q2"), ("MLST", "inbox/{d}/q2/r"), ("MKD", "/outbox/deep/{d}/k")],
    "deepmkd3": [("MKD", "/inbox/new/{d}"), ("CWD", "/inbox/new/{d}"), ("MKD", "m"), ("PWD", "")],
}
# DIFFERENT ENTRIES of the SAME directory /{d} (siblings; used by the family "siblings-in-shared-parent" only).  Role r owns the
# pre-existing entries {file} / {dir} and every name that carries its number; nobody lists the shared directory
SIB_ROLES = [{"file": "f", "dir": "e"}, {"file": "big", "dir": "sub/y"}]
SIB_BODIES = {
    "sibdel": [("DELE", "{file}"), ("MKD", "n{r}"), ("RMD", "{dir}"), ("RMD", "n{r}"), ("MLST", "n{r}")],
    "sibmk": [("MKD", "m{r}"), ("MKD", "m{r}/k"), ("PASV", ""), (C, ""), ("STOR", "s{r}.bin", b"sib-{r}-{d}"), ("RNFR", "s{r}.bin"), ("RNTO", "t{r}.bin"),
              ("RMD", "m{r}/k"), ("DELE", "t{r}.bin"), ("RMD", "m{r}"), ("DELE", "{file}")],
    "sibren": [("RNFR", "{file}"), ("RNTO", "r{r}"), ("MKD", "q{r}"), ("RNFR", "{dir}"), ("RNTO", "d{r}"), ("DELE", "r{r}"), ("RMD", "q{r}"), ("RMD", "d{r}")],
    "sibfirst": [("MKD", "w{r}"), ("PASV", ""), (C, ""), ("STOR", "v{r}", b"x{r}"), ("DELE", "v{r}"), ("RMD", "w{r}"), ("RMD", "{dir}"), ("DELE", "{file}")],
}
SIB_PATH_VERBS = ("DELE", "MKD", "RMD", "RNFR", "RNTO", "STOR", "MLST")
SIB_GATED_VERBS = ("dele", "rmd", "rnto", "rnfr", "mkd", "stor")


def make_sib_script(login, body, d, role, absolute=False):
    """one session working on ITS entries of the shared directory /d (relative to CWD /d, or by absolute paths from the home)"""
    sub = dict(SIB_ROLES[role], r=str(role), d=d)

    def f(x):
        for k, v in sub.items():
            x = x.replace(("{" + k + "}").encode(), v.encode()) if isinstance(x, bytes) else x.replace("{" + k + "}", v)
        return x

    out = [{"k": "cmd", "verb": v, "arg": a} for v, a in LOGIN[login]]
    if not absolute:
        out.append({"k": "cmd", "verb": "CWD", "arg": "/" + d})
    for e in SIB_BODIES[body]:
        if e[0] == C:
            out.append({"k": "conn"})
            continue
        arg = f(e[1])
        if absolute and e[0] in SIB_PATH_VERBS:
            arg = "/" + d + "/" + arg
        a = {"k": "cmd", "verb": e[0], "arg": arg}
        if len(e) > 2:
            a["payload"] = f(e[2]).decode("latin-1")
        out.append(a)
    return out


# bodies that make sense before "CWD /{d}" (absolute paths only)
ABS_BODIES = ("abs",)
TRANSFER_BODIES = ("store", "rest", "rest2", "type", "append", "nodata", "abor")
INTRUDERS = ("selfabort", "abor", "nodata", "store", "quit", "badrest", "relogin", "rest", "type", "rawbytes")
WORKER_OPS = ("_open", "read", "write", "seek", "close", "stat", "exists", "is_file")


def fmt(x, d):
    if isinstance(x, bytes):
        return x.replace(b"{d}", d.encode())
    return x.replace("{d}", d)


def make_script(login, body, d, home=False):
    """list of atoms (dicts) of one session working in /d"""
    ev = list(LOGIN[login])
    if not (home or body in ABS_BODIES):
        ev.append(("CWD", "/" + d))
    ev += BODIES[body] if body in BODIES else DEEP_BODIES[body]
    out = []
    for e in ev:
        if isinstance(e, dict):
            a = dict(e)
            if "arg" in a:
                a["arg"] = fmt(a["arg"], d)
            out.append(a)
            continue
        verb, arg = e[0], fmt(e[1], d)
        if verb == C:
            out.append({"k": "conn"})
        else:
            a = {"k": "cmd", "verb": verb, "arg": arg}
            if len(e) > 2:
                a["payload"] = fmt(e[2], d).decode("latin-1")
            out.append(a)
    return out


# ---------------------------------------------------------------- spying, gated backend
OPS = ("exists", "is_dir", "is_file", "mkdir", "rmdir", "unlink", "stat", "_open", "rename", "seek", "write", "read", "close")


class Gate:
    """suspends the n-th call of backend method `op` made for session idx until opened"""

    def __init__(self):
        self.armed = {}
        self.waiting = {}
        self.port_idx = {}
        self.log = []  # (idx, op, path | size)
        self.base = ""

    def idx_of(self, pio):
        c = getattr(pio, "connection", None)
        try:
            return self.port_idx.get(c.client_port)
        except Exception:
            return None

    def canon(self, a):
        s = str(a)
        if self.base and s.startswith(self.base):
            s = s[len(self.base):] or "/"
        return s

    def arm(self, idx, op, nth):
        self.armed[idx] = [op, nth]

    def open(self, idx):
        self.armed.pop(idx, None)
        ev = self.waiting.pop(idx, None)
        if ev is not None:
            ev.set()

    async def enter(self, pio, op, args):
        idx = self.idx_of(pio)
        if op in ("seek", "write", "read", "close"):
            what = len(args[1]) if op == "write" and len(args) > 1 else (args[1] if len(args) > 1 and isinstance(args[1], int) else "")
        elif op == "rename" and len(args) > 1:
            what = self.canon(args[0]) + " -> " + self.canon(args[1])
        else:
            what = self.canon(args[0]) if args else ""
        self.log.append((idx, op, what))
        a = self.armed.get(idx)
        if a is not None and (a[0] == op or a[0] == "*"):
            # "*": the n-th backend call made for this session from now on, WHATEVER method it is - including the calls a
            # shipped backend method makes to its own overridable coroutine methods (self.is_file inside unlink, ...)
            a[1] -= 1
            if a[1] <= 0:
                del self.armed[idx]
                ev = asyncio.Event()
                self.waiting[idx] = ev
                await ev.wait()


def backend_factory(base, gate):
    class Backend(base):
        pass

    def wrap(name):
        orig = getattr(base, name)

        async def f(self, *a, **k):
            await gate.enter(self, name, a)
            return await orig(self, *a, **k)

        f.__name__ = name
        return f

    for n in OPS:
        setattr(Backend, n, wrap(n))
    orig_list = base.list

    def lst(self, path):
        gate.log.append((gate.idx_of(self), "list", gate.canon(path)))
        return orig_list(self, path)

    Backend.list = lst
    return Backend


# ---------------------------------------------------------------- one session
PORT_RE = re.compile(r"\(\d+,\d+,\d+,\d+,\d+,\d+\)|\(\|\|\|\d+\|\)")
FACT_RE = re.compile(r"(Create|Modify)=\d+;")


def canon_line(l):
    return FACT_RE.sub("", PORT_RE.sub("(<port>)", l))


class MSession(ftpsim.Session):
    def __init__(self, net, server, idx, gate):
        super().__init__(net, server)
        self.idx = idx
        self.gate = gate
        self.lines = []  # every reply line received, canonicalised, in order
        self.xfers = []  # (verb, bytes | listing) per completed data phase
        self.records = []  # one per logical event (cmd / conn / drop)
        self.inflight = None
        self.dropped = False
        self.my_ports = set()
        self.announced = set()
        self.cport = None
        self.started = False
        self.arrivals = []  # (virtual instant, number of bytes) of every chunk received on the control channel
        self.rx_off = 0
        self.limits = False  # speed limits configured: transfers take virtual time
        self.wedged = None
        self.zombies = []  # data sockets of a vanished peer: neither read nor closed

    async def start(self):
        """connect the control channel; every chunk of reply bytes is time-stamped (virtual clock) on arrival"""
        self.raw = await simnet.Raw.connect(self.net, self.server.server_port)
        self.started = True
        loop = self.net.loop
        feed = self.raw.reader.feed_data

        def stamped(data):
            self.arrivals.append((loop.time(), len(data)))
            feed(data)

        self.raw.reader.feed_data = stamped
        self.cport = self.raw.writer.transport.get_extra_info("sockname")[1]
        self.gate.port_idx[self.cport] = self.idx
        await self.net.settle()
        ls = self.take(None)
        if self.limits:
            g = {"codes": simnet.final_codes(ls), "lines": list(ls), "times": []}
            await self.await_final(g)
            return g["codes"]
        return simnet.final_codes(ls)

    def gone(self):
        return self.dropped or self.ended or self.raw.eof

    async def await_final(self, rec, bound=30.0):
        """speed limits configured: replies are written after throttle waits (timers) - let virtual time pass until
        the reply is complete (last code not 1xx) or the session is over; arrival instants are stamped exactly"""
        waited = 0.0
        while waited < bound and not self.raw.eof and not (rec["codes"] and not rec["codes"][-1].startswith("1")):
            await asyncio.sleep(0.05)
            waited += 0.05
            await self.net.settle()
            self.take(rec)

    async def await_final_or_mark(self, rec, bound=30.0):
        """like await_final, but a 150 mark is enough to go on (the data phase follows)"""
        waited = 0.0
        while waited < bound and not self.raw.eof and not rec["codes"]:
            await asyncio.sleep(0.05)
            waited += 0.05
            await self.net.settle()
            self.take(rec)

    def arrival_of(self, offset):
        """virtual instant at which the control-channel byte with this stream offset (1-based end offset) arrived"""
        tot = 0
        for t, n in self.arrivals:
            tot += n
            if tot >= offset:
                return t
        return None

    def take(self, rec):
        ls = self.raw.take()
        times = []
        for l in ls:
            self.rx_off += len(l.encode("utf-8", "replace")) + 2
            times.append(self.arrival_of(self.rx_off))
        if rec is not None:
            rec["lines"] += ls
            rec["codes"] = simnet.final_codes(rec["lines"])
            t0 = rec.get("t0")
            rec["times"] += [None if (t is None or t0 is None) else round(t - t0, 6) for t in times]
        self.lines += [canon_line(l) for l in ls]
        return ls

    def xprobe(self):
        if not self.started:
            return None
        c = self.conn()
        if c is None:
            return None
        d = self.probe()
        if d["rnfr"] is not None:
            d["rnfr"] = self.gate.canon(d["rnfr"])  # real path on disk backends: strip the temporary base directory
        d["type"] = c["transfer_type"].result() if "transfer_type" in c and c["transfer_type"].done() else None
        d["lport"] = None
        d["dpeer"] = None
        if d["passive"]:
            try:
                d["lport"] = c.passive_server.sockets[0].getsockname()[1] if c.passive_server.sockets else "closed"
            except Exception as e:
                d["lport"] = type(e).__name__
        if d["data"]:
            try:
                d["dpeer"] = c.data_connection.writer.transport.get_extra_info("peername")[1]
            except Exception as e:
                d["dpeer"] = type(e).__name__
        d["acquired"] = c.acquired
        d["xoff"] = c["transfer_offset"].result() if "transfer_offset" in c and c["transfer_offset"].done() else None
        # per-socket objects (identity only): backend instance bound to THIS connection, per-connection throttle clones
        pio = c.path_io
        d["pio_own"] = getattr(pio, "connection", None) is c
        d["ids"] = {"path_io": id(pio), "stream": id(c.command_connection), "extra_workers": id(c.extra_workers)}
        thr = getattr(c.command_connection, "throttles", {})
        for name in ("server_per_connection", "user_per_connection"):
            if name in thr:
                d["ids"]["throttle:" + name] = id(thr[name])
        return d

    # -- atoms
    async def do(self, atom):
        k = atom["k"]
        if not self.started:
            await self.start()  # "connect" atom, or the first use of a session that connects late
            if k == "connect":
                return
        if k == "connect":
            return
        if k == "cmd":
            if self.inflight is not None and self.inflight[1] is not None:
                await self.side_cmd(atom)  # a command (ABOR) while the previous one is still in flight
            else:
                await self.send(atom)
                self.records[-1]["plain"] = True  # sent and completed in one step: its reply instants are the session's own
                await self.collect()
        elif k == "wedge":
            await self.wedge(atom)
        elif k == "unwedge":
            await self.unwedge()
        elif k == "send":
            await self.send(atom)
            if not atom.get("mode") and atom["verb"].lower() not in ("stor", "appe"):
                self.records[-1]["plain"] = True  # nothing the harness does later influences when the replies come
        elif k == "collect":
            await self.collect()
        elif k == "conn":
            await self.connect_data()
        elif k == "drop":
            await self.drop(atom.get("how", "abort"))
        elif k == "tune":
            await self.tune(atom)
        else:
            raise ValueError(k)

    async def tune(self, atom):
        """an OPERATOR action on this session's own per-connection objects at run time (public API: `Throttle.limit` has a
        setter): the limit of the session's `server_per_connection` / `user_per_connection` throttle is assigned.  No record
        (nothing is sent on the wire); in the solo run of this session the same assignment happens at the same point"""
        c = None if self.gone() else self.conn()
        if c is None:
            return
        thr = getattr(c.command_connection, "throttles", {}).get(atom["key"])
        if thr is None:
            return
        for side in atom.get("sides", ("read", "write")):
            getattr(thr, side).limit = atom["limit"]
        await self.net.settle()

    def new_record(self, verb, arg):
        rec = {"verb": verb, "arg": arg, "codes": [], "lines": [], "bytes": None, "listing": None, "ended": False,
               "t0": self.net.loop.time(), "times": [], "plain": False}
        self.records.append(rec)
        return rec

    async def wedge(self, atom):
        """the peer stops reading its CONTROL channel and pipelines commands until the replies no longer fit the
        server's write buffer (the response writer of this session blocks in drain())"""
        rec = self.new_record("<wedge>", str(atom.get("n", 0)))
        if self.gone():
            rec["ended"] = True
            return
        link = self.raw.writer.transport.peer.out  # server -> client direction of the control connection
        link.hold = True
        self.wedged = link
        line = (atom.get("verb", "XQ") + (" " + atom["arg"] if atom.get("arg") else "")).encode("utf-8") + CRLF
        for _ in range(int(atom.get("n", 1))):
            self.raw.writer.write(line)
        await self.net.settle()

    async def unwedge(self):
        rec = self.new_record("<unwedge>", "")
        if self.wedged is not None:
            self.wedged.release()
            self.wedged = None
        if self.dropped:
            rec["ended"] = True
            return
        await self.net.settle()
        self.take(rec)
        self.ended = self.raw.eof or self.raw.reader.at_eof()
        rec["ended"] = self.ended

    async def side_cmd(self, atom):
        rec = self.new_record(atom["verb"], atom.get("arg", ""))
        if self.gone():
            rec["ended"] = True
            return
        arg = atom.get("arg", "")
        self.raw.writer.write((atom["verb"] if arg == "" else atom["verb"] + " " + arg).encode("utf-8") + CRLF)
        await self.net.settle()
        self.take(rec)
        rec["ended"] = self.raw.eof

    async def connect_data(self):
        rec = self.new_record(C, "")
        if self.gone():
            rec["ended"] = True
            return
        if self.pasv_port is not None:
            try:
                r, w = await self.net.open_connection("127.0.0.1", self.pasv_port)
                self.my_ports.add(w.transport.get_extra_info("sockname")[1])
                self.data.append((r, w))
            except ConnectionRefusedError:
                pass
        await self.net.settle()
        self.data = [(r, w) for r, w in self.data if not (r.at_eof() and not r._buffer)]
        self.take(None)

    async def send(self, atom):
        verb, arg = atom["verb"], atom.get("arg", "")
        payload = atom["payload"].encode("latin-1") if atom.get("payload") is not None else None
        mode, marg = atom.get("mode"), atom.get("marg")
        rec = self.new_record(verb, arg)
        if self.gone():
            rec["ended"] = self.ended = True
            self.inflight = (rec, None)
            return
        v = verb.lower()
        st = {"v": v, "payload": payload, "mode": mode, "held": None, "gated": False}
        line = (verb if arg == "" else verb + " " + arg).encode("latin-1" if atom.get("raw") else "utf-8") + CRLF
        dc = self.data[0] if (self.data and v in XFER) else None
        if mode == "hold" and dc is not None and v in ("retr", "list", "mlsd"):
            link = dc[1].transport.peer.out  # server -> client direction of the data connection
            link.hold = True
            st["held"] = link
        if mode == "gate":
            self.gate.arm(self.idx, marg[0], marg[1])
            st["gated"] = True
        self.raw.writer.write(line)
        self.inflight = (rec, st)
        if mode in ("hold", "split", "gate"):
            await self.net.settle()
            self.take(rec)
            if rec["codes"] and rec["codes"][-1] == "150" and dc is None:
                # no data connection: the worker waits on wait_future_timeout (a TIMER).  Virtual time is shared by all
                # sessions, so nobody may be left waiting on a timer while others act: finish now (same in the solo run)
                await self.collect()
                self.inflight = (rec, None)
                return
            if v in ("stor", "appe") and payload is not None and dc is not None and "150" in rec["codes"]:
                r, w = dc
                if mode == "split":
                    k = min(int(marg or 0), len(payload))
                    if k:
                        w.write(payload[:k])
                    st["payload"] = payload[k:]
                    st["force_close"] = True
                else:  # gate: the whole upload is on the wire; the worker is suspended inside the backend
                    if payload:
                        w.write(payload)
                    w.close()
                    st["payload"] = None
                await self.net.settle()
                self.take(rec)

    async def collect(self):
        if self.inflight is None:
            return
        rec, st = self.inflight
        self.inflight = None
        if st is None:
            return
        if self.dropped:
            rec["ended"] = True
            return
        v = st["v"]
        if st["held"] is not None:
            st["held"].release()
        if st["gated"]:
            self.gate.open(self.idx)
        await self.net.settle()
        self.take(rec)
        if self.limits:
            await self.await_final_or_mark(rec)
        payload = st["payload"]
        if v in ("stor", "appe") and (payload is not None or st.get("force_close")) and self.data and "150" in rec["codes"]:
            r, w = self.data[0]
            if payload:
                w.write(payload)
            w.close()
            await self.net.settle()
            self.take(rec)
        if rec["codes"] and rec["codes"][-1] == "150":
            if self.limits:
                # speed limits: the transfer takes virtual time; wait (in the same way in the solo run) until it is over
                waited = 0.0
                while rec["codes"][-1] == "150" and waited < 300 and not self.raw.eof:
                    await asyncio.sleep(0.25)
                    waited += 0.25
                    await self.net.settle()
                    self.take(rec)
            else:
                await asyncio.sleep(1.25)  # the worker waits for a data connection: let wait_future_timeout pass
                await self.net.settle()
                self.take(rec)
        port = ftpsim.parse_passive(rec["lines"])
        if port is not None:
            self.pasv_port = port
            self.announced.add(port)
            await self.net.settle()
            self.data = [(r, w) for r, w in self.data if not r.at_eof()]
        if "150" in rec["codes"] and self.data:
            r, w = self.data.pop(0)
            await self.net.settle()
            buf = bytes(r._buffer)
            if v == "retr":
                rec["bytes"] = buf
                self.xfers.append((v, buf.decode("latin-1")))
            elif v in ("list", "mlsd"):
                try:
                    rec["listing"] = ftpsim.parse_listing(buf, v)
                except Exception:
                    rec["listing"] = [("<unparsable>", False, 0), (repr(buf[:80]), False, 0)]
                self.xfers.append((v, [list(x) for x in rec["listing"]]))
            if not w.transport.is_closing():
                w.close()
        await self.net.settle()
        self.take(rec)
        if self.limits:
            await self.await_final(rec)
        self.ended = self.raw.eof or self.raw.reader.at_eof()
        rec["ended"] = self.ended

    async def drop(self, how):
        rec = self.new_record("<drop>", how)
        if self.dropped:
            return
        self.take(self.inflight[0] if self.inflight else None)
        self.dropped = True
        if how in ("vanish", "vanish-eof"):
            # the client HOST vanishes (a laptop that left the Wi-Fi): the control connection dies (RST seen by the server, or
            # a last FIN), the data sockets just stop being read - no FIN / RST ever arrives for them
            for _, w in self.data:
                w.transport.peer.out.hold = True  # server -> client direction: nothing is delivered any more
                self.zombies.append(w)
            if how == "vanish":
                self.raw.writer.transport.abort()
            else:
                self.raw.writer.close()
            self.data = []
            await self.net.settle()
            rec["ended"] = True
            return
        socks = [self.raw.writer] + [w for _, w in self.data]
        for w in socks:
            if how == "abort":
                w.transport.abort()
            else:
                w.close()
        self.data = []
        await self.net.settle()
        rec["ended"] = True


# ---------------------------------------------------------------- running a schedule on the real server
class lowered_watermark:
    def __enter__(self):
        self.old = (simnet.HIGH_WATER, simnet.LOW_WATER)
        simnet.HIGH_WATER, simnet.LOW_WATER = 512, 128

    def __exit__(self, *a):
        simnet.HIGH_WATER, simnet.LOW_WATER = self.old


# ---------------------------------------------------------------- what close() / wait_closed() mean on a real OS
class closing_semantics:
    """For the duration of one run (like lowered_watermark; simnet itself is not edited):
      * transport.close() with UNSENT data queued is a lingering close, as in asyncio's selector transports: the transport
        is closing, connection_lost comes only when the write buffer has been flushed to the peer (never, if the peer
        neither reads nor resets); a reset / a full close of the peer ends it;
      * Server.wait_closed() has the CPython >= 3.12.1 meaning: it returns when the listener is closed AND every connection
        it accepted has had its connection_lost (3.11: returned at once)."""

    def __init__(self, on):
        self.on = on

    def __enter__(self):
        if not self.on:
            return
        T, L, N, K = simnet.MemTransport, simnet.Listener, simnet.Network, simnet.Link
        self.old = (T.close, T._maybe_resume_writing, L.close, L.wait_closed, N.open_connection, N._transport_closed, K.pump)
        o_close, o_resume, o_lclose, _, o_open, o_tclosed, o_pump = self.old

        def wake(lst):
            if lst.closed and not getattr(lst, "_active", None):
                for w in getattr(lst, "_waiters", []):
                    if not w.done():
                        w.set_result(None)
                lst._waiters = []

        def t_close(t):
            if t.closing:
                return
            if t.out is not None and t.out.bytes_queued > 0 and not t.peer_gone and not t.out.dropped:
                t.closing = True
                t._lingering = True
                t.out.push("eof")
                t.out.push("gone")
                return
            o_close(t)

        def t_resume(t):
            o_resume(t)
            if getattr(t, "_lingering", False) and not t.closed and t.out.bytes_queued == 0:
                t._lingering = False
                t.net.loop.call_soon(t._connection_lost, None)

        def k_pump(link):
            o_pump(link)
            d = link.dst
            if d.peer_gone and getattr(d, "_lingering", False) and not d.closed:
                d._lingering = False
                d._fatal(ConnectionResetError(errno.ECONNRESET, "Connection reset by peer"))

        def l_close(lst):
            o_lclose(lst)
            wake(lst)

        async def l_wait_closed(lst):
            if lst.closed and not getattr(lst, "_active", None):
                await asyncio.sleep(0)
                return
            w = lst.net.loop.create_future()
            lst.__dict__.setdefault("_waiters", []).append(w)
            await w

        async def n_open(net, host=None, port=None, **kw):
            lst = net.listeners.get(port)
            r, w = await o_open(net, host, port, **kw)
            st = w.transport.peer
            if lst is not None:
                lst.__dict__.setdefault("_active", set()).add(st)
                st._listener = lst
            return r, w

        def n_tclosed(net, t):
            o_tclosed(net, t)
            lst = getattr(t, "_listener", None)
            if lst is not None:
                lst._active.discard(t)
                wake(lst)

        T.close, T._maybe_resume_writing, L.close, L.wait_closed, N.open_connection, N._transport_closed, K.pump = (
            t_close, t_resume, l_close, l_wait_closed, n_open, n_tclosed, k_pump)

    def __exit__(self, *a):
        if self.on:
            T, L, N, K = simnet.MemTransport, simnet.Listener, simnet.Network, simnet.Link
            T.close, T._maybe_resume_writing, L.close, L.wait_closed, N.open_connection, N._transport_closed, K.pump = self.old


# ---------------------------------------------------------------- aliasing: what two sessions can both reach
IMMUTABLE = (int, float, str, bytes, bool, type(None), pathlib.PurePath, type, types.FunctionType, types.MethodType,
             types.BuiltinFunctionType, types.ModuleType, range)


def _from_aioftp(o):
    return any((c.__module__ or "").startswith("aioftp") for c in type(o).__mro__)


def reach(roots, stop, depth=7):
    """{id: access path} of every MUTABLE object reachable from the roots through containers, namedtuples, instances of
    aioftp classes (their __dict__ / __slots__) and the results of completed futures.  Foreign objects (streams, queues,
    tasks, transports) are recorded and not entered; the ids in `stop` (the server, the loop) are not entered at all"""
    seen = {}
    keep = []  # keeps temporaries alive so that ids stay unique while we work
    stack = [(o, name, 0) for name, o in roots]
    while stack:
        o, path, d = stack.pop()
        if isinstance(o, IMMUTABLE) or id(o) in stop:
            continue
        plain_tuple = isinstance(o, (tuple, frozenset))
        if not plain_tuple:
            if id(o) in seen:
                continue
            seen[id(o)] = path
        keep.append(o)
        if d >= depth:
            continue
        kids = []
        if isinstance(o, dict):
            kids += [(v, f"{path}[{k!r}]" if isinstance(k, (str, int)) else f"{path}[<{type(k).__name__}>]") for k, v in list(o.items())]
            kids += [(k, f"{path}.key") for k in list(o) if not isinstance(k, IMMUTABLE) and _from_aioftp(k)]
        elif isinstance(o, tuple) and hasattr(o, "_fields"):
            kids += [(getattr(o, f), f"{path}.{f}") for f in o._fields]
        elif isinstance(o, (list, tuple, set, frozenset, collections.deque)):
            kids += [(v, f"{path}[{n}]") for n, v in enumerate(list(o))]
        if isinstance(o, asyncio.Task):
            pass
        elif isinstance(o, asyncio.Future):
            if o.done() and not o.cancelled() and getattr(o, "_exception", None) is None:
                kids.append((o.result(), path + "()"))
        elif _from_aioftp(o):
            if hasattr(o, "__dict__"):
                kids += [(v, f"{path}.{k}") for k, v in list(vars(o).items())]
            for cls in type(o).__mro__:
                for sl in getattr(cls, "__slots__", ()) or ():
                    if isinstance(sl, str) and sl not in ("__dict__", "__weakref__"):
                        try:
                            kids.append((getattr(o, sl), f"{path}.{sl}"))
                        except AttributeError:
                            pass
        stack += [(v, p, d + 1) for v, p in kids]
    return seen, keep


def aliasing(server, conns, cache=None):
    """The aliasing oracle: no mutable object reachable from one session's Connection is reachable from another's, except
    the DECLARED shared ones - the server, its server-wide throttle, the user manager with the user objects and their
    counters, the port pool, the backend nursery with its shared state, and the per-user throttle for sessions of the SAME
    user.  conns = [Connection | None].  Returns None or (i, j, path in i, path in j)"""
    stop = {id(server), id(asyncio.get_event_loop())}
    state = getattr(server.path_io_factory, "state", None)
    if state is not None and not isinstance(state, IMMUTABLE):
        stop.add(id(state))  # the ONE backend state per server (declared shared; for MemoryPathIO the whole tree): not entered
    cache = {} if cache is None else cache
    sig = (id(server), len(server.throttle_per_user), id(state))
    if cache.get("sig") != sig:
        # the declared shared structures: walked once per run and again whenever a per-user throttle is added (the walked objects
        # are kept alive in the cache so that their ids stay theirs)
        decl, k0 = reach([("server.throttle", server.throttle), ("server.user_manager", server.user_manager), ("server.path_io_factory", server.path_io_factory),
                          ("server.available_connections", server.available_connections), ("server.available_data_ports", server.available_data_ports)], stop)
        per_user, keep = {}, [k0]
        for u, t in list(server.throttle_per_user.items()):
            r, k1 = reach([("server.throttle_per_user[u]", t)], stop)
            per_user[id(u)] = r
            keep.append(k1)
        cache.update(sig=sig, decl=decl, per_user=per_user, keep=keep)
    decl, per_user = cache["decl"], cache["per_user"]
    rs = []
    for c in conns:
        rs.append(None if c is None else reach([("connection", c)], stop))
    for j in range(len(conns)):
        for i in range(j):
            if rs[i] is None or rs[j] is None:
                continue
            ui = conns[i].user if conns[i].future.user.done() else None
            uj = conns[j].user if conns[j].future.user.done() else None
            same = per_user.get(id(ui), {}) if (ui is not None and ui is uj) else {}
            for oid, path in rs[i][0].items():
                if oid in rs[j][0] and oid not in decl and oid not in same:
                    return (i, j, path, rs[j][0][oid])
    return None


# ---------------------------------------------------------------- dynamic write inventory
# the declared shared structures of the server object (the same list as Proofs/IsolationFacts.v: shared_ok,
# registry_ok) + objects whose identity never changes (their internals are shared by design: C10, C11, C15)
SHARED_ATTRS = ("connections", "throttle_per_user", "available_connections", "available_data_ports")
PRIM = (int, float, str, bytes, bool, type(None))


def _ident(v):
    if isinstance(v, PRIM):
        return v
    if isinstance(v, tuple) and all(isinstance(x, PRIM) for x in v):
        return v
    if isinstance(v, dict):
        return ("dict", id(v), tuple((k if isinstance(k, PRIM) else id(k), x if isinstance(x, PRIM) else id(x)) for k, x in v.items()))
    if isinstance(v, (list, set, frozenset)):
        return (type(v).__name__, id(v), tuple(sorted((repr(x) if isinstance(x, PRIM) else str(id(x))) for x in v)))
    return ("obj", id(v))


def server_fingerprint(server):
    """everything a handler could (wrongly) keep per-session state in, outside the Connection: instance attributes of the
    server, class-level attributes of Server / Connection, module-level containers of aioftp.server"""
    import aioftp.server as mod

    out = {}
    for k, v in vars(server).items():
        if k not in SHARED_ATTRS:
            out["self." + k] = _ident(v)
    for cls in (type(server), mod.Connection, mod.ConnectionConditions, mod.PathConditions, mod.PathPermissions):
        for k, v in vars(cls).items():
            if k.startswith("__") or callable(v) or isinstance(v, (staticmethod, classmethod, property)):
                continue
            out[cls.__name__ + "." + k] = _ident(v)
    for k, v in vars(mod).items():
        if not k.startswith("__") and isinstance(v, (dict, list, set)):
            out["module." + k] = _ident(v)
    return out


# ---------------------------------------------------------------- a frozen event loop is an observation
LOOP_BUDGET = float(os.environ.get("C17_LOOP_BUDGET", "4"))  # wall seconds one run of a schedule may take (normal: 0.01 .. 0.5 s)


class LoopBlocked(KeyboardInterrupt):
    """raised IN the event-loop thread by the watchdog when one run exceeds its wall budget: the loop thread is blocked in
    non-async code (a threading.Lock held across an await by another session's task, a blocking call, an endless loop).
    KeyboardInterrupt subclass: the only kind of exception asyncio lets through a task step and out of run_until_complete"""


class Watchdog:
    def __init__(self, budget):
        self.budget = budget
        self.fired = False
        self.timer = None
        self.main = threading.main_thread().ident

    def _handler(self, signum, frame):
        if self.fired:
            return
        self.fired = True
        raise LoopBlocked()

    def _fire(self):
        signal.pthread_kill(self.main, signal.SIGUSR1)

    def __enter__(self):
        self.old = signal.signal(signal.SIGUSR1, self._handler)
        self.timer = threading.Timer(self.budget, self._fire)
        self.timer.daemon = True
        self.timer.start()
        return self

    def __exit__(self, *a):
        self.timer.cancel()
        signal.signal(signal.SIGUSR1, self.old)
        return False


PROBE_KEYS = ("user", "has_user", "logged", "cwd", "rnfr", "rest", "passive", "data", "workers", "type", "lport", "dpeer", "acquired", "xoff", "pio_own", "ids")


def run_impl(n, schedule, cfg, align=None):
    """n sessions, schedule = [(i, atom)].  Returns dict(sessions=[...], tree, steps=[probes of all sessions after each step], log).
    A run that exceeds its wall budget is repeated ONCE with twice the budget before it counts as frozen: a blocked event loop
    is deterministic and freezes again, a machine that was busy for a few seconds is not an observation about aioftp
    (not while shrinking, where the budget is lowered on purpose)"""
    r = _run_impl(n, schedule, cfg, align, LOOP_BUDGET)
    if "frozen" in r and 4 <= LOOP_BUDGET < 100:
        r = _run_impl(n, schedule, cfg, align, 2 * LOOP_BUDGET)
    return r


def _run_impl(n, schedule, cfg, align, budget):
    backend = cfg.get("backend", "memory")
    tmp = None
    if backend != "memory":
        (core.BUILD / "tmp").mkdir(parents=True, exist_ok=True)
        tmp = tempfile.mkdtemp(dir=str(core.BUILD / "tmp"))
    heartbeat()
    gate = Gate()
    out = {}
    progress = {"step": None}
    try:

        async def main(net):
            kw = {"wait_future_timeout": 1, "block_size": cfg.get("block_size", 64)}
            if cfg.get("data_ports"):
                kw["data_ports"] = range(30000, 30000 + cfg["data_ports"])
            lim = cfg.get("limits") or {}
            if lim.get("server_pc"):
                kw["read_speed_limit_per_connection"] = kw["write_speed_limit_per_connection"] = lim["server_pc"]
            mc = cfg.get("maxconn") or {}
            if mc.get("server"):
                kw["maximum_connections"] = mc["server"]
            server = ftpsim.make_server([dict(u, maxconn=mc.get("user")) for u in USERS], TREE, backend, tmp, **kw)
            if lim.get("user_pc"):
                for u in server.user_manager.users:
                    u.read_speed_limit_per_connection = u.write_speed_limit_per_connection = lim["user_pc"]
            base = {"memory": aioftp.MemoryPathIO, "path": aioftp.PathIO, "async": aioftp.AsyncPathIO}[backend]
            server.path_io_factory.factory = backend_factory(base, gate)
            if tmp:
                gate.base = str(tmp)
            if cfg.get("seg"):
                net.default_segmenter = lambda data, seg=int(cfg["seg"]): [data[x:x + seg] for x in range(0, len(data), seg)]
            await server.start("127.0.0.1", ftpsim.PORT)
            ss = []
            late = {i for i in range(n) if next((a["k"] for j, a in schedule if j == i), None) == "connect"}
            for i in range(n):
                s = MSession(net, server, i, gate)
                s.limits = timed(cfg)
                if i not in late:
                    g = await s.start()
                    assert g == ["220"], g
                ss.append(s)
            steps = []
            logpos = []
            writes = []
            alias, alias_cache = None, {}
            fp = server_fingerprint(server)
            starts = [[] for _ in range(n)]
            for i, atom in schedule:
                if align is not None and len(starts[i]) < len(align) and align[len(starts[i])] > net.loop.time():
                    # timed solo run: every step begins at the virtual instant it began in the interleaved run (how fast a
                    # throttled command runs depends on how long the session was idle before: idleness is kept equal)
                    fut = net.loop.create_future()
                    net.loop.call_at(align[len(starts[i])], fut.set_result, None)
                    await fut
                starts[i].append(net.loop.time())
                progress["step"] = (len(progress.get("done", [])), i, atom.get("verb", atom["k"]), atom.get("arg", ""))
                progress.setdefault("done", []).append(i)
                before = [s.xprobe() for s in ss]
                await ss[i].do(atom)
                steps.append((before, [s.xprobe() for s in ss]))
                logpos.append(len(gate.log))
                if alias is None:
                    hit = aliasing(server, [(s.conn() if s.started and not s.dropped else None) for s in ss], alias_cache)
                    if hit is not None:
                        alias = (len(steps) - 1, i, atom.get("verb", atom["k"])) + hit
                fp2 = server_fingerprint(server)
                if fp2 != fp:
                    for k in sorted(set(fp) | set(fp2)):
                        if fp.get(k) != fp2.get(k):
                            writes.append((k, i, atom.get("verb", atom["k"])))
                    fp = fp2
            # a schedule may end with commands in flight: finish them (same in the solo run)
            for s in ss:
                if s.wedged is not None:
                    await s.unwedge()
                if s.inflight is not None:
                    await s.collect()
            await net.settle()
            for s in ss:
                if s.started and not s.dropped:
                    s.take(None)  # replies that came after the session's last step still belong to its transcript
            tree = ftpsim.final_tree(server, backend, tmp)
            own = [{"announced": sorted(s.announced), "ports": sorted(s.my_ports)} for s in ss]
            ghosts = len(server.connections) - sum(1 for s in ss if s.started and not s.gone())
            for s in ss:
                for w in s.zombies:
                    w.transport.abort()  # the stalled sockets of a vanished peer: end them so that the server can shut down
            await net.settle()
            await server.close()
            out.update(
                sessions=[{"lines": s.lines, "xfers": s.xfers, "records": s.records, "ended": (s.gone() if s.started else False)} for s in ss],
                steps=steps,
                own=own,
                tree=tree,
                log=list(gate.log),
                logpos=logpos,
                writes=writes,
                starts=starts,
                alias=alias,
                ghosts=ghosts,
            )

        try:
            with lowered_watermark(), closing_semantics(bool(cfg.get("os312"))), Watchdog(budget) as dog:
                simnet.run(main)
        except (LoopBlocked, TimeoutError):
            # the event-loop thread did not come back within the wall budget: nothing any session does can be answered
            return {"frozen": progress["step"] or ("start", None, "", ""), "budget": budget}
        if not out:
            return {"frozen": progress["step"] or ("start", None, "", ""), "budget": budget}
        return out
    finally:
        if tmp:
            shutil.rmtree(tmp, ignore_errors=True)


def tree_diff(a, b, pre=""):
    """paths where two canonical trees differ"""
    if isinstance(a, dict) and isinstance(b, dict):
        out = []
        for k in sorted(set(a) | set(b)):
            if k not in a:
                out.append(f"{pre}/{k}: only in second")
            elif k not in b:
                out.append(f"{pre}/{k}: only in first")
            else:
                out += tree_diff(a[k], b[k], pre + "/" + k)
        return out
    if a != b:
        return [f"{pre}: {str(a)[:40]!r} vs {str(b)[:40]!r}"]
    return []


class OutsideDisjoint(Exception):
    pass


_MISSING = object()


def merge_trees(base, solos, pre=""):
    """what several solo runs leave behind, taken together: a path changed by one run takes that run's value; a directory
    changed / created by several runs is merged child by child; any other double change is not 'disjoint paths'"""
    changed = [t for t in solos if t is not _MISSING and t != base or (t is _MISSING and base is not _MISSING)]
    if not changed:
        return base
    if all(isinstance(t, dict) for t in changed) and (base is _MISSING or isinstance(base, dict)):
        out = {}
        b = {} if base is _MISSING else base
        for k in sorted(set(b) | {k for t in changed for k in t}):
            v = merge_trees(b.get(k, _MISSING), [(t.get(k, _MISSING) if isinstance(t, dict) else _MISSING) for t in solos if t is not _MISSING and isinstance(t, dict)], pre + "/" + k)
            if v is not _MISSING:
                out[k] = v
        return out
    first = changed[0]
    if all((t is first) or (t is not _MISSING and first is not _MISSING and t == first) for t in changed):
        return first
    raise OutsideDisjoint(f"{pre or '/'} is changed by more than one solo run")


def project(schedule, i):
    return [(0, a) for j, a in schedule if j == i]


def sub_of(tree, d):
    return tree.get(d)


def under(path, d):
    return path == "/" + d or path.startswith("/" + d + "/")


_solo_cache = {}


def timed(cfg):
    """transfers / replies may take VIRTUAL time in this configuration (speed limits configured, or assigned at run time)"""
    return bool(cfg.get("limits") or cfg.get("timed"))


def solo(script, d, cfg):
    key = (json.dumps(script, sort_keys=True), d, json.dumps(cfg, sort_keys=True))
    if key not in _solo_cache:
        if len(_solo_cache) > 4000:
            _solo_cache.clear()
        _solo_cache[key] = run_impl(1, [(0, a) for a in script], cfg)
    return _solo_cache[key]


def solos_for(n, dirs, schedule, cfg, res):
    """the solo runs to compare with: cached per script - or, with speed limits, re-run with every step of the session
    starting at the same virtual instant as in the interleaved run"""
    if timed(cfg) and "frozen" not in res:
        return [run_impl(1, [(0, a) for a in project_atoms(schedule, i)], cfg, align=res["starts"][i]) for i in range(n)]
    return [solo(project_atoms(schedule, i), dirs[i], cfg) for i in range(n)]


def verbs_of(script):
    return [a.get("verb", a["k"]) for a in script]


def limit_exceeded(n, schedule, cfg):
    """connection limits are shared BY DESIGN among live sessions (C10): a schedule is inside this property's hypothesis only
    if the configured limit is never needed by two LIVE sessions at once (then only a dead session could exhaust it)"""
    mc = cfg.get("maxconn") or {}
    if not mc:
        return None
    late = {i for i in range(n) if next((a["k"] for j, a in schedule if j == i), None) == "connect"}
    alive = {i: None for i in range(n) if i not in late}  # session -> login it holds a per-user slot for
    if mc.get("server") and len(alive) > mc["server"]:
        return "more live connections than the server-wide limit"
    for i, a in schedule:
        if a["k"] == "drop" or (a["k"] in ("cmd", "send") and a["verb"].upper() == "QUIT") or (a["k"] in ("cmd", "send") and a.get("raw")):
            alive.pop(i, None)
            continue
        if i not in alive:
            if i in late and a["k"] == "connect":
                alive[i] = None
                if mc.get("server") and len(alive) > mc["server"]:
                    return f"session {i} connects while {len(alive) - 1} other(s) live: server-wide limit {mc['server']}"
            continue
        if a["k"] in ("cmd", "send") and a["verb"].upper() == "USER":
            login = a.get("arg", "")
            if mc.get("user") and sum(1 for j, l in alive.items() if j != i and l == login) >= mc["user"]:
                return f"session {i} logs in as {login!r} while another live session holds that user's only slot"
            alive[i] = login
    return None


def oracle(n, dirs, schedule, cfg, res, solos):
    """the property, evaluated on the implementation alone.  Returns list of (key, what, detail)"""
    bad = []
    for who, r in [("interleaved", res)] + [(f"solo run of session {i}", solos[i]) for i in range(len(solos))]:
        if "frozen" in r:
            k, i, verb, arg = r["frozen"]
            return [("c17-event-loop-blocked" + ("" if who == "interleaved" else "-solo"),
                     f"{who}: the server's event-loop thread did not return within {r['budget']} s of wall time during step #{k} "
                     f"({verb} {arg} of session {i}): every session is frozen (a blocking call / a thread lock held across an await)", {"actor": i, "at": k})]
    why = limit_exceeded(n, schedule, cfg)
    if why:
        return [("outside-hypothesis", why, {})]
    canon_initial = ftpsim.canon_tree(TREE)
    # O6 every command sent and completed in one step: the same replies at the same VIRTUAL instants (relative to the
    # instant the command was sent) as in the solo run - nobody is delayed, let alone blocked, by what others do
    if True:
        for i in range(n):
            mine, theirs = res["sessions"][i]["records"], solos[i]["sessions"][0]["records"]
            for k, (a, b) in enumerate(zip(mine, theirs)):
                if not (a["plain"] and b["plain"]):
                    continue
                if a["codes"] != b["codes"]:
                    bad.append(("c17-reply-missing-or-different-at-its-step", f"session {i}: {a['verb']} {a['arg']} (its event #{k}) got {a['codes']} by the end of its step, solo {b['codes']}", {"session": i}))
                    break
                if a["times"] != b["times"]:
                    bad.append(("c17-reply-instant-differs-from-solo", f"session {i}: replies to {a['verb']} {a['arg']} (its event #{k}) arrived {a['times']} s after the command, solo {b['times']}", {"session": i}))
                    break
            if bad:
                break
    # O1 transcripts / data / backend calls
    for i in (range(n) if not bad else ()):
        so = solos[i]["sessions"][0]
        me = res["sessions"][i]
        if me["lines"] != so["lines"]:
            k = next((j for j, (x, y) in enumerate(zip(me["lines"], so["lines"])) if x != y), min(len(me["lines"]), len(so["lines"])))
            bad.append(("c17-transcript-differs-from-solo", f"session {i}: reply #{k} interleaved {me['lines'][k:k+2]} solo {so['lines'][k:k+2]}", {"session": i}))
        elif me["xfers"] != so["xfers"]:
            k = next((j for j, (x, y) in enumerate(zip(me["xfers"], so["xfers"])) if x != y), min(len(me["xfers"]), len(so["xfers"])))
            bad.append(("c17-data-differs-from-solo", f"session {i}: data phase #{k} interleaved {str(me['xfers'][k:k+1])[:120]} solo {str(so['xfers'][k:k+1])[:120]}", {"session": i}))
        elif me["ended"] != so["ended"]:
            bad.append(("c17-ended-differs-from-solo", f"session {i}: ended {me['ended']} solo {so['ended']}", {"session": i}))
        mine = [(op, w) for j, op, w in res["log"] if j == i]
        theirs = [(op, w) for j, op, w in solos[i]["log"]]
        if mine != theirs and not bad and (not cfg.get("merge") or cfg.get("siblings")):
            # (with shared missing ancestors which backend calls a MKD makes may depend on who created the ancestor first)
            k = next((j for j, (x, y) in enumerate(zip(mine, theirs)) if x != y), min(len(mine), len(theirs)))
            bad.append(("c17-backend-calls-differ-from-solo", f"session {i}: backend call #{k} interleaved {mine[k:k+2]} solo {theirs[k:k+2]}", {"session": i}))
    # O5 footprint
    for j, op, w in (res["log"] if (not cfg.get("merge") or cfg.get("siblings")) else ()):
        if j is None:
            bad.append(("c17-backend-call-without-session", f"{op} {w}", {}))
            break
        if isinstance(w, str) and w.startswith("/") and op not in ("seek", "write", "read", "close") and not under(w, dirs[j]):
            bad.append(("c17-backend-footprint-outside-own-directory", f"session {j} (directory /{dirs[j]}): {op} {w}", {"session": j}))
            break
    # O2 tree
    if cfg.get("merge"):
        # disjoint LEAVES under shared ancestors that do not exist yet: the union of the solo effects is the merge of the
        # solo trees (a directory created by several sessions is created once; anything else changed by two sessions is
        # outside "disjoint paths")
        try:
            want_m = merge_trees(canon_initial, [so["tree"] for so in solos])
        except OutsideDisjoint as e:
            return [("outside-hypothesis", str(e), {})]
        if res["tree"] != want_m and not bad:
            bad.append(("c17-tree-not-union-of-solo-effects", f"(interleaved vs merge of the solo trees) {tree_diff(res['tree'], want_m)[:6]}", {}))
    want = dict(canon_initial)
    for i in (range(n) if not cfg.get("merge") else ()):
        st = solos[i]["tree"]
        for name in canon_initial:
            if name != dirs[i] and st.get(name) != canon_initial[name]:
                return [("outside-hypothesis", f"solo run of session {i} changes /{name}", {})]
        if set(st) != set(canon_initial):
            return [("outside-hypothesis", f"solo run of session {i} changes the root", {})]
        want[dirs[i]] = st[dirs[i]]
    if not cfg.get("merge") and res["tree"] != ftpsim.canon_tree(want):
        bad.append(("c17-tree-not-union-of-solo-effects", f"(interleaved vs union of solo effects) {tree_diff(res['tree'], ftpsim.canon_tree(want))[:6]}", {}))
    # aliasing oracle (mechanism): objects reachable from two Connections; a dead session still in the server's table
    if res.get("alias"):
        k, i, verb, a, b, pa, pb = res["alias"]
        bad.append(("c17-mech-aliasing", f"after step #{k} ({verb} of session {i}): sessions {a} and {b} reach the SAME mutable object, as {pa} and as {pb}; "
                    "it is not one of the declared shared structures", {"actor": i, "session": b}))
    if res.get("ghosts"):
        bad.append(("c17-mech-ghost-connection", f"at the end of the schedule (quiescent) the server still tracks {res['ghosts']} connection(s) whose peer is gone", {}))
    # O3 locality, O4 ownership
    unsettled = [False] * n  # a command line is on the wire and its session has not collected the outcome yet
    for (i, atom), (before, after) in zip(schedule, res["steps"]):
        if atom["k"] == "send" and not atom.get("mode"):
            unsettled[i] = True
        elif atom["k"] in ("collect", "drop"):
            unsettled[i] = False
        quiet = [not u for u in unsettled]
        for j in range(n):
            if j != i and quiet[j] and before[j] != after[j]:
                comp = [k for k in PROBE_KEYS if (before[j] or {}).get(k) != (after[j] or {}).get(k)] if (before[j] and after[j]) else ["connection"]
                bad.append((f"c17-locality-{comp[0]}", f"step of session {i} ({atom.get('verb', atom['k'])}) changed {comp} of session {j}: {before[j]} -> {after[j]}", {"actor": i, "session": j}))
                return bad
        for j in range(n):
            p = after[j]
            if p is None:
                continue
            if p["data"] and p["dpeer"] not in res["own"][j]["ports"]:
                bad.append(("c17-data-connection-of-another-session", f"after step of session {i} ({atom.get('verb', atom['k'])}): session {j} holds a data connection from port {p['dpeer']}, its client opened {res['own'][j]['ports']}", {"actor": i, "session": j}))
                return bad
            if not p["pio_own"] and not any(b[0].startswith("c17-mech-backend") for b in bad):
                bad.append(("c17-mech-backend-instance-not-bound-to-own-connection", f"after step of session {i}: path_io.connection of session {j} is not its Connection", {"actor": i, "session": j}))
            for m in range(j):
                q = after[m]
                if q is not None:
                    sharedk = [k for k in p["ids"] if k in q["ids"] and p["ids"][k] == q["ids"][k]]
                    if sharedk and not any(b[0].startswith("c17-mech-per") for b in bad):
                        bad.append((f"c17-mech-per-connection-object-shared-{sharedk[0].split(':')[0]}", f"after step of session {i}: sessions {m} and {j} share their {sharedk}", {"actor": i, "session": j}))
            if p["passive"] and any(after[m] and after[m]["passive"] and after[m]["lport"] == p["lport"] for m in range(n) if m != j):
                bad.append(("c17-listener-shared-with-another-session", f"after step of session {i}: session {j} holds listener {p['lport']} which another live session holds too", {"actor": i, "session": j}))
                return bad
    return bad


# ---------------------------------------------------------------- model side
def users_sx():
    return [c05.user_sx(u) for u in USERS]


def model_events(schedule):
    """serialise a schedule for the model: a command counts where it is SENT"""
    out = []
    for i, a in schedule:
        k = a["k"]
        if k in ("cmd", "send") and a.get("raw"):
            out.append([i, []])  # an undecodable command line: parse_command raises, the dispatcher ends that session
        elif k in ("cmd", "send"):
            p = a["payload"].encode("latin-1") if a.get("payload") is not None else None
            out.append([i, [a["verb"].lower(), a.get("arg", ""), [p] if p is not None else []]])
        elif k == "conn":
            out.append([i, [C, "", []]])
        elif k == "drop":
            out.append([i, []])
        elif k == "wedge":
            out += [[i, [a.get("verb", "XQ").lower(), a.get("arg", ""), []]] for _ in range(int(a.get("n", 1)))]
    return out


def command_granular(schedule):
    return all(a["k"] in ("cmd", "conn", "drop") and not a.get("mode") for _, a in schedule)


def self_interrupting(schedule, i):
    """does session i abort / drop / talk while one of its own commands is in flight?"""
    fly = False
    for j, a in schedule:
        if j != i:
            continue
        if a["k"] in ("wedge", "unwedge"):
            return True  # pipelined commands: outside the one-command-at-a-time alignment of records
        if a["k"] == "connect":
            continue
        if a["k"] == "collect":
            fly = False
        elif fly:
            return True
        elif a["k"] == "send":
            fly = True
    return False


def mem_divergent(events, m_outs):
    """known MemoryPathIO divergences from the POSIX-like reference tree (C18/C05 findings F06, F07), judged on the model's verdict"""
    rest = 0
    for (verb, arg), o in zip(events, m_outs):
        codes = sx.txts(o[0])
        if verb == "rnto" and codes == ["451"]:
            return True
        if verb in ("stor", "appe") and codes == ["150", "451"] and rest > 0:
            return True
        if verb == "rest" and arg.isdigit() and arg.isdecimal():
            rest = int(arg)
        elif verb not in ("retr", "stor", "appe", C):
            rest = 0
    return False


def records_vs_model(recs, m_outs, prefix_ok=False):
    """per logical event: (codes, bytes, listing, ended)"""
    for k, (rec, mo) in enumerate(zip(recs, m_outs)):
        codes, info, by, ls = c05.decode_out(mo)
        if rec["verb"] == "<drop>":
            continue
        impl = (rec["codes"], rec["bytes"], rec["listing"])
        model = (codes, by, ls)
        if impl != model:
            return k, model, impl
        if codes == ["257"] and rec["verb"].lower() == "pwd" and rec["lines"] and rec["lines"][-1][4:] != info:
            return k, info, rec["lines"][-1]
    if len(recs) != len(m_outs):
        return min(len(recs), len(m_outs)), len(m_outs), len(recs)
    return None


def sess_vs_probe(ms, pr):
    if ms["ended"]:
        return None if pr is None else ("ended", True, pr)
    if pr is None:
        return ("ended", False, None)
    mu = USERS[ms["user_idx"]]["login"] if ms["user_idx"] is not None else None
    mine = (ms["logged"], mu, ms["user_idx"] is not None, ms["rest"], ms["passive"], ms["data"], ms["rnfr"])
    theirs = (pr["logged"], pr["user"] if pr["has_user"] else None, pr["has_user"], pr["rest"], pr["passive"], pr["data"], pr["rnfr"])
    if mine != theirs:
        return ("state", mine, theirs)
    if ms["logged"] and pr["cwd"] != ms["cwd"]:
        return ("cwd", ms["cwd"], pr["cwd"])
    return None


# ---------------------------------------------------------------- schedules
def merges_block(sa, sb):
    """B as one block inserted at every position of A (sessions 0, 1)"""
    for k in range(len(sa) + 1):
        yield [(0, a) for a in sa[:k]] + [(1, b) for b in sb] + [(0, a) for a in sa[k:]]


def merge_alternate(scripts):
    out = []
    for tup in itertools.zip_longest(*scripts):
        for i, a in enumerate(tup):
            if a is not None:
                out.append((i, a))
    return out


def merge_random(rng, scripts):
    idx = [i for i, s in enumerate(scripts) for _ in s]
    rng.shuffle(idx)
    pos = [0] * len(scripts)
    out = []
    for i in idx:
        out.append((i, scripts[i][pos[i]]))
        pos[i] += 1
    return out


def burstify(schedule):
    """turn runs of consecutive plain commands of DIFFERENT sessions into simultaneous sends"""
    out = []
    k = 0
    while k < len(schedule):
        grp = []
        seen = set()
        while k < len(schedule) and schedule[k][1]["k"] == "cmd" and not schedule[k][1].get("mode") and schedule[k][0] not in seen:
            grp.append(schedule[k])
            seen.add(schedule[k][0])
            k += 1
        if len(grp) >= 2:
            out += [(i, dict(a, k="send")) for i, a in grp]
            out += [(i, {"k": "collect"}) for i, a in grp]
        elif grp:
            out += grp
        else:
            out.append(schedule[k])
            k += 1
    return out


GATE_OPS = {
    "mkd": [("mkdir", 1), ("exists", 1)],
    "rmd": [("rmdir", 1), ("is_dir", 1)],
    "dele": [("unlink", 1)],
    "rnto": [("rename", 1), ("exists", 1)],
    "rnfr": [("exists", 1)],
    "cwd": [("is_dir", 1)],
    "mlst": [("stat", 1)],
    "retr": [("_open", 1), ("read", 2), ("read", 5), ("close", 1)],
    "stor": [("is_dir", 1), ("_open", 1), ("write", 1), ("seek", 1), ("close", 1)],
    "appe": [("_open", 1), ("write", 1)],
    "list": [("stat", 2), ("exists", 2)],
    "mlsd": [("stat", 1), ("is_file", 2)],
}


def modes_for(atom, has_data=True):
    """the ways this command can be suspended half-way"""
    if atom["k"] != "cmd":
        return []
    v = atom["verb"].lower()
    out = [("gate", list(g)) for g in GATE_OPS.get(v, [])]
    if v in ("retr", "list", "mlsd"):
        out.append(("hold", None))
    if v in ("stor", "appe") and atom.get("payload") is not None:
        n = len(atom["payload"])
        out += [("split", 0), ("split", max(1, n // 2)), ("split", n)]
    return out


def window_schedule(sa, e, mode, sb, j0, j1, rng=None, nested=None, order=0):
    """A runs to its e-th atom, B to its j0-th; A's e-th command is SENT in `mode` (suspended half-way);
    B runs atoms j0..j1 inside the window - with nested=(kb, mode_b) B's kb-th command is suspended half-way too
    and the two are completed in either order; A's command is collected; the rest follows"""
    a_send = dict(sa[e], k="send", mode=mode[0], marg=mode[1])
    sched = [(0, a) for a in sa[:e]] + [(1, b) for b in sb[:j0]]
    sched.append((0, a_send))
    if nested is None:
        sched += [(1, b) for b in sb[j0:j1]]
        sched.append((0, {"k": "collect"}))
    else:
        kb, mb = nested
        sched += [(1, b) for b in sb[j0:kb]]
        sched.append((1, dict(sb[kb], k="send", mode=mb[0], marg=mb[1])))
        fin = [(0, {"k": "collect"}), (1, {"k": "collect"})]
        sched += fin if order == 0 else fin[::-1]
        j1 = kb + 1
    rest = [[a for a in sa[e + 1:]], [b for b in sb[j1:]]]
    sched += merge_random(rng, rest) if rng is not None else merge_alternate(rest)
    return sched


def gen_jobs(rng, thorough, budget=None):
    """yield (family, n, dirs, scripts, schedule, cfg)"""
    jobs = []
    bodies = list(BODIES)
    logins = ["u", "v", "n", "h", "anon", "ubad"]

    def script(login, body, d):
        return make_script(login, body, d, home=(login == "h"))

    def pick_pair():
        la, lb = rng.choice(logins), rng.choice(logins)
        if rng.random() < 0.45:
            lb = la  # same user
        return la, lb

    cfg0 = {"backend": "memory"}

    # (1) command granularity: block insertion of B at every point of A, alternation, random merges
    n_pairs = len(bodies) ** 2 if thorough else (budget or 26)
    all_pairs = list(itertools.product(bodies, repeat=2))
    must = [("rest", "rest"), ("rest2", "nav"), ("rename", "rename"), ("nav", "nav"), ("store", "nodata"), ("nodata", "nodata"),
            ("relogin", "nav"), ("type", "type"), ("append", "quit"), ("rest", "badrest"), ("store", "epsvarg"), ("abs", "rename")]
    sel = all_pairs if thorough else must + rng.sample(all_pairs, max(0, n_pairs - len(must)))
    for ba, bb in sel:
        la, lb = pick_pair()
        da, db = rng.sample(DIRS, 2)
        sa, sb = script(la, ba, da), script(lb, bb, db)
        cfg = dict(cfg0)
        if rng.random() < 0.15:
            cfg["data_ports"] = 8
        scheds = list(merges_block(sa, sb))
        if not thorough:
            scheds = rng.sample(scheds, min(len(scheds), 7))
        scheds.append(merge_alternate([sa, sb]))
        scheds += [merge_random(rng, [sa, sb]) for _ in range(6 if thorough else 2)]
        for s in scheds:
            jobs.append(("command", 2, [da, db], [sa, sb], s, cfg))
        jobs.append(("burst", 2, [da, db], [sa, sb], burstify(merge_alternate([sa, sb])), cfg))
        jobs.append(("burst", 2, [da, db], [sa, sb], burstify(merge_random(rng, [sa, sb])), cfg))
        # the same with every byte stream cut into small segments (command lines and replies arrive in interleaved fragments)
        jobs.append(("burst-segmented", 2, [da, db], [sa, sb], burstify(merge_alternate([sa, sb])), dict(cfg, seg=rng.choice([1, 3, 7]))))
    # drops at command granularity: B crashes / closes at a random point
    for _ in range(200 if thorough else 24):
        ba, bb = rng.choice(bodies), rng.choice(bodies)
        la, lb = pick_pair()
        da, db = rng.sample(DIRS, 2)
        sa, sb = script(la, ba, da), script(lb, bb, db)
        k = rng.randrange(1, len(sb) + 1)
        sb = sb[:k] + [{"k": "drop", "how": rng.choice(["abort", "close"])}] + sb[k:k + 1]
        jobs.append(("command-drop", 2, [da, db], [sa, sb], merge_random(rng, [sa, sb]), cfg0))
    # triples
    for _ in range(400 if thorough else 30):
        bs = [rng.choice(bodies) for _ in range(3)]
        ls = [rng.choice(logins) for _ in range(3)]
        if rng.random() < 0.5:
            ls = [ls[0]] * 3
        ds = rng.sample(DIRS, 3)
        scripts = [script(l, b, d) for l, b, d in zip(ls, bs, ds)]
        if rng.random() < 0.3:
            v = rng.randrange(3)
            k = rng.randrange(1, len(scripts[v]) + 1)
            scripts[v] = scripts[v][:k] + [{"k": "drop", "how": rng.choice(["abort", "close"])}]
        s = merge_random(rng, scripts) if rng.random() < 0.8 else merge_alternate(scripts)
        if rng.random() < 0.3:
            s = burstify(s)
        jobs.append(("triple", 3, ds, scripts, s, cfg0))

    # (2) windows: a command of A suspended half-way while B runs
    n_win = 6000 if thorough else (budget * 12 if budget else 330)
    wins = []
    for ba in bodies:
        for la in ("u", "h"):
            sa = script(la, ba, "a")
            for e, atom in enumerate(sa):
                for mode in modes_for(atom):
                    wins.append((ba, la, e, mode))
    rng.shuffle(wins)
    # every (verb, mode) at least once, then the rest up to the budget
    first, seen = [], set()
    for w in wins:
        sa = script(w[1], w[0], "a")
        key = (sa[w[2]]["verb"], w[3][0], str(w[3][1]))
        if key not in seen:
            seen.add(key)
            first.append(w)
    order = first + [w for w in wins if w not in first]
    for ba, la, e, mode in (order * (1 + n_win // max(1, len(order))))[:n_win]:
        bb = rng.choice(bodies)
        lb = la if rng.random() < 0.5 else rng.choice(logins)
        da, db = rng.sample(DIRS, 2)
        sa, sb = script(la, ba, da), script(lb, bb, db)
        cfg = {"backend": "memory"}
        r = rng.random()
        if r < 0.10:
            cfg["backend"] = "path"
        elif r < 0.14:
            cfg["backend"] = "async"
        if rng.random() < 0.2:
            cfg["block_size"] = rng.choice([8, 16, 256])
        kind = rng.random()
        if kind < 0.45:
            j0 = rng.randrange(0, len(sb) + 1)
            j1 = rng.randrange(j0, len(sb) + 1)
        elif kind < 0.75:
            j0, j1 = 0, len(sb)  # the whole of B inside the window
        else:
            j0 = rng.randrange(0, len(sb))
            j1 = len(sb)
        sb2 = list(sb)
        fam = "window-" + mode[0]
        if rng.random() < 0.3:
            # B crashes / closes / aborts / quits inside the window
            k = rng.randrange(j0, j1 + 1)
            what = rng.choice(["abort", "close", "ABOR", "QUIT"])
            ins = {"k": "drop", "how": what} if what in ("abort", "close") else {"k": "cmd", "verb": what, "arg": ""}
            sb2 = sb[:k] + [ins] + sb[k:]
            j1 += 1
            fam += "-teardown"
        nested = None
        if rng.random() < 0.25:
            # B also has a command suspended half-way inside A's window (both mid-transfer at once)
            cands = [(k, m) for k in range(j0, min(j1, len(sb2))) for m in modes_for(sb2[k])]
            if cands:
                nested = rng.choice(cands)
                fam += "-nested"
        s = window_schedule(sa, e, mode, sb2, j0, j1, rng=rng if rng.random() < 0.5 else None, nested=nested, order=rng.randrange(2))
        jobs.append((fam, 2, [da, db], [project_atoms(s, 0), project_atoms(s, 1)], s, cfg))
    # (3) every transfer of every body suspended with its WORKER alive (each way) x an intruder script run entirely inside
    # the window by the same / another user: ABOR, transfers without data connection, listener renewal, QUIT, teardown
    tw = []
    for ba in TRANSFER_BODIES:
        sa = script("u", ba, "a")
        for e, atom in enumerate(sa):
            if atom["k"] == "cmd" and atom["verb"].lower() in XFER:
                for mode in modes_for(atom):
                    if mode[0] in ("hold", "split") or mode[1][0] in WORKER_OPS:
                        tw.append((ba, e, mode))
    combos = [(w, ib, same) for w in tw for ib in INTRUDERS for same in (True, False)]
    if not thorough:
        combos = [(w, INTRUDERS[k % len(INTRUDERS)], k % 2 == 0) for k, w in enumerate(tw)]
        if budget:
            combos += [(w, INTRUDERS[(k + 3) % len(INTRUDERS)], k % 2 == 1) for k, w in enumerate(tw)]
    for (ba, e, mode), ib, same in combos:
        da, db = rng.sample(DIRS, 2)
        la = rng.choice(["u", "v"])
        lb = la if same else ("v" if la == "u" else "u")
        sa, sb = script(la, ba, da), script(lb, ib, db)
        if ib == "relogin" and same:
            sb = script(la, ib, db)
        j0 = rng.choice([0, len(LOGIN[lb]) + 1])
        s = window_schedule(sa, e, mode, sb, j0, len(sb), rng=None)
        jobs.append(("intruder-" + ib + ("-same-user" if same else "-other-user"), 2, [da, db], [project_atoms(s, 0), project_atoms(s, 1)], s, {"backend": "memory"}))
    # (4) a WEDGED peer: it stops reading its control channel and pipelines commands until the replies no longer fit the
    # server's write buffer; meanwhile the others run their scripts and a NEW session connects, logs in and works
    for w in range(200 if thorough else (40 if budget else 26)):
        three = rng.random() < 0.6
        ds = rng.sample(DIRS, 3 if three else 2)
        la = rng.choice(logins)
        sa = script(la, rng.choice(bodies), ds[0])
        cut = rng.choice([0, len(LOGIN[la]), rng.randrange(0, len(sa) + 1)])
        wedge = {"k": "wedge", "n": rng.choice([8, 20, 40]), "verb": rng.choice(["XQ" + "x" * 120, "XQ" + "x" * 120, "NOOP" + "y" * 60, "PWD", "SYST"])}
        others = []
        for d in ds[1:]:
            lb = la if rng.random() < 0.5 else rng.choice(logins)
            others.append(script(lb, rng.choice(bodies), d))
        if three or rng.random() < 0.5:
            others[-1] = [{"k": "connect"}] + others[-1]  # connects while the first one is wedged
        inside = merge_random(rng, [[]] + others)
        k = rng.randrange(len(inside) // 2, len(inside) + 1)
        s = [(0, a) for a in sa[:cut]] + [(0, wedge)] + inside[:k] + [(0, {"k": "unwedge"})]
        s += merge_random(rng, [sa[cut:cut + 4], [a for i, a in inside[k:] if i == 1], [a for i, a in inside[k:] if i == 2]][: len(ds)])
        jobs.append(("wedged-control-peer", len(ds), ds, [project_atoms(s, i) for i in range(len(ds))], s, {"backend": "memory"}))
    # (5) per-connection speed limits (server-wide per connection, or of the user per connection): transfers take VIRTUAL time;
    # sessions of the same / different users transfer at the same time - every reply comes at its solo instant
    for w in range(160 if thorough else (36 if budget else 24)):
        cfg = {"backend": "memory", "limits": rng.choice([{"user_pc": 400}, {"user_pc": 1000}, {"server_pc": 300}, {"user_pc": 500, "server_pc": 800}])}
        nn = 3 if rng.random() < 0.25 else 2
        ds = rng.sample(DIRS, nn)
        la = rng.choice(["u", "v", "n", "anon"])
        ls = [la] * nn if rng.random() < 0.7 else [rng.choice(["u", "v", "n"]) for _ in range(nn)]
        ba = rng.choice(["store", "rest2", "append", "type", "rest"])
        bs = [ba] * nn if rng.random() < 0.6 else [rng.choice(["store", "rest2", "append", "type", "rest", "nav"]) for _ in range(nn)]
        scripts = [script(l, b, d) for l, b, d in zip(ls, bs, ds)]
        r = rng.random()
        s = burstify(merge_alternate(scripts)) if r < 0.5 else (burstify(merge_random(rng, scripts)) if r < 0.75 else merge_random(rng, scripts))
        jobs.append(("speed-limits-" + ("same-user" if len(set(ls)) == 1 else "other-users"), nn, ds, scripts, s, cfg))
    # (6) two listings at once: a LIST / MLSD worker suspended mid-listing (each way) while another session lists its own directory
    lw = [(e, mode) for e, atom in enumerate(script("u", "type", "a")) if atom["k"] == "cmd" and atom["verb"] in ("LIST", "MLSD")
          for mode in modes_for(atom) if mode[0] == "hold" or mode[1][0] in WORKER_OPS]
    for k, (e, mode) in enumerate(lw * (3 if thorough else 1)):
        for same in ((True, False) if thorough or k % 2 == 0 else (False,)):
            da, db = rng.sample(DIRS, 2)
            la = rng.choice(["u", "v", "n"])
            lb = la if same else ("v" if la == "u" else "u")
            sa, sb = script(la, "type", da), script(lb, "type", db)
            cfg = {"backend": "async" if (k + same) % 3 == 0 else "memory"}
            s = window_schedule(sa, e, mode, sb, rng.choice([0, len(LOGIN[lb]) + 1]), len(sb), rng=None)
            jobs.append(("overlapping-listings", 2, [da, db], [project_atoms(s, 0), project_atoms(s, 1)], s, cfg))
    # (7) one session sends a command line that is not valid UTF-8 (raw latin-1 bytes) at every point of another session's work
    # with non-ASCII names (created, stored into, listed, renamed, retrieved): encodings are per byte stream, not per server
    for rb in ("rawbytes", "rawbytes2"):
        for same in (True, False):
            da, db = rng.sample(DIRS, 2)
            la = rng.choice(["u", "v", "n"])
            lb = la if same else ("v" if la == "u" else "u")
            sa, sb = script(la, rb, da), script(lb, "unicode", db)
            scheds = [[(1, b) for b in sb[:k]] + [(0, a) for a in sa] + [(1, b) for b in sb[k:]] for k in range(len(sb) + 1)]
            if not thorough:
                scheds = [scheds[0], scheds[len(LOGIN[lb]) + 1]] + rng.sample(scheds, 3)
            scheds.append(burstify(merge_alternate([sa, sb])))
            for s in scheds:
                jobs.append(("raw-bytes-vs-unicode-names", 2, [da, db], [sa, sb], s, {"backend": rng.choice(["memory", "memory", "path"])}))
    # (8) disjoint LEAVES under a common ancestor that does not exist yet (MKD /inbox/a/x next to MKD /inbox/b/x): outside the
    # hypothesis of C17_isolation (no pre-existing own directory), inside "disjoint paths": mkdir -p of disjoint leaves succeeds for
    # everybody, alone and together.  Command granularity, simultaneous commands, and every backend call of the MKD gated
    # (both sessions suspended between their calls, completed in either order); gated memory, PathIO, AsyncPathIO (threads)
    deep_gates = [("exists", 1), ("exists", 2), ("exists", 3), ("mkdir", 1), ("mkdir", 2), ("mkdir", 3)]
    for w in range(240 if thorough else (60 if budget else 40)):
        nn = 3 if rng.random() < 0.2 else 2
        ds = rng.sample(DIRS, nn)
        ls = [rng.choice(["u", "v", "n", "anon"])] * nn if rng.random() < 0.5 else [rng.choice(["u", "v", "n", "anon"]) for _ in range(nn)]
        bs = [rng.choice(list(DEEP_BODIES))] * nn if rng.random() < 0.6 else [rng.choice(list(DEEP_BODIES)) for _ in range(nn)]
        scripts = [make_script(l, b, d, home=True) for l, b, d in zip(ls, bs, ds)]
        cfg = {"backend": rng.choice(["memory", "memory", "path", "async"]), "merge": True}
        kind = w % 4
        if kind == 0:
            s = merge_random(rng, scripts) if rng.random() < 0.6 else merge_alternate(scripts)
        elif kind == 1:
            s = burstify(merge_alternate(scripts)) if rng.random() < 0.6 else burstify(merge_random(rng, scripts))
        else:
            sa, sb = scripts[0], scripts[1]
            ea = len(LOGIN[ls[0]]) + (1 if (bs[0] == "deepmkd2" and rng.random() < 0.5) else 0)
            eb = len(LOGIN[ls[1]])
            nested = (eb, ["gate", list(rng.choice(deep_gates))]) if kind == 3 else None
            mode = ("gate", list(rng.choice(deep_gates)))
            j0 = rng.choice([0, eb])
            s = window_schedule(sa, ea, mode, sb, j0, len(sb) if nested is None else eb + 1, rng=None,
                                nested=(nested[0], (nested[1][0], nested[1][1])) if nested else None, order=rng.randrange(2))
            if nn == 3:
                s += [(2, a) for a in scripts[2]]
        jobs.append(("shared-missing-ancestor", nn, ds, [project_atoms(s, i) for i in range(nn)], s, cfg))
    # (8b) DIFFERENT ENTRIES of the SAME existing directory (siblings: earlier / later / adjacent positions, pre-existing and created in
    # either order): DELE / RMD / RNFR+RNTO / MKD / STOR of one session suspended at its k-th BACKEND CALL - k counts every call that
    # reaches an overridable coroutine method of the backend, also the ones a shipped backend method makes on `self` (is_file inside
    # unlink, ...), for k = 1 .. number of calls the command makes on the tree under test (measured on a solo run) - while the other
    # session runs a part or all of its script (or is suspended half-way too, completed in either order).  Outside the hypothesis of
    # C17_isolation (the footprint of DELE / RMD / RNTO / STOR contains the PARENT, here the same directory for both: the model's
    # directories are not incomparable), inside "disjoint paths".  Oracle: replies, reply instants, data and backend calls = solo,
    # final tree = merge of the solo trees
    sib_all = []
    probe_ok = [True]

    def calls_of(script, cfg):
        """number of backend calls each atom of the script makes (solo, on the tree under test); None when it cannot be measured"""
        if not probe_ok[0]:
            return None
        try:
            r = solo(script, "", cfg)
            lp = r.get("logpos")
            if "frozen" in r or lp is None or len(lp) != len(script):
                raise ValueError("no measure")
            return [b - a for a, b in zip([0] + lp[:-1], lp)]
        except Exception:
            probe_ok[0] = False  # an observation for the other families; here: a fixed range of k
            return None

    sib_names = list(SIB_BODIES)
    for ba, bb in itertools.product(sib_names, repeat=2):
        for ra in (0, 1):
            sib_all.append((ba, bb, ra))
    rng.shuffle(sib_all)
    sib_windows = []
    for ba, bb, ra in sib_all:
        d = rng.choice(DIRS)
        la = rng.choice(["u", "v", "n", "anon"])
        lb = la if rng.random() < 0.5 else rng.choice(["u", "v", "n", "anon"])
        aa, ab = rng.random() < 0.25, rng.random() < 0.25
        sa, sb = make_sib_script(la, ba, d, ra, aa), make_sib_script(lb, bb, d, 1 - ra, ab)
        cfg = {"backend": rng.choice(["memory", "memory", "memory", "path", "async"]), "merge": True, "siblings": True}
        cnt = calls_of(sa, {"backend": "memory", "merge": True, "siblings": True})
        hb = len(LOGIN[lb]) + (0 if ab else 1)
        for e, atom in enumerate(sa):
            if atom["k"] != "cmd" or atom["verb"].lower() not in SIB_GATED_VERBS:
                continue
            kmax = max(2, cnt[e]) if cnt is not None else 5
            for k in range(1, kmax + 1):
                sib_windows.append((d, sa, sb, e, k, hb, cfg))
        for kind in range(2):
            m = merge_random(rng, [sa, sb]) if kind == 0 else burstify(merge_alternate([sa, sb]))
            if thorough or rng.random() < 0.25:
                jobs.append(("siblings-in-shared-parent", 2, [d, d], [sa, sb], m, cfg))
    if not thorough:
        sib_windows = rng.sample(sib_windows, min(len(sib_windows), 150 if budget else 110))
    for d, sa, sb, e, k, hb, cfg in sib_windows:
        mode = ("gate", ["*", k])
        r = rng.random()
        j0 = hb if r < 0.5 else (rng.randrange(hb, len(sb)) if r < 0.8 else 0)
        pre = merge_random(rng, [sa[:e], sb[:j0]]) if rng.random() < 0.5 else [(1, b) for b in sb[:j0]] + [(0, a) for a in sa[:e]]
        sched = list(pre) + [(0, dict(sa[e], k="send", mode=mode[0], marg=mode[1]))]
        gb = [x for x in range(j0, len(sb)) if sb[x]["k"] == "cmd" and sb[x]["verb"].lower() in SIB_GATED_VERBS]
        if gb and rng.random() < 0.3:
            # B suspended half-way inside the window too; completed in either order
            kb = rng.choice(gb)
            sched += [(1, b) for b in sb[j0:kb]] + [(1, dict(sb[kb], k="send", mode="gate", marg=["*", rng.randrange(1, 5)]))]
            fin = [(0, {"k": "collect"}), (1, {"k": "collect"})]
            sched += fin if rng.random() < 0.5 else fin[::-1]
            j1 = kb + 1
        else:
            j1 = len(sb) if rng.random() < 0.6 else rng.randrange(j0 + 1, len(sb) + 1)
            sched += [(1, b) for b in sb[j0:j1]] + [(0, {"k": "collect"})]
        rest = [sa[e + 1:], sb[j1:]]
        sched += merge_random(rng, rest) if rng.random() < 0.5 else merge_alternate(rest)
        jobs.append(("siblings-in-shared-parent", 2, [d, d], [project_atoms(sched, 0), project_atoms(sched, 1)], sched, cfg))
    # (9) an OPERATOR changes one session's own per-connection object at run time (`throttle.limit = n` on the session's
    # server_per_connection / user_per_connection throttle: public setter): every other session keeps its solo timing.  No limit
    # is configured at start (the default), so everything a session owns was built by the clone / from_limits factories of common.py
    for w in range(160 if thorough else (40 if budget else 24)):
        nn = 3 if rng.random() < 0.25 else 2
        ds = rng.sample(DIRS, nn)
        la = rng.choice(["u", "v", "n", "anon"])
        ls = [la] * nn if rng.random() < 0.6 else [rng.choice(["u", "v", "n"]) for _ in range(nn)]
        bs = [rng.choice(["store", "rest2", "append", "type", "rest"]) for _ in range(nn)]
        scripts = [script(l, b, d) for l, b, d in zip(ls, bs, ds)]
        t = rng.randrange(nn)
        tune = {"k": "tune", "key": ("server_per_connection", "user_per_connection")[w % 2], "limit": rng.choice([200, 400, 1000])}
        if rng.random() < 0.3:
            tune["sides"] = [rng.choice(["read", "write"])]
        pos = rng.choice([0, len(LOGIN[ls[t]]), len(LOGIN[ls[t]]) + 1, rng.randrange(len(scripts[t]) + 1)]) if tune["key"] != "user_per_connection" else \
            rng.choice([len(LOGIN[ls[t]]), len(LOGIN[ls[t]]) + 1, rng.randrange(len(LOGIN[ls[t]]), len(scripts[t]) + 1)])
        head = [(t, a) for a in scripts[t][:pos]] + [(t, tune)]
        rest_scripts = [sc[pos:] if i == t else sc for i, sc in enumerate(scripts)]
        if rng.random() < 0.5:
            # the others are connected and logged in before the assignment
            pre = [[(i, a) for a in sc[:len(LOGIN[ls[i]])]] if i != t else [] for i, sc in enumerate(scripts)]
            rest_scripts = [sc if i == t else sc[len(LOGIN[ls[i]]):] for i, sc in enumerate(rest_scripts)]
            head = [x for pr in pre for x in pr] + head
        r = rng.random()
        tail = merge_alternate(rest_scripts) if r < 0.4 else merge_random(rng, rest_scripts)
        s = head + (burstify(tail) if rng.random() < 0.5 else tail)
        jobs.append(("runtime-limit-on-one-session-" + ("same-user" if len(set(ls)) == 1 else "other-users"), nn, ds, [project_atoms(s, i) for i in range(nn)], s, {"backend": "memory", "timed": True}))
    # (10) what a session observes AFTER another one died uncleanly: A is cut at point p (idle, listener open, data connection idle,
    # mid-RETR/LIST/MLSD with unsent data queued, mid-upload, inside a backend call) - its control connection is reset / closed /
    # the whole client host vanishes (data peer neither reads nor closes: a lingering close that never completes) - then B connects
    # or logs in and works.  A connection limit (per user = 1 with the same user, or server-wide = 1) is configured and never
    # exceeded by LIVE sessions, so B's solo run is what it must see.  close() / wait_closed() have their real (>= 3.12.1) meaning
    cuts = []
    for ba in TRANSFER_BODIES:
        sa = script("u", ba, "a")
        for e, atom in enumerate(sa):
            if atom["k"] == "cmd" and atom["verb"].lower() in XFER:
                cuts += [(ba, e, mode) for mode in modes_for(atom) if mode[0] in ("hold", "split")]
    rng.shuffle(cuts)
    extra_cuts = 400 if thorough else (50 if budget else 26)
    plan = [(c, "vanish" if k % 3 else "vanish-eof") for k, c in enumerate(cuts if (thorough or budget) else cuts[:22])]
    for _ in range(extra_cuts):
        ba = rng.choice(bodies)
        plan.append(((ba, None, None), rng.choice(["vanish", "vanish", "vanish-eof", "abort", "close"])))
    for k, ((ba, e, mode), how) in enumerate(plan):
        da, db = rng.sample(DIRS, 2)
        la = rng.choice(["u", "v", "n"])
        by_user = k % 3 != 2
        lb = la if by_user else rng.choice(["u", "v", "n", "anon"])
        sa = script(la, ba, da)
        sb = script(lb, rng.choice(["nav", "store", "type", "rename", "append"]), db)
        if e is None:
            e = rng.randrange(0, len(sa) + 1)
            ms = modes_for(sa[e]) if e < len(sa) else []
            mode = rng.choice(ms) if ms and rng.random() < 0.7 else None
        else:
            e += len(sa) - len(script("u", ba, "a"))  # same body, another login prefix
        pre = [(0, a) for a in sa[:e]]
        if mode is not None:
            pre.append((0, dict(sa[e], k="send", mode=mode[0], marg=mode[1])))
        late = (not by_user) or rng.random() < 0.6
        if late:
            s = pre + [(0, {"k": "drop", "how": how})] + [(1, {"k": "connect"})] + [(1, b) for b in sb]
        else:
            # B is connected (not logged in) while A lives; it logs in after A's death
            s = pre + [(0, {"k": "drop", "how": how})] + [(1, b) for b in sb]
        cfg = {"backend": "memory", "os312": True, "maxconn": {"user": 1} if by_user else {"server": 1}}
        jobs.append(("after-unclean-death-" + how, 2, [da, db], [project_atoms(s, 0), project_atoms(s, 1)], s, cfg))
    # the victim itself is torn down half-way (its partial effects stay its own)
    for _ in range(300 if thorough else 24):
        ba, la, e, mode = rng.choice(wins)
        bb = rng.choice(bodies)
        da, db = rng.sample(DIRS, 2)
        sa, sb = script(la, ba, da), script(rng.choice(logins), bb, db)
        what = rng.choice(["abort", "close", "ABOR"])
        ins = {"k": "drop", "how": what} if what != "ABOR" else {"k": "cmd", "verb": "ABOR", "arg": ""}
        a_send = dict(sa[e], k="send", mode=mode[0], marg=mode[1])
        k = rng.randrange(0, len(sb) + 1)
        s = [(0, a) for a in sa[:e]] + [(0, a_send)] + [(1, b) for b in sb[:k]] + [(0, ins)] + [(1, b) for b in sb[k:]] + [(0, {"k": "collect"})]
        s += [(0, a) for a in sa[e + 1:e + 3]]
        jobs.append(("window-self-teardown", 2, [da, db], [project_atoms(s, 0), project_atoms(s, 1)], s, {"backend": "memory"}))
    return jobs


def project_atoms(schedule, i):
    return [a for j, a in schedule if j == i]


def removable_units(schedule):
    """indices that can be removed together keeping the schedule well-formed (a send goes with its collect)"""
    units = []
    open_send = {}
    for k, (i, a) in enumerate(schedule):
        if a["k"] == "send":
            open_send[i] = k
        elif a["k"] == "collect":
            if i in open_send:
                units.append((open_send.pop(i), k))
        else:
            units.append((k,))
    for i, k in open_send.items():
        units.append((k,))
    return units


def shrink(n, dirs, schedule, cfg, key, tries=120):
    """greedy: drop atoms (latest first) while the SAME oracle keeps failing; solo runs are re-derived from the shrunk scripts"""
    global LOOP_BUDGET
    cur = list(schedule)
    changed = True
    old_budget = LOOP_BUDGET
    if key.startswith("c17-event-loop-blocked"):
        LOOP_BUDGET, tries = min(LOOP_BUDGET, 1.5), min(tries, 60)  # every candidate that still freezes costs its whole budget
    try:
        return _shrink(n, dirs, cur, cfg, key, tries)
    finally:
        LOOP_BUDGET = old_budget


def _shrink(n, dirs, cur, cfg, key, tries):
    changed = True
    while changed and tries > 0:
        changed = False
        for unit in sorted(removable_units(cur), reverse=True):
            if tries <= 0:
                break
            tries -= 1
            cand = [x for k, x in enumerate(cur) if k not in unit]
            try:
                res = run_impl(n, cand, cfg)
                solos = solos_for(n, dirs, cand, cfg, res)
                bad = oracle(n, dirs, cand, cfg, res, solos)
            except Exception:
                continue
            bad = [b for b in bad if not b[0].startswith("c17-mech-")]
            if bad and bad[0][0] == key:
                cur = cand
                changed = True
                break
    return cur


# ---------------------------------------------------------------- supervision: the check always ends with a verdict
STALL_BUDGET = float(os.environ.get("C17_STALL_BUDGET", "40"))  # wall seconds without a heartbeat (one per run of a schedule)
_BEACON = {"mm": None}
_HB = struct.Struct("<qd")
CTX_LISTS = ("violations", "disagreements", "broken", "known_hits", "notes", "samples")
CTX_WHOLE = ("dist", "extra", "violation_keys", "known_keys", "traces_impl")  # evaluations / nontrivial: counted by the parent (on_done)


def heartbeat(k=None):
    mm = _BEACON["mm"]
    if mm is not None:
        cur = _HB.unpack(mm[: _HB.size])[0] if k is None else k
        mm[: _HB.size] = _HB.pack(cur, time.time())


def supervised(ctx, njobs, one_job, on_stall, extra_state, on_done=None):
    """Run one_job(k) for k = 0.. in a forked CHILD; after every job the child ships what the job added to ctx (and to
    extra_state's lists / dicts) through a pipe.  The parent only watches a heartbeat in shared memory (written at the start
    of every job and of every run of a schedule): no heartbeat for STALL_BUDGET seconds = the process is stuck in something
    the in-process watchdog could not interrupt -> SIGKILL, on_stall(k) records the schedule, a new child goes on after k."""
    mm = mmap.mmap(-1, 64)
    start, restarts = 0, 0
    while start < njobs and restarts <= 6:
        mm[: _HB.size] = _HB.pack(start, time.time())
        r, w = os.pipe()
        pid = os.fork()
        if pid == 0:
            rc = 0
            try:
                os.close(r)
                _BEACON["mm"] = mm
                out = os.fdopen(w, "wb")
                for k in range(start, njobs):
                    heartbeat(k)
                    lens = {f: len(getattr(ctx, f)) for f in CTX_LISTS}
                    xl = {f: (len(v) if isinstance(v, list) else None) for f, v in extra_state.items()}
                    go = one_job(k)
                    msg = {
                        "k": k, "go": go,
                        "lists": {f: getattr(ctx, f)[lens[f]:] for f in CTX_LISTS},
                        "whole": {f: getattr(ctx, f) for f in CTX_WHOLE},
                        "extra": {f: (v[xl[f]:] if isinstance(v, list) else v) for f, v in extra_state.items()},
                    }
                    blob = pickle.dumps(msg, protocol=4)
                    out.write(struct.pack("<I", len(blob)) + blob)
                    out.flush()
                    if not go:
                        break
            except BaseException:
                import traceback
                traceback.print_exc()
                rc = 3
            finally:
                os._exit(rc)
        os.close(w)
        buf = b""
        last_k, finished, stop = start - 1, False, False
        while True:
            rd, _, _ = select.select([r], [], [], 1.0)
            if rd:
                chunk = os.read(r, 1 << 20)
                if not chunk:
                    finished = True
                    break
                buf += chunk
                while len(buf) >= 4 and len(buf) >= 4 + struct.unpack("<I", buf[:4])[0]:
                    ln = struct.unpack("<I", buf[:4])[0]
                    msg = pickle.loads(buf[4 : 4 + ln])
                    buf = buf[4 + ln :]
                    last_k = msg["k"]
                    if on_done is not None:
                        on_done(last_k)
                    for f, v in msg["lists"].items():
                        getattr(ctx, f).extend(v)
                    for f, v in msg["whole"].items():
                        setattr(ctx, f, v)
                    for f, v in msg["extra"].items():
                        if isinstance(extra_state[f], list):
                            extra_state[f].extend(v)
                        else:
                            extra_state[f].clear()
                            extra_state[f].update(v)
                    stop = stop or not msg["go"]
                continue
            k, t = _HB.unpack(mm[: _HB.size])
            if time.time() - t > STALL_BUDGET:
                os.kill(pid, signal.SIGKILL)
                break
        os.close(r)
        try:
            _, status = os.waitpid(pid, 0)
        except ChildProcessError:
            status = 0
        if stop or (finished and last_k >= njobs - 1):
            return
        if finished and status != 0 and last_k < njobs - 1:
            # the child died (crash of the interpreter / uncaught BaseException): treat the job in flight like a stall
            ctx.notes.append(f"supervised child ended with status {status} in job {last_k + 1}")
        k = last_k + 1
        if k < njobs:
            if on_done is not None:
                on_done(k)
            on_stall(k)
        start = k + 1
        restarts += 1


# ---------------------------------------------------------------- one case
def check_case(ctx, fam, n, dirs, schedule, cfg, mo=None, verbose=False):
    """run the interleaved schedule and the solo runs; oracles; model correspondence.  Returns True when clean."""
    scripts = [project_atoms(schedule, i) for i in range(n)]
    res = run_impl(n, schedule, cfg)
    solos = solos_for(n, dirs, schedule, cfg, res)
    rep = {"family": fam, "n": n, "dirs": dirs, "cfg": cfg, "schedule": [[i, a] for i, a in schedule]}
    clean = True
    for name, i, verb in res.get("writes", []):
        # not a property violation by itself: the closed obligation C17_source_obligations (static write-site inventory) has a
        # dynamic twin - a session step changed something outside its Connection and outside the declared shared structures
        if name not in ctx.extra.setdefault("dynamic_writes", {}):
            ctx.extra["dynamic_writes"][name] = f"{verb} of session {i}"
            ctx.obligation_broken("dynamic-write-inventory", f"a step ({verb}) of a session changed {name}: per-session state outside the Connection / the declared shared structures {SHARED_ATTRS}")
    bad = oracle(n, dirs, schedule, cfg, res, solos)
    if bad and bad[0][0] == "outside-hypothesis":
        ctx.count("outside_hypothesis")
        return True
    for key, what, extra in [b for b in bad if b[0].startswith("c17-mech-")]:
        # the MECHANISM (one Connection / stream / worker set / backend instance / throttle clone per accepted socket) is not
        # the property: report it like a broken obligation and let the search look for a behavioural consequence
        if key not in ctx.extra.setdefault("mechanism", {}):
            ctx.extra["mechanism"][key] = what
            ctx.obligation_broken("per-socket-objects", f"{key}: {what}")
    bad = [b for b in bad if not b[0].startswith("c17-mech-")]
    for key, what, extra in bad[:1]:
        if not verbose and len(ctx.violations) < 3 and not (key.startswith("c17-event-loop-blocked") and any(v["replay"].get("key", "").startswith("c17-event-loop-blocked") for v in ctx.violations)):
            small = shrink(n, dirs, schedule, cfg, key)
            if len(small) < len(schedule):
                res2 = run_impl(n, small, cfg)
                bad2 = oracle(n, dirs, small, cfg, res2, solos_for(n, dirs, small, cfg, res2))
                bad2 = [b for b in bad2 if not b[0].startswith("c17-mech-")]
                if bad2 and bad2[0][0] == key:
                    rep = dict(rep, schedule=[[i, a] for i, a in small], shrunk_from=len(schedule))
                    key, what, extra = bad2[0]
        ctx.violation(f"property oracle: {key}: {what}", dict(rep, key=key, **extra))
        clean = False
    if "frozen" in res or any("frozen" in so for so in solos):
        return clean  # nothing else can be observed of a frozen server
    if verbose:
        for i in range(n):
            print(f"--- session {i} in /{dirs[i]}")
            for r in res["sessions"][i]["records"]:
                print("   ", r["verb"], r["arg"], "->", r["codes"], (r["bytes"][:24] if r["bytes"] else ""), "ended" if r["ended"] else "")
    if mo is None:
        return clean
    hyp, trace, solo_m = mo
    # M0 hypotheses
    if cfg.get("merge"):
        # deliberately OUTSIDE the hypothesis of C17_isolation (no pre-existing directory of its own contains the session's
        # footprint: the only existing common ancestor is the root); the model's solo runs and its serialised tree are still
        # predictions of the model, the theorem just does not say they must agree
        ctx.count("outside_theorem_hypothesis:" + ("siblings_in_shared_parent" if cfg.get("siblings") else "shared_missing_ancestor"))
    elif not (all(hyp[0]) and hyp[1] and hyp[2]):
        ctx.count("model_outside_hypothesis")
        ctx.notes.append(f"schedule outside the model's hypothesis (generator): {fam} {dirs} {[verbs_of(s) for s in scripts]}"[:300])
        return clean
    if not cfg.get("merge"):
        ctx.count("hypothesis_holds")
    ev = model_events(schedule)
    skip = [self_interrupting(schedule, i) for i in range(n)]
    mem_skip = False
    for i in range(n):
        evs_i = [(e[1][0], e[1][1]) if e[1] else ("<drop>", "") for e in ev if e[0] == i]
        outs_i = [o for _, o in solo_m[i][1]]
        if cfg.get("backend", "memory") == "memory" and mem_divergent(evs_i, outs_i):
            mem_skip = True
    if mem_skip:
        ctx.count("model_skipped_known_memory_backend_divergence")
        return clean
    # M2 per-session transcript vs the model's solo run
    for i in range(n):
        if skip[i]:
            ctx.count("model_session_skipped_self_interrupt")
            continue
        outs_i = [o for _, o in solo_m[i][1]]
        d = records_vs_model(res["sessions"][i]["records"], outs_i)
        if d is not None:
            k, model, impl = d
            case = dict(rep, key="c17-model-solo-transcript", session=i, at=k)
            ctx.disagree("multi-solo", case, str(model)[:300], str(impl)[:300])
            clean = False
    if not any(skip):
        m_tree = ftpsim.canon_tree(ftpsim.sx_to_tree(trace[0]))
        if m_tree != res["tree"]:
            ctx.disagree("multi-tree", dict(rep, key="c17-model-tree"), "model vs impl: " + str(tree_diff(m_tree, res["tree"])[:6]), "")
            clean = False
    # M1 step by step (command granularity only)
    if command_granular(schedule) and clean:
        steps = trace[1]
        pos = [0] * n
        for k, ((i, atom), mstep, (before, after)) in enumerate(zip(schedule, steps, res["steps"])):
            rec = res["sessions"][i]["records"][pos[i]]
            pos[i] += 1
            codes, info, by, ls = c05.decode_out(mstep[1])
            if atom["k"] != "drop" and (rec["codes"], rec["bytes"], rec["listing"]) != (codes, by, ls):
                ctx.disagree("multi-step", dict(rep, key="c17-model-step", at=k), str((codes, by, ls))[:300], str((rec["codes"], rec["bytes"], rec["listing"]))[:300])
                clean = False
                break
            d = None
            for j in range(n):
                d = sess_vs_probe(c05.decode_sess(mstep[2][j]), after[j])
                if d is not None:
                    ctx.disagree("multi-state", dict(rep, key="c17-model-state", at=k, session=j), str(d[1])[:300], str(d[2])[:300])
                    clean = False
                    break
            if d is not None:
                break
    return clean


def model_inputs(n, dirs, schedule):
    ev = model_events(schedule)
    base = [users_sx(), ftpsim.tree_to_sx(TREE), n, ev]
    ins = [(1, base + [[[d] for d in dirs]]), (0, base)]
    for i in range(n):
        ins.append((2, base + [i]))
    return ins


def correspondence(ctx, budget=None):
    rng = ctx.rng
    thorough = ctx.tier == "thorough"
    ctx.extra["rule"] = (
        "pairs/triples of scripted sessions (16 script bodies: navigation, store/retrieve/delete, REST+RETR/STOR, RNFR/RNTO incl. a pending "
        "rename across other commands, TYPE+LIST/MLSD/MLST, APPE, re-login as another user, transfers without / with refused data connections "
        "+ ABOR + listener renewal, ABOR of an own held / half-sent transfer, error replies, QUIT, the former session-killers REST <non-ASCII digit> (501) and EPSV <arg> (522, session continues), a restart offset consumed by exactly one transfer) x login "
        "(same user twice, different users, password-less, anonymous, home inside the directory, failed PASS first) x disjoint directories "
        "with the same names and different contents x schedules: (1) command granularity: one script inserted as a block at every position "
        "of the other, strict alternation, random merges, a session crashing (RST) or closing anywhere; the same with simultaneous command "
        "lines; triples; (2) windows: a command of one session suspended half-way (data link held with a lowered high-water mark, upload "
        "split in two, n-th backend call gated) while the other runs a part or all of its script, is torn down / aborts / quits inside the "
        "window, or is itself suspended half-way; the suspended session itself torn down half-way. Memory backend mostly, PathIO / "
        "AsyncPathIO on a subset, block sizes 8..256, optional port pool; (3) a peer that stops reading its CONTROL channel and pipelines "
        "commands until its replies no longer fit the server's write buffer while the others work and a new session connects late; "
        "(4) per-connection speed limits (of the user, of the server): same-user / other-user sessions transfer at the same time, every "
        "reply instant on the virtual clock is compared with a time-aligned solo run; (5) two listings at once (one suspended mid-listing); "
        "(6) a command line of raw non-UTF-8 bytes in one session at every point of another session's work with non-ASCII names. Every run "
        "of a schedule is under a wall-clock watchdog, the whole stream in a supervised child process: a frozen event loop is reported as "
        "a violation with the schedule; (7) disjoint leaves under a common ancestor that does not exist yet (MKD of 2-3 missing levels by "
        "each session, every backend call of the MKD gated, both sessions suspended at once): outside the theorem's hypothesis, oracle = "
        "replies as solo and final tree = merge of the solo trees; (8) an operator assigns the limit of ONE session's server_per_connection / "
        "user_per_connection throttle at run time (no limit configured at start) before / while 2-3 sessions of the same / other users transfer: "
        "reply instants of everybody vs time-aligned solo runs; (9) session A cut at every point (idle, listener open, idle data connection, "
        "mid-RETR/LIST/MLSD with unsent data queued, mid-upload) by reset / close / a vanished client host (control connection dies, data peer "
        "neither reads nor closes), then B connects or logs in under a per-user or server-wide connection limit of 1, with lingering close and "
        "3.12 wait_closed semantics; (10) two sessions on DIFFERENT ENTRIES of the SAME directory (siblings, pre-existing and created in either "
        "order: earlier / later / adjacent positions): DELE / RMD / RNFR / RNTO / MKD / STOR of one session suspended at its k-th backend call "
        "of ANY method (gate '*': also the calls a shipped backend method makes to its own overridable coroutine methods, k = 1 .. the number "
        "of calls the command makes on the tree under test) while the other runs a part or all of its script or is suspended half-way too: "
        "outside the theorem's hypothesis (the footprints share the parent), oracle = replies, data and backend calls as solo, final tree = "
        "merge of the solo trees. After every step of every schedule the aliasing oracle walks what is reachable from each Connection. "
        "Non-trivial = distinct (schedule, configuration)."
    )
    jobs = gen_jobs(rng, thorough, budget)
    ctx.extra.setdefault("dynamic_writes", {})
    model_in, spans = [], []
    for fam, n, dirs, scripts, sched, cfg in jobs:
        ins = model_inputs(n, dirs, sched)
        spans.append((len(model_in), len(ins)))
        model_in += ins
    model_out = ctx.model(model_in)
    xcheck = []
    verbs = {}

    def one_job(k):
        """runs in the supervised CHILD; returns False to stop the stream"""
        (fam, n, dirs, scripts, sched, cfg), (off, ln) = jobs[k], spans[k]
        ctx.traces_impl += 1 + n
        ctx.count("family:" + fam)
        ctx.count("backend_" + cfg.get("backend", "memory"))
        for i, a in sched:
            if "verb" in a:
                verbs[a["verb"].lower()] = verbs.get(a["verb"].lower(), 0) + 1
            if a.get("mode"):
                ctx.count("suspended:" + a["mode"] + (":" + a["marg"][0] if a["mode"] == "gate" else ""))
        mo = (model_out[off], model_out[off + 1], model_out[off + 2: off + ln])
        try:
            ok = check_case(ctx, fam, n, dirs, sched, cfg, mo)
        except Exception as e:
            # the (changed) implementation broke the harness' expectations: an observation, never the end of the run
            ok = False
            import traceback
            ctx.count("implementation_or_harness_exception")
            if ctx.dist["implementation_or_harness_exception"] <= 3:
                ctx.disagree("exception", {"family": fam, "n": n, "dirs": dirs, "cfg": cfg, "schedule": [[i, a] for i, a in sched], "key": "c17-exception"},
                             "the schedule runs to its end", traceback.format_exc()[-600:])
        if ok and len(xcheck) < 12 and len(sched) < 14:
            xcheck.append((1, model_in[off][1], model_out[off]))
            xcheck.append((0, model_in[off + 1][1], model_out[off + 1]))
        if len(ctx.samples) < 5 and fam.startswith("window"):
            ctx.sample({"family": fam, "dirs": dirs, "cfg": cfg, "schedule": [[i, a.get("verb", a["k"]), a.get("arg", ""), a.get("mode")] for i, a in sched][:40]})
        return len(ctx.violations) < 8

    def on_stall(k):
        fam, n, dirs, scripts, sched, cfg = jobs[k]
        ctx.count("family:" + fam)
        ctx.violation(
            f"property oracle: c17-event-loop-blocked: the process running the server did not come back from this schedule within {STALL_BUDGET} s "
            "of wall time and could not be interrupted (killed by the supervisor): every session is frozen",
            {"family": fam, "n": n, "dirs": dirs, "cfg": cfg, "schedule": [[i, a] for i, a in sched], "key": "c17-event-loop-blocked"},
        )

    def on_done(k):
        fam, n, dirs, scripts, sched, cfg = jobs[k]
        ctx.case(json.dumps([[i, a] for i, a in sched], sort_keys=True) + json.dumps(cfg, sort_keys=True) + str(dirs))

    supervised(ctx, len(jobs), one_job, on_stall, {"xcheck": xcheck, "verbs": verbs}, on_done)
    ctx.extra["verbs_exercised"] = verbs
    ok, out = core.vm_crosscheck(EXTRACT, xcheck)
    ctx.extra["vm_compute_crosscheck"] = {"cases": len(xcheck), "agree": ok}
    if not ok:
        ctx.obligation_broken("extraction-crosscheck", out)


def search(ctx):
    """a proof obligation (write-site inventory) or the correspondence broke and no failing schedule was seen yet: widen the search"""
    if ctx.violations or ctx.tier == "thorough" or ctx.exe is None:
        return
    try:
        correspondence(ctx, budget=110)
    except Exception as e:
        ctx.notes.append(f"search aborted: {e!r}")


def replay(ctx, data):
    r = data.get("replay", {})
    if "schedule" not in r:
        print(json.dumps(data, indent=1)[:3000])
        return False
    sched = [(i, a) for i, a in r["schedule"]]
    n, dirs, cfg = r["n"], r["dirs"], r.get("cfg", {})
    mo = None
    if ctx.exe is not None:
        ins = model_inputs(n, dirs, sched)
        out = ctx.model(ins)
        mo = (out[0], out[1], out[2:])
    before = len(ctx.violations) + len(ctx.disagreements) + len(ctx.known_hits)
    check_case(ctx, r.get("family", "replay"), n, dirs, sched, cfg, mo, verbose=True)
    for v in ctx.violations[-1:]:
        print("VIOLATED:", v["what"])
    for d in ctx.disagreements[-1:]:
        print("MODEL != IMPL:", d["stream"], d["model"], d["impl"])
    return len(ctx.violations) + len(ctx.disagreements) + len(ctx.known_hits) == before
