"""C07 — listings and stats report the backend's truth.

Correspondence of coq/Lib/Civil.v, coq/Model/LsDate.v and coq/Model/Listing.v with the real
time.gmtime / calendar.timegm / datetime.strptime, Server.build_list_mtime, _format_mlsx_time,
build_mlsx_string, build_list_string, Client.parse_ls_date, parse_list_line_unix, parse_unix_mode,
parse_mlsx_line — and the property oracle (the right-hand sides of the Props/C07.v theorems,
recomputed independently with datetime arithmetic) evaluated on the implementation's outputs,
function level and over simnet sessions (real Server + Client)."""
import asyncio
import calendar
import datetime
import json
import math
import os
import pathlib
import stat as stat_mod
import subprocess
import sys
import time as real_time

ID = "C07"
EXTRACT = "ExC07"
TECHNIQUE = (
    "Coq proof (400-year-era sweep lifted to all Z for the calendar; linear arithmetic over the closed form of "
    "days_from_civil for the half-year switch and the year inference; symbolic execution of the slice-by-slice parsers) "
    "about executable models of build_list_mtime/parse_ls_date/strptime/build_*_string/parse_*_line, tied to the code by "
    "differential correspondence of the extracted model against the real functions on boundary-dense (mtime, now) grids, "
    "malformed streams and loopback sessions; constants regenerated from common.py"
)
LEVEL_TEXT = (
    "Theorems C07_mlsx_roundtrip, C07_mlsd_entries_exact, C07_mlst_roundtrip (through the C06 reply framing), C07_list_roundtrip, "
    "C07_list_mode_roundtrip (all 12 permission bits incl. the S/T letters), "
    "C07_client_list_exact (the Client.list loop and parser chain over an arbitrary directory), C07_list_agrees_with_mlsd, "
    "C07_stat_via_list_exact, C07_ls_date_recent, C07_ls_date_old_or_future, "
    "C07_ls_date_window_witness and the calendar round trips are proved for all Z timestamps (4-digit years), all sizes, all "
    "names the line format can carry, every fixed-offset zone and every client clock within one hour after the server's "
    "(Closed under the global context). The models are hand-written; their tie to the code is a differential correspondence "
    "(about 2*10^5 cases per quick run, every boundary of half-year/New Year/Feb 28-29-Mar 1 in leap, non-leap and century years "
    "+-{0,1,59,60,86400} s, TZ=UTC and two fixed-offset zones in subprocesses, malformed streams), the real Client.list/Client.stat "
    "glue on stubbed streams, plus simnet sessions (real Server and Client) against MemoryPathIO, PathIO and AsyncPathIO with "
    "os.utime-controlled mtimes, MLSD, LIST, the 502 fallback and stat(), listings with a backend fault at one entry "
    "(C07_mlsd_complete_or_fails: a completed listing is complete, a fault fails the command) and listing commands with other "
    "commands between the 150 mark and the data connection; directory cardinality x backend (127..1025 entries, thorough 4097, on "
    "PathIO / AsyncPathIO over a directory in the system temp dir and on MemoryPathIO; truth read back with os.listdir/os.lstat); "
    "connection histories (refused commands before login / on forbidden or missing paths / unknown commands, then list(), recursive "
    "list() and stat() on the same connection must agree with each other and the backend; C07_list_plan_history_independent: the "
    "command that reads a listing is a function of that call alone); zones with DST at function level around every transition."
)
LEVEL_NOTE = (
    "Trusted: Coq kernel; extraction cross-checked with vm_compute; harness. Modelled, not verified: glibc strftime (%b %e %H %M %Y "
    "in the C locale), CPython _strptime's regexes for the three formats and the re engine's backtracking order, "
    "time.gmtime/localtime on fixed-offset zones (DST/tzdata outside the model), stat.filemode, sub-second parts of clocks "
    "(integers only in the model; fractional clocks are exercised against the oracle only), locale switching (setlocale)."
)
TRUSTED = [
    "time zone in the theorems = fixed offset (local = UTC + off), plus the two-offset corollary C07_ls_date_recent_two_offsets_partial and "
    "C07_ls_date_old_or_future (any client clock); zones with DST are covered by the function-level DST streams only (real build_list_mtime "
    "under TZ=<POSIX rule> in a subprocess around every transition of 2-4 years, three zones incl. the southern hemisphere); localtime/tzdata unverified",
    "backend times: MLSx facts are modelled on exact rationals (floor, C07_mlsx_time_real_floor); in the LIST date model clocks and mtimes "
    "are integers (the comparison now - HALF < mtime <= now on fractional values is exercised against the oracle only)",
]
ASSUMPTIONS = [
    "modelled, not verified: strftime/strptime/localtime/gmtime of the interpreter and glibc on the formats used (validated "
    "densely by correspondence each run), stat.filemode, pathlib.PurePosixPath(name) = name for a single path component",
    "the client's clock is not earlier than the server's and at most 1 h later (hypothesis of C07_ls_date_recent)",
]

SPEC_HALF = 15778476  # 365.2425 d / 2: the half year of the property (= Proofs/LsDateFacts.v half_year_spec)
DAY = 86400
EPOCH = datetime.datetime(1970, 1, 1)
MIN_E = calendar.timegm((1000, 1, 1, 0, 0, 0))
MAX_E = calendar.timegm((9998, 12, 31, 23, 59, 59))
DELTAS = [0, 1, -1, 59, -59, 60, -60, DAY, -DAY]
SKEWS = [0, 1, 59, 60, 3599, 3600]
ZONES = [("Etc/GMT-3", 10800), ("Etc/GMT+5", -18000)]


def naive(sec):
    return EPOCH + datetime.timedelta(seconds=sec)


def dt6(d):
    return [d.year, d.month, d.day, d.hour, d.minute, d.second]


def fmt14(d, floor):
    if floor == "minute":
        return f"{d.year:04d}{d.month:02d}{d.day:02d}{d.hour:02d}{d.minute:02d}00"
    if floor == "day":
        return f"{d.year:04d}{d.month:02d}{d.day:02d}000000"
    return f"{d.year:04d}{d.month:02d}{d.day:02d}{d.hour:02d}{d.minute:02d}{d.second:02d}"


def date_oracle(mtime, now, now2, off):
    """the theorems' right-hand side, from datetime arithmetic only.
    -> (expected 14 digits or None inside the excluded window / outside the stated clock relation, region)"""
    local = naive(mtime + off)
    if now - SPEC_HALF + DAY < mtime <= now:
        if now <= now2 <= now + 3600:
            return fmt14(local, "minute"), "recent"
        return None, "recent-clock-outside"
    if mtime <= now - SPEC_HALF or mtime > now:
        return fmt14(local, "day"), "old" if mtime <= now else "future"
    return None, "window"


# --------------------------------------------------------------------------------------------
# running the real code
class TimeProxy:
    """stands for the `time` module inside aioftp.server: time() is the harness clock"""

    def __init__(self):
        self.now = 0

    def time(self):
        return self.now

    def __getattr__(self, k):
        return getattr(real_time, k)


class FakeDateTime(datetime.datetime):
    _now = None

    @classmethod
    def now(cls, tz=None):
        return cls._now


class DateTimeProxy:
    """stands for the `datetime` module inside aioftp.client: datetime.now() is the harness clock"""

    datetime = FakeDateTime

    def __getattr__(self, k):
        return getattr(datetime, k)


def install_clocks():
    import aioftp.client
    import aioftp.server

    tp = TimeProxy()
    aioftp.server.time = tp
    aioftp.client.datetime = DateTimeProxy()
    return tp


def set_client_now(d):
    FakeDateTime._now = FakeDateTime(d.year, d.month, d.day, d.hour, d.minute, d.second, d.microsecond)


ERR = {ValueError: 1, KeyError: 2, IndexError: 3}


def err_tag(e):
    for k, v in ERR.items():
        if type(e) is k or (isinstance(e, k) and type(e).__module__ == "builtins"):
            return v
    return 90


def impl_build_list_mtime(mtime, now):
    import aioftp

    return aioftp.Server.build_list_mtime(mtime, now)


def impl_parse_ls_date(s, now_dt):
    import aioftp

    try:
        return aioftp.Client.parse_ls_date(s, now=now_dt)
    except ValueError:
        return None


class StubPathIO:
    def __init__(self, stats, kind):
        self.stats, self.kind = stats, kind

    async def exists(self, p):
        return self.stats is not None

    async def stat(self, p):
        return self.stats

    async def is_file(self, p):
        return self.kind == 0

    async def is_dir(self, p):
        return self.kind == 1


class StubConn:
    def __init__(self, stats, kind):
        self.path_io = StubPathIO(stats, kind)


def mkstats(size, ctime, mtime, nlink, mode):
    import aioftp

    return aioftp.MemoryPathIO.Stats(size, ctime, mtime, nlink, mode)


BASE = pathlib.PurePosixPath("/base")


def run_coro(c):
    try:
        c.send(None)
    except StopIteration as e:
        return e.value
    raise RuntimeError("coroutine suspended")


def impl_build_mlsx(server, stats, kind, name):
    return run_coro(server.build_mlsx_string(StubConn(stats, kind), BASE / name))


def impl_build_list(server, tp, now, stats, name):
    tp.now = now
    return run_coro(server.build_list_string(StubConn(stats, 0), BASE / name))


class StubMlstConn:
    """what Server.mlst needs of a connection: path_io, a response() sink; get_paths is stubbed on the server"""

    def __init__(self, stats, kind):
        self.path_io = StubPathIO(stats, kind)
        self.out = []

    def response(self, code, lines, list_mode=False):
        self.out.append((code, list(lines), list_mode))


def impl_mlst_lines(server, stats, kind, name):
    """the body of the REAL Server.mlst (decorators stripped via __wrapped__): the reply it hands to response()"""
    import aioftp

    f = aioftp.Server.mlst
    while hasattr(f, "__wrapped__"):
        f = f.__wrapped__
    conn = StubMlstConn(stats, kind)
    old = server.get_paths
    server.get_paths = lambda c, rest: (BASE / name, pathlib.PurePosixPath("/") / name)
    try:
        run_coro(f(server, conn, name))
    finally:
        server.get_paths = old
    code, lines, lm = conn.out[0]
    return (code, lm), lines


def canon_info(path, info):
    return [
        str(path),
        info.get("type"),
        info.get("unix.mode"),
        info.get("unix.links"),
        info.get("unix.owner"),
        info.get("unix.group"),
        info.get("size"),
        info.get("modify"),
        info.get("link_dst"),
    ]


def impl_parse_list_unix(client, line, now_dt):
    set_client_now(now_dt)
    try:
        p, info = client.parse_list_line_unix(line.encode("utf-8"))
    except (ValueError, KeyError, IndexError) as e:
        return ["err", err_tag(e)]
    return ["ok", canon_info(p, info)]


def impl_parse_list(client, line, now_dt):
    """the whole parser chain, as Client.list() uses it"""
    set_client_now(now_dt)
    try:
        p, info = client.parse_list_line(line.encode("utf-8"))
    except ValueError as e:
        return ["err", 1]
    return ["ok", canon_info(p, info)]


def model_list_result(m):
    from .. import sx

    if m[0] == -1:
        return ["err", m[1]]
    v = m[1]
    name = str(pathlib.PurePosixPath(sx.txt(v[0])))
    return [
        "ok",
        [name, sx.txt(v[1]), v[2], sx.txt(v[3]), sx.txt(v[4]), sx.txt(v[5]), sx.txt(v[6]), sx.txt(v[7]),
         sx.txt(v[8][0]) if v[8] else None],
    ]


class FakeStream:
    """a data stream that hands out the given lines, then EOF"""

    def __init__(self, lines):
        self.lines = list(lines)

    async def readline(self):
        return self.lines.pop(0) if self.lines else b""

    async def finish(self, *a, **k):
        return None


def impl_client_list(client, lines, raw, now_dt, mlsd_50x=False):
    """the REAL Client.list() loop (AsyncLister, parser chain, '.'/'..' skip, MLSD->LIST fallback) over the
    given data lines; only get_stream is stubbed. -> ('ok', cmd used, [(path, info)]) | ('err', tag) | ('status',)"""
    import aioftp

    set_client_now(now_dt)
    used = []

    async def get_stream(command, *a, **k):
        used.append(command.split(" ")[0])
        if command.startswith("MLSD") and mlsd_50x:
            raise aioftp.StatusCodeError(aioftp.Code("1xx"), aioftp.Code("502"), ["not implemented"])
        return FakeStream([l.encode("utf-8") + b"\r\n" for l in lines])

    client.get_stream = get_stream
    try:
        got = run_coro(client.list("d", raw_command=raw)._to_list())
    except aioftp.StatusCodeError:
        return ("status", used)
    except (ValueError, KeyError, IndexError) as e:
        return ("err", err_tag(e), used)
    except Exception as e:  # noqa: BLE001 - whatever else the implementation raises is an observation, not a harness failure
        return ("exc", type(e).__name__ + ": " + str(e)[:120], used)
    finally:
        del client.get_stream
    return ("ok", used, got)


def impl_client_stat_mlst(client, info):
    """the REAL Client.stat() on a given MLST reply (info lines); only command() is stubbed"""
    import aioftp

    async def command(*a, **k):
        return aioftp.Code("250"), list(info)

    client.command = command
    try:
        return ["ok", list(run_coro(client.stat("d/x")).items())]
    except (ValueError, KeyError, IndexError) as e:
        return ["err", err_tag(e)]
    finally:
        del client.command


# --------------------------------------------------------------------------------------------
# case generation
def ymd(y, m, d, h=0, mi=0, s=0):
    return calendar.timegm((y, m, d, h, mi, s))


def anchors(years):
    out = []
    for y in years:
        out.append(ymd(y, 1, 1))
        out.append(ymd(y, 2, 28))
        out.append(ymd(y, 2, 29) if calendar.isleap(y) else ymd(y, 3, 1) - 1)
        out.append(ymd(y, 3, 1))
        out.append(ymd(y, 1, 1) + SPEC_HALF)
        out.append(ymd(y, 12, 31, 23, 59, 0))
        out.append(ymd(y, 2, 29, 12, 30) if calendar.isleap(y) else ymd(y, 2, 28, 12, 30))
    return out


def gen_date_cases(rng, thorough):
    years = [1999, 2000, 2001, 2023, 2024, 2025, 1900, 1901, 2100, 2101, 2400, 1972, 2096, 2104]
    if not thorough:
        years = years[:10]
    A = anchors(years)
    wrong_year_edge = 365 * DAY - SPEC_HALF  # age above which now.year-based inference flips
    rels = [0, -SPEC_HALF, -SPEC_HALF + DAY, -wrong_year_edge, -(366 * DAY - SPEC_HALF), -SPEC_HALF - DAY]
    cases = []
    kinds = {}

    def add(kind, mtime, now, skew):
        if MIN_E <= mtime <= MAX_E and MIN_E <= now <= MAX_E - 4000:
            cases.append((mtime, now, now + skew))
            kinds[kind] = kinds.get(kind, 0) + 1

    for a in A:
        for d1 in DELTAS:
            now = a + d1
            for rel in rels:
                for d2 in DELTAS:
                    sk = SKEWS if thorough else [rng.choice(SKEWS), rng.choice([0, 3600])]
                    for s in sk:
                        add("now@anchor,mtime@now%+d" % rel, now + rel + d2, now, s)
            # mtime at another anchor within (now - 1.2 y, now + 0.3 y)
            near = [b for b in A if now - 38000000 < b < now + 9000000]
            for b in near:
                for d2 in DELTAS if thorough else rng.sample(DELTAS, 4):
                    add("now@anchor,mtime@anchor", b + d2, now, rng.choice(SKEWS))
    # mtime at an anchor, now sweeping the following 13 months in boundary-centred steps
    for b in A:
        for k in range(0, 400 if thorough else 120):
            now = b + rng.randrange(0, 400 * DAY)
            add("mtime@anchor,now-random", b + rng.choice(DELTAS), now, rng.choice(SKEWS))
        for d1 in DELTAS:
            for edge in (SPEC_HALF, SPEC_HALF - DAY, wrong_year_edge):
                add("mtime@anchor,now@mtime+edge", b, b + edge + d1, rng.choice(SKEWS))
    # uniform over decades, minute granularity and arbitrary seconds
    n = 60000 if thorough else 12000
    for _ in range(n):
        y0 = rng.choice([1970, 1980, 1990, 2000, 2010, 2020, 2030, 2040, 2090, 1900, 1600, 1000, 5000, 9990])
        now = ymd(y0, 1, 1) + rng.randrange(0, 3653 * DAY)
        r = rng.random()
        if r < 0.5:
            mtime = now - rng.randrange(0, 2 * SPEC_HALF)
        elif r < 0.6:
            mtime = now + rng.randrange(1, 400 * DAY)
        elif r < 0.8:
            mtime = now - SPEC_HALF + rng.randrange(-2 * DAY, 2 * DAY)
        else:
            mtime = now - rng.randrange(0, 40 * 366 * DAY)
        if rng.random() < 0.5:
            mtime -= mtime % 60
        add("uniform-decades", mtime, now, rng.choice(SKEWS))
    return cases, kinds


NAME_ALPHA = ["a", "b", "Z", "0", "7", " ", " ", "-", ">", ";", "=", '"', "'", ".", "é", "٣", "\t", "\\", "%", "　", "T", "y", ":", "/"]
SPECIAL_NAMES = ["a", "file.txt", "a b", "a  b", " a", "  lead", "\ta", "a -> b", "-> x", "Type=dir;", "a;b=c", "-rw-r--r--", "1 none none 5", "Feb 29 12:30", "Jan  1  2020 x", "...", "..a", "é٣", "　wide", "12:30", "x" * 40, '"q"', "a'"]


def gen_name(rng):
    r = rng.random()
    if r < 0.4:
        return rng.choice(SPECIAL_NAMES)
    n = rng.randint(1, 8)
    s = "".join(rng.choice(NAME_ALPHA) for _ in range(n)).replace("/", "_")
    s = s.rstrip()
    if s in ("", ".", ".."):
        s = "n" + s
    return s


def gen_mode(rng):
    ft = rng.choice([0o100000, 0o100000, 0o040000, 0o040000, 0o120000, 0o060000, 0o020000, 0o010000, 0o140000, 0, 0o170000])
    r = rng.random()
    if r < 0.4:
        perm = rng.choice([0o644, 0o755, 0o666, 0o777, 0o600, 0o000, 0o444, 0o711])
    elif r < 0.7:
        perm = rng.randrange(0, 512)
    else:
        perm = rng.randrange(0, 4096)
    return ft | perm


def mutate(rng, s, alpha):
    s = list(s)
    for _ in range(rng.choice([1, 1, 1, 2, 3])):
        op = rng.random()
        i = rng.randrange(0, len(s) + 1)
        if op < 0.35 and s:
            del s[min(i, len(s) - 1)]
        elif op < 0.7:
            s.insert(i, rng.choice(alpha))
        elif s:
            s[min(i, len(s) - 1)] = rng.choice(alpha)
    return "".join(s)


DATE_ALPHA = list("0123456789") + [" ", " ", ":", "J", "a", "n", "F", "e", "b", "2", "9", "٣", "١", "\t", "　", "ſ", "M", "A", "Y", "x", "-", "\n"]
DATE_SPECIALS = [
    "", "Feb 29", "Feb 29 12:30", "Feb 29  2020", "Feb 29  2021", "feb 29 12:30", "FEB 29 12:30", "Feb 30 12:30", "Feb  29 12:30",
    "Jan 1 0:0", "Jan 01 00:00", "Jan  1 24:00", "Jan  1 23:60", "Jan 32 10:00", "Jan 0 10:00", "Jan 00 10:00", "Apr 31 10:00",
    "Jun 31  2020", "Jan 1 2020", "Jan  1  202", "Jan  1  20200", "Jan  1  0000", "Jan  1  0001", "Dec 31  9999", "Jan\t1\t10:00",
    "Jan 1  10:00", "Jan 123:45", "Jan 1 123:45", "Jan 1 1:2:3", "ſep  1 10:00", "Sep  1 10:00 ", " Sep  1 10:00", "sEP 1 10:00",
    "Jan ١٢ ١٠:٣٠", "Jan 1٢ 1٠:3٠", "Jan  1  ٢٠٢٠", "Jan 31 10:00", "Feb 28 23:59", "Feb 29 00:00", "Feb 29 23:59", "Mar  1 00:00",
    "Janu 1 10:00", "Ja 1 10:00", "Jan1 10:00", "Jan 110:00", "Jan 1 10:000", "Jan 1 10:0", "Jan 1 7:05", "Feb 29 7:05", "Feb 29 12:3",
    "Feb 2912:30", "Feb 29 12:30 x", "Feb 29　12:30",
]


# --------------------------------------------------------------------------------------------
def tz_worker():
    """subprocess body: run the TZ-dependent real functions in another zone. stdin: JSON list of
    [mtime, now]; stdout: JSON list of [build_list_mtime, _format_mlsx_time]"""
    zone = sys.argv[2]
    os.environ["TZ"] = zone
    real_time.tzset()
    import aioftp

    out = []
    for row in json.load(sys.stdin):
        mtime, now = row[0], row[1]
        try:
            a, b = aioftp.Server.build_list_mtime(mtime, now), aioftp.Server._format_mlsx_time(mtime)
        except Exception as e:  # an exception of the (mutated) implementation is an observation
            a, b = "!" + repr(e), "!" + repr(e)
        o = [a, b, list(real_time.localtime(mtime)[:6])]
        if len(row) > 2:
            o.append(list(real_time.localtime(row[2])[:6]))
        out.append(o)
    json.dump(out, sys.stdout)


def run_tz_worker(zone, pairs):
    env = dict(os.environ)
    env["TZ"] = zone
    p = subprocess.run(
        [sys.executable, "-m", "harness.props.c07", "--tzworker", zone],
        input=json.dumps(pairs), stdout=subprocess.PIPE, stderr=subprocess.PIPE, text=True, timeout=900, env=env,
        cwd=str(pathlib.Path(__file__).resolve().parent.parent.parent),
    )
    if p.returncode != 0:
        raise RuntimeError("tz worker failed: " + p.stderr[-800:])
    return json.loads(p.stdout)


# --------------------------------------------------------------------------------------------
# zones with DST (POSIX TZ strings: no tzdata needed): the offset at mtime and at "now" may differ
DST_ZONES = ["CET-1CEST,M3.5.0,M10.5.0/3", "EST5EDT,M3.2.0,M11.1.0", "AEST-10AEDT,M10.1.0,M4.1.0/3"]


def dst_transitions(zone, years):
    """UTC instants (to the second) at which the zone's offset changes, found by asking the zone itself"""
    grid = []
    for y in years:
        t0 = ymd(y, 1, 1)
        grid += list(range(t0, ymd(y + 1, 1, 1), 3600))
    out = run_tz_worker(zone, [[t, t] for t in grid])
    offs = [calendar.timegm(tuple(o[2]) + (0, 0, 0)) - t for t, o in zip(grid, out)]
    return [grid[i] for i in range(1, len(grid)) if offs[i] != offs[i - 1]]


def gen_dst_cases(rng, trans, thorough):
    cases = []
    d_now = [-7200, -3600, -1, 0, 1, 600, 1800, 3599, 3600, 3601, 5400, 7200, DAY]
    d_age = [0, 1, 60, 1200, 1800, 3540, 3599, 3600, 3660, 7140, 7200, DAY, 30 * DAY]
    for T in trans:
        for dn in d_now:
            now = T + dn
            for age in d_age + [SPEC_HALF - DAY - 1, SPEC_HALF - DAY - 3601, SPEC_HALF, SPEC_HALF + 3600, -60, -3600, -DAY]:
                for sk in (SKEWS if thorough else [0, rng.choice(SKEWS)]):
                    cases.append((now - age, now, now + sk))
            for dm in (-3599, -1800, -1, 0, 1, 1800, 3599):
                cases.append((T + dm, now, now + rng.choice(SKEWS)))
        for _ in range(40 if thorough else 10):  # a file from around the other transition, listed around this one
            o = rng.choice(trans)
            cases.append((o + rng.randrange(-7200, 7200), T + rng.randrange(-7200, 7200), T + 7200 + rng.choice(SKEWS)))
    return [(m, n, n2) for m, n, n2 in cases if n <= n2]


def check_dates_dst(ctx, zone, cases):
    """the (mtime, now, client now) plane in a zone with DST: the real formatter runs under TZ=zone in a subprocess, which
    also reports the zone's wall clock of mtime and of the client's now; oracle = that wall clock to the format's precision"""
    from .. import sx

    H, T = (as_int(x) for x in consts())
    out = run_tz_worker(zone, [[m, n, n2] for m, n, n2 in cases])
    offs_m = [calendar.timegm(tuple(o[2]) + (0, 0, 0)) - m for (m, _, _), o in zip(cases, out)]
    mo = ctx.model([(10, [H, om, m, n]) for (m, n, _), om in zip(cases, offs_m)])
    nows = [datetime.datetime(*o[3]) for o in out]
    strs = [o[0] for o in out]
    res = [impl_parse_ls_date(s_, d) if not s_.startswith("!") else None for s_, d in zip(strs, nows)]
    mo2 = ctx.model([(11, [H, T, s_, dt6(d)]) for s_, d in zip(strs, nows)])
    regions, nshift = {}, 0
    for (m, n, n2), o, om, s_, d, r, ms, mp in zip(cases, out, offs_m, strs, nows, res, mo, mo2):
        ctx.case(("date-dst", zone, m, n, n2))
        ctx.traces_impl += 1
        on = calendar.timegm(tuple(o[3]) + (0, 0, 0)) - n2
        nshift += on != om
        if sx.txt(ms) != s_:
            ctx.disagree("build_list_mtime/" + zone, {"mtime": m, "now": n, "offset_at_mtime": om}, sx.txt(ms), s_)
        mr = sx.txt(mp[0]) if mp else None
        if not s_.startswith("!") and mr != r:
            ctx.disagree("parse_ls_date/" + zone, {"s": s_, "now": dt6(d)}, mr, r)
        local = datetime.datetime(*o[2])
        if n - SPEC_HALF + DAY < m <= n:
            want, region = (fmt14(local, "minute"), "recent") if n <= n2 <= n + 3600 else (None, "recent-clock-outside")
        elif m <= n - SPEC_HALF or m > n:
            want, region = fmt14(local, "day"), "old" if m <= n else "future"
        else:
            want, region = None, "window"
        regions[region] = regions.get(region, 0) + 1
        if want is not None and r != want:
            ctx.violation(
                f"LIST date under TZ={zone}: parse(format(mtime, now), now') = {r} but the backend's mtime gives {want} ({region})",
                {"key": "c07-ls-date-dst", "mtime": m, "now": n, "client_now": n2, "zone": zone, "formatted": s_, "parsed": r,
                 "expected": want, "region": region, "offset_at_mtime": om, "offset_at_client_now": on},
            )
        w14 = fmt14(naive(m), "second")
        if o[1] != w14:
            ctx.violation("MLSx time is not the UTC time of the backend's mtime",
                          {"key": "c07-mlsx-time", "mtime": m, "zone": zone, "got": o[1], "expected": w14})
    for k, v in regions.items():
        ctx.count(f"dates[dst {zone}]:region={k}", v)
    ctx.count(f"dates[dst {zone}]:offset at mtime != offset at client now", nshift)


# --------------------------------------------------------------------------------------------
def consts():
    import aioftp.common as c

    half, two = c.HALF_OF_YEAR_IN_SECONDS, c.TWO_YEARS_IN_SECONDS
    return half, two


def as_int(x):
    """constants go to the model as integers; a non-integral constant breaks the tie on purpose"""
    return int(x)


def check_dates(ctx, cases, kinds, off, zone_out=None, tag="utc"):
    """the (mtime, now, now2) plane: server formatter, client parser, oracle.
    zone_out: outputs of the real formatter computed in another zone (subprocess)"""
    from .. import sx

    half, two = consts()
    H, T = as_int(half), as_int(two)
    # 1. server side
    if zone_out is None:
        strs = [impl_build_list_mtime(m, n) for m, n, _ in cases]
    else:
        strs = [o[0] for o in zone_out]
    mo = ctx.model([(10, [H, off, m, n]) for m, n, _ in cases])
    for (m, n, n2), s, o in zip(cases, strs, mo):
        if sx.txt(o) != s:
            ctx.disagree("build_list_mtime/" + tag, {"mtime": m, "now": n, "off": off}, sx.txt(o), s)
    # 2. client side on the real strings
    nows = [naive(n2 + off) for _, _, n2 in cases]
    res = [impl_parse_ls_date(s, d) for s, d in zip(strs, nows)]
    mo2 = ctx.model([(11, [H, T, s, dt6(d)]) for s, d in zip(strs, nows)])
    regions = {}
    wrong_in_window = 0
    for (m, n, n2), s, d, r, o in zip(cases, strs, nows, res, mo2):
        ctx.case(("date", tag, m, n, n2))
        ctx.traces_impl += 1
        mr = sx.txt(o[0]) if o else None
        if mr != r:
            ctx.disagree("parse_ls_date/" + tag, {"s": s, "now": dt6(d)}, mr, r)
        want, region = date_oracle(m, n, n2, off)
        regions[region] = regions.get(region, 0) + 1
        if want is None:
            if region == "window" and r is not None and r[:4] != f"{naive(m + off).year:04d}":
                wrong_in_window += 1
            continue
        if r != want:
            ctx.violation(
                f"LIST date: parse(format(mtime, now), now') = {r} but the backend's mtime gives {want} ({region})",
                {"key": "c07-ls-date", "mtime": m, "now": n, "client_now": n2, "off": off, "zone": tag,
                 "formatted": s, "parsed": r, "expected": want, "region": region},
            )
    for k, v in kinds.items():
        ctx.count(f"dates[{tag}]:{k}", v)
    for k, v in regions.items():
        ctx.count(f"dates[{tag}]:region={k}", v)
    ctx.count(f"dates[{tag}]:wrong-year-inside-window", wrong_in_window)
    return list(zip(cases[:3], strs[:3], res[:3]))


def correspondence(ctx, budget=None):
    import aioftp
    from .. import core, sx

    rng = ctx.rng
    thorough = ctx.tier == "thorough" or budget is not None
    tp = install_clocks()
    half, two = consts()
    H, T = as_int(half), as_int(two)
    if H != half or T != two:
        ctx.obligation_broken("constants", f"HALF_OF_YEAR_IN_SECONDS={half!r} TWO_YEARS_IN_SECONDS={two!r} are not integers")
    server = aioftp.Server()
    client = aioftp.Client()
    xcheck = []
    ctx.extra["rule"] = (
        "streams: (a) calendar: epoch seconds at every anchor (New Year, Feb 28/29/Mar 1, Dec 31 of leap/non-leap/century "
        "years) +-{0,1,59,60,86400} and uniform over years 1..9999 against time.gmtime/calendar.timegm/date.toordinal; "
        "(b) the (mtime, now, client now) plane: now at every anchor+-delta with mtime at now-{0, HALF, HALF-1d, 365d-HALF, "
        "366d-HALF, HALF+1d}+-delta and at every other anchor+-delta, mtime at anchors with now sweeping 13 months, uniform decades; "
        "skews {0,1,59,60,3599,3600} s; TZ=UTC in-process and two fixed-offset zones in subprocesses; (c) strptime and "
        "parse_ls_date on mutated/malformed date strings (Unicode digits and spaces, case, missing fields); (d) MLSx build/parse on "
        "generated entries and malformed lines; (e) LIST build/parse incl. every file type and all 4096 permission values, link lines, "
        "malformed lines; (f) wire-level sessions on simnet: real Server+Client, MemoryPathIO/PathIO/AsyncPathIO (disk trees with os.utime mtimes, chmod), "
        "MLSD, LIST, the fallback from a server answering 502, stat() over MLST and over the fallback, each compared with the backend's truth (oracle) "
        "and with the model pipeline; (g) the real Client.list loop / parser chain / Client.stat glue on stubbed streams. "
        "A case is non-trivial when its input is distinct (hash)."
    )

    _t_mark(ctx, "a-calendar")
    # ---------------- (a) calendar
    es = []
    for a in anchors([1, 4, 100, 400, 1000, 1582, 1600, 1900, 1904, 1969, 1970, 1972, 2000, 2001, 2023, 2024, 2038, 2100, 2400, 9996, 9999]):
        for d in DELTAS:
            es.append(a + d)
    lo, hi = ymd(1, 1, 1), ymd(9999, 12, 31, 23, 59, 59)
    es = [e for e in es if lo <= e <= hi]
    for _ in range(40000 if thorough else 8000):
        es.append(rng.randrange(lo, hi + 1))
    for _ in range(2000):
        es.append(rng.randrange(-(10**12), 10**12))
    mo = ctx.model([(0, [e]) for e in es])
    back = ctx.model([(1, [m]) for m in mo])
    for e, m, b in zip(es, mo, back):
        ctx.case(("civil", e))
        g = real_time.gmtime(e)
        if list(g[:6]) != m:
            ctx.disagree("civil_of_epoch", e, m, list(g[:6]))
        if b != e:
            ctx.disagree("epoch_of_civil", m, b, e)
        if lo <= e <= hi:
            if calendar.timegm(g) != b:
                ctx.disagree("epoch_of_civil", m, b, calendar.timegm(g))
            d = naive(e)
            if dt6(d) != list(g[:6]):
                ctx.disagree("datetime-vs-gmtime", e, dt6(d), list(g[:6]))
    ctx.count("civil:epochs", len(es))
    xcheck += [(0, [e], m) for e, m in list(zip(es, mo))[:12]]
    ys = list(range(1, 420)) + [rng.randrange(1, 10000) for _ in range(300)] + [1900, 2000, 2100, 2400, 9999]
    lm = ctx.model([(4, [y, m]) for y in ys for m in range(1, 13)])
    i = 0
    for y in ys:
        for m in range(1, 13):
            ctx.case(("leap", y, m))
            want = [1 if calendar.isleap(y) else 0, calendar.monthrange(y, m)[1]]
            if lm[i] != want:
                ctx.disagree("is_leap/days_in_month", [y, m], lm[i], want)
            i += 1
    dcs = [(rng.randrange(1, 10000), rng.randrange(1, 13), rng.randrange(1, 29)) for _ in range(3000)]
    dm = ctx.model([(2, list(c)) for c in dcs])
    for c, o in zip(dcs, dm):
        ctx.case(("dfc", c))
        want = datetime.date(*c).toordinal() - 719163
        if o != want:
            ctx.disagree("days_from_civil", c, o, want)
    ctx.count("civil:leap/month-length pairs", len(ys) * 12)
    ctx.count("civil:days_from_civil", len(dcs))

    _t_mark(ctx, "b-dates")
    # ---------------- (b) the date plane, UTC
    cases, kinds = gen_date_cases(rng, thorough)
    smp = check_dates(ctx, cases, kinds, 0)
    for c, s, r in smp:
        ctx.sample({"stream": "dates", "mtime": c[0], "now": c[1], "client_now": c[2], "formatted": s, "parsed": r})
    xcheck += [(10, [H, 0, m, n], o) for (m, n, _), o in zip(cases[:6], ctx.model([(10, [H, 0, m, n]) for m, n, _ in cases[:6]]))]
    # fractional clocks / mtimes: oracle only (the model is integral)
    nfrac = 0
    for m, n, n2 in rng.sample(cases, min(len(cases), 3000)):
        fm, fn = m + rng.choice([rng.random(), 0.9999997, 0.5, 0.999, 1e-6]), n + rng.choice([rng.random(), 0.9999997, 0.0])
        if not (fn - SPEC_HALF + DAY < fm <= fn or fm <= fn - SPEC_HALF or fm > fn):
            continue
        s = impl_build_list_mtime(fm, fn)
        d = naive(n2 + 1) + datetime.timedelta(microseconds=rng.randrange(0, 10**6))
        r = impl_parse_ls_date(s, d)
        local = naive(m)
        want = fmt14(local, "minute") if fn - SPEC_HALF + DAY < fm <= fn else fmt14(local, "day")
        ctx.case(("datefrac", fm, fn))
        nfrac += 1
        if r != want:
            ctx.violation("LIST date with fractional clocks differs from the backend's mtime",
                          {"key": "c07-ls-date", "mtime": fm, "now": fn, "client_now": n2 + 1, "off": 0, "formatted": s,
                           "parsed": r, "expected": want, "region": "fractional"})
    ctx.count("dates[utc]:fractional-clock (oracle only)", nfrac)

    _t_mark(ctx, "b2-fixed-offset-zones")
    # other zones (subprocess): formatter under TZ, parser with the client's naive local now
    for zone, off in ZONES:
        sub = rng.sample(cases, min(len(cases), 30000 if thorough else 6000))
        try:
            out = run_tz_worker(zone, [[m, n] for m, n, _ in sub])
        except Exception as e:  # no tzdata etc.: recorded, not silently skipped
            ctx.obligation_broken("tz-worker", f"{zone}: {e!r}")
            continue
        check_dates(ctx, sub, {"sampled-from-utc-stream": len(sub)}, off, zone_out=out, tag=zone)
        # MLSx time must not depend on the zone
        mo = ctx.model([(12, [m]) for m, _, _ in sub[:3000]])
        for (m, _, _), o, w in zip(sub, mo, out):
            want = fmt14(naive(m), "second")
            if sx.txt(o) != w[1]:
                ctx.disagree("_format_mlsx_time/" + zone, m, sx.txt(o), w[1])
            if w[1] != want:
                ctx.violation("MLSx time is not the UTC time of the backend's mtime",
                              {"key": "c07-mlsx-time", "mtime": m, "zone": zone, "got": w[1], "expected": want})

    _t_mark(ctx, "b3-dst-zones")
    # zones with DST: around every transition of several years (the offset at mtime and at "now" differ)
    for zone in DST_ZONES if thorough else DST_ZONES[:2]:
        try:
            trans = dst_transitions(zone, [2019, 2024] if not thorough else [2019, 2023, 2024, 2025])
            if not trans:
                raise RuntimeError("no offset change found: the C library ignores POSIX TZ rules?")
            check_dates_dst(ctx, zone, gen_dst_cases(rng, trans, thorough))
        except Exception as e:
            ctx.obligation_broken("tz-worker-dst", f"{zone}: {e!r}")

    _t_mark(ctx, "c-strptime")
    # ---------------- (c) strptime / parse_ls_date on malformed strings
    fmts = {1: "%b %d %H:%M", 2: "%Y %b %d %H:%M", 3: "%b %d  %Y"}
    valid_strs = [s for _, s, _ in smp] + [impl_build_list_mtime(m, n) for m, n, _ in rng.sample(cases, 300)]
    strs = list(DATE_SPECIALS)
    for _ in range(12000 if thorough else 3000):
        strs.append(mutate(rng, rng.choice(valid_strs + DATE_SPECIALS), DATE_ALPHA))
    sp_cases = []
    for s in strs:
        for k in (1, 2, 3):
            sp_cases.append((k, s if k != 2 else rng.choice(["2024 ", "1900 ", "996 ", "0 ", "2023 "]) + s))
    mo = ctx.model([(13, [k, s]) for k, s in sp_cases])
    nok = 0
    for (k, s), o in zip(sp_cases, mo):
        ctx.case(("strptime", k, s))
        try:
            d = datetime.datetime.strptime(s, fmts[k])
            im = dt6(d)
            nok += 1
        except ValueError:
            im = None
        mm = o[0] if o else None
        if mm != im:
            ctx.disagree("strptime", [fmts[k], s], mm, im)
    ctx.count("strptime:strings x3 formats", len(sp_cases))
    ctx.count("strptime:accepted", nok)
    xcheck += [(13, [k, s], o) for (k, s), o in list(zip(sp_cases, mo))[:15]]
    pl_cases = []
    for s in strs:
        n2 = rng.choice(cases)[2] if rng.random() < 0.7 else ymd(rng.choice([1, 3, 4, 5, 1896, 1900, 1903, 1904, 2096, 2100, 2103, 9996, 9999]), rng.randrange(1, 13), 15)
        pl_cases.append((s, naive(n2)))
    mo = ctx.model([(11, [H, T, s, dt6(d)]) for s, d in pl_cases])
    nerr = 0
    for (s, d), o in zip(pl_cases, mo):
        ctx.case(("plsd", s, d))
        ctx.traces_impl += 1
        r = impl_parse_ls_date(s, d)
        nerr += r is None
        mr = sx.txt(o[0]) if o else None
        if mr != r:
            ctx.disagree("parse_ls_date/malformed", {"s": s, "now": dt6(d)}, mr, r)
    ctx.count("parse_ls_date:malformed strings", len(pl_cases))
    ctx.count("parse_ls_date:ValueError", nerr)
    xcheck += [(11, [H, T, s, dt6(d)], o) for (s, d), o in list(zip(pl_cases, mo))[:15]]

    _t_mark(ctx, "d-mlsx")
    # ---------------- (d) MLSx
    ents = []
    for _ in range(8000 if thorough else 2500):
        name = gen_name(rng)
        size = rng.choice([0, 1, 9, 10, 2**31, 2**32, 2**40, rng.randrange(0, 2**40), rng.randrange(0, 5000)])
        mt = rng.choice(cases)[0] if rng.random() < 0.7 else rng.randrange(MIN_E, MAX_E)
        ct = mt - rng.randrange(0, 10**8) if rng.random() < 0.8 else rng.randrange(MIN_E, MAX_E)
        kind = rng.choice([0, 0, 1, 1, 2])
        exists = rng.random() < 0.95
        ents.append((name, size, max(ct, MIN_E), mt, kind, exists))
    mo = ctx.model([(20, [[sz, ct, mt, 1, 0] if ex else None, kind, name]) for name, sz, ct, mt, kind, ex in ents])
    lines = []
    for (name, sz, ct, mt, kind, ex), o in zip(ents, mo):
        ctx.case(("mlsx-build", name, sz, ct, mt, kind, ex))
        ctx.traces_impl += 1
        st = mkstats(sz, ct, mt, 1, 0) if ex else None
        line = impl_build_mlsx(server, st, kind, name)
        lines.append(line)
        if sx.txt(o) != line:
            ctx.disagree("build_mlsx_string", [name, sz, ct, mt, kind, ex], sx.txt(o), line)
    mal = ["", " ", "garbage", "Type=file;", "Type=file; ", "=;= x", ";;; x", "a=b;a=c;A=d; n", "Type=dir;Size=1 x y", "TYPE=File;sIZe=3; q ",
           "Size=1;Type=file;  two", "Type=file;\tn", "x=1=2;y; n", "ſ=1;K=2; n", "İ=1; n"]
    for _ in range(4000 if thorough else 1200):
        mal.append(mutate(rng, rng.choice(lines + mal[:15]), [";", "=", " ", "a", "T", "\t", "é", "İ", "\n", "\r", "="]))
    allp = [(l, True) for l in lines] + [(l, False) for l in mal]
    mo = ctx.model([(21, [l]) for l, _ in allp])
    nmlsx_err = 0
    for idx, ((l, gen), o) in enumerate(zip(allp, mo)):
        ctx.case(("mlsx-parse", l))
        ctx.traces_impl += 1
        try:
            p, entry = client.parse_mlsx_line(l)
            im = ["ok", str(p), list(entry.items())]
        except (ValueError, KeyError, IndexError) as e:
            p, entry = None, {}
            im = ["err", err_tag(e)]
        if o[0] == -1:
            mm = ["err", o[1]]
        else:
            mm = ["ok", str(pathlib.PurePosixPath(sx.txt(o[1][0]))), [(sx.txt(k), sx.txt(v)) for k, v in o[1][1]]]
        nmlsx_err += im[0] == "err"
        if mm != im:
            ctx.disagree("parse_mlsx_line", l, mm, im)
        if gen:
            name, sz, ct, mt, kind, ex = ents[idx]
            bad = []
            if p is None:
                bad.append("unparsable")
            elif str(p) != name:
                bad.append("name")
            if entry.get("type") != ["file", "dir", "unknown"][kind]:
                bad.append("type")
            if ex:
                if entry.get("size") != str(sz) or int(entry["size"]) != sz:
                    bad.append("size")
                if entry.get("modify") != fmt14(naive(mt), "second") or entry.get("create") != fmt14(naive(ct), "second"):
                    bad.append("time")
                else:
                    md = entry["modify"]
                    if calendar.timegm((int(md[:4]), int(md[4:6]), int(md[6:8]), int(md[8:10]), int(md[10:12]), int(md[12:14]))) != mt:
                        bad.append("time-inverse")
            if bad:
                ctx.violation(f"MLSx round trip loses {bad}",
                              {"key": "c07-mlsx-roundtrip", "name": name, "size": sz, "ctime": ct, "mtime": mt, "kind": kind,
                               "exists": ex, "line": l, "parsed": [str(p), dict(entry)]})
    ctx.count("mlsx:entries built+parsed", len(ents))
    ctx.count("mlsx:malformed lines", len(mal))
    ctx.count("mlsx:lines rejected with ValueError (no pathname)", nmlsx_err)
    ctx.sample({"stream": "mlsx", "line": lines[0]})
    xcheck += [(21, [l], o) for (l, _), o in list(zip(allp, mo))[:10]]

    # sub-second backend times (floats; a float is an exact rational): the facts are those of the FLOOR
    FRACS = [0.0, 1e-9, 1e-6, 0.25, 0.4999995, 0.5, 0.5000005, 0.75, 0.999, 0.999999, 0.9999994, 0.9999995, 0.9999996, 0.9999997, 0.99999999]
    fbases = [ymd(1999, 12, 31, 23, 59, 59), ymd(2024, 2, 29, 23, 59, 59), ymd(2023, 12, 31, 23, 59, 59), ymd(2024, 3, 31, 0, 59, 59),
              ymd(1970, 1, 1, 0, 0, 0), ymd(2038, 1, 19, 3, 14, 7), ymd(2100, 2, 28, 23, 59, 59), 59, 3599, 86399]
    fbases += [rng.choice(cases)[0] for _ in range(400 if thorough else 120)]
    floats = []
    for b in fbases:
        if b < 0:
            continue
        floats += [b + f for f in FRACS] + [math.nextafter(b + 1, 0), math.nextafter(b, math.inf), float(b)]
        floats += [b + rng.random() for _ in range(2)]
    # the model takes the float as the exact rational num/den (the driver's integers are 63 bits wide)
    floats = [x for x in floats if max(x.as_integer_ratio()) < 2**60]
    mo = ctx.model([(36, list(x.as_integer_ratio())) for x in floats])
    nsub = nlast = 0
    for x, o in zip(floats, mo):
        ctx.case(("mlsx-time-float", x.hex()))
        ctx.traces_impl += 1
        nsub += 1
        nlast += x - math.floor(x) >= 0.9999995
        want = fmt14(naive(math.floor(x)), "second")
        try:
            got = aioftp.Server._format_mlsx_time(x)
            line = impl_build_mlsx(server, mkstats(1, x, x, 1, 0), 0, "f")
            ent = client.parse_mlsx_line(line)[1]
            got2 = (ent.get("modify"), ent.get("create"))
        except Exception as e:  # noqa: BLE001 - observation
            got, got2 = "!" + repr(e)[:80], (None, None)
        if sx.txt(o) != got:
            ctx.disagree("_format_mlsx_time/float", x.hex(), sx.txt(o), got)
        if got != want or got2 != (want, want):
            ctx.violation(f"MLSx time of the backend time {x!r} ({x.hex()}) is {got} / facts {got2}, but its UTC second is {want} (floor)",
                          {"key": "c07-mlsx-time-subsecond", "mtime_hex": x.hex(), "mtime": repr(x), "got": got, "facts": list(got2), "expected": want})
    ctx.count("mlsx:sub-second backend times (floats)", nsub)
    ctx.count("mlsx:... with fractional part in [0.9999995, 1)", nlast)
    xcheck += [(36, list(x.as_integer_ratio()), o) for x, o in list(zip(floats, mo))[10:16]]

    _t_mark(ctx, "e-list")
    # ---------------- (e) LIST
    fm_modes = list(range(4096)) + [gen_mode(rng) for _ in range(500)] + [m << 12 for m in range(16)]
    mo = ctx.model([(25, [m]) for m in fm_modes])
    pm = ctx.model([(24, [stat_mod.filemode(m)[1:]]) for m in fm_modes])
    for m, o, o2 in zip(fm_modes, mo, pm):
        ctx.case(("filemode", m))
        fmode = stat_mod.filemode(m)
        if sx.txt(o) != fmode:
            ctx.disagree("filemode", m, sx.txt(o), fmode)
        try:
            im = ["ok", aioftp.Client.parse_unix_mode(fmode[1:])]
        except (ValueError, KeyError, IndexError) as e:
            im = ["err", err_tag(e)]
        mm = ["err", o2[1]] if o2[0] == -1 else ["ok", o2[1]]
        if mm != im:
            ctx.disagree("parse_unix_mode", fmode, mm, im)
    modestr = ["rwxr-xr-x", "rw-r--r--", "", "rwx", "rwxrwxrw", "rwsrwsrwt", "rwSrwSrwT", "r-xr-xr-x", "rwxrwxrwxx", "-w--w--w-", "rw?rw-rw-", "wr-rw-rw-"]
    for _ in range(1500):
        modestr.append(mutate(rng, rng.choice(modestr[:12]), list("rwx-sStT? ")))
    mo = ctx.model([(24, [s]) for s in modestr])
    for s, o in zip(modestr, mo):
        ctx.case(("pum", s))
        try:
            im = ["ok", aioftp.Client.parse_unix_mode(s)]
        except (ValueError, KeyError, IndexError) as e:
            im = ["err", err_tag(e)]
        mm = ["err", o[1]] if o[0] == -1 else ["ok", o[1]]
        if mm != im:
            ctx.disagree("parse_unix_mode", s, mm, im)
    ctx.count("list:filemode values", len(fm_modes))
    ctx.count("list:mode strings (malformed)", len(modestr))

    lents = []
    # former witnesses of F13b (repaired): set-uid / set-gid / sticky without the execute bit, files and directories
    wm, wn, wn2 = cases[0]
    for wmode in (0o104644, 0o102644, 0o101644, 0o107644, 0o104755, 0o041777, 0o041776, 0o046644, 0o100000 | 0o7000, 0o040000 | 0o7777):
        lents.append(("f", 5, wn - 100 if MIN_E <= wn - 100 else wm, wn, wn, wmode, 1))
    for _ in range(10000 if thorough else 3000):
        name = gen_name(rng)
        size = rng.choice([0, 1, 10, 2**32, 2**40, rng.randrange(0, 2**40), rng.randrange(0, 5000)])
        m, n, n2 = rng.choice(cases)
        mode = gen_mode(rng)
        if rng.random() < 0.6:
            mode = rng.choice([0o100000, 0o040000]) | (mode & 0o777)
        nlink = rng.choice([1, 1, 2, 10, 123456])
        lents.append((name, size, m, n, n2, mode, nlink))
    lmo = ctx.model([(22, [H, 0, n, [sz, 0, m, nl, mode], name]) for name, sz, m, n, n2, mode, nl in lents])
    llines = []
    for (name, sz, m, n, n2, mode, nl), o in zip(lents, lmo):
        ctx.case(("list-build", name, sz, m, n, mode, nl))
        ctx.traces_impl += 1
        line = impl_build_list(server, tp, n, mkstats(sz, 0, m, nl, mode), name)
        llines.append(line)
        if sx.txt(o) != line:
            ctx.disagree("build_list_string", [name, sz, m, n, mode, nl], sx.txt(o), line)
    ctx.sample({"stream": "list", "line": llines[0]})
    # parse: generated lines (oracle) + link lines + malformed
    extra = [
        "lrwxrwxrwx 1 none none 4 Jan  1 10:00 a -> b", "lrwxrwxrwx 1 none none 4 Jan  1 10:00 a -> b/", "lrwxrwxrwx 1 none none 4 Jan  1 10:00 a -> 'b/'",
        "lrwxrwxrwx 1 none none 4 Jan  1 10:00 a", "lrwxrwxrwx 1 none none 4 Jan  1 10:00 a -> ", "lrwxrwxrwx 1 none none 4 Jan  1 10:00 a -> '",
        "lrwxrwxrwx 1 none none 4 Jan  1 10:00 a -> b -> c", "lrwxrwxrwx 1 none none 4 Jan  1 10:00  -> x", "", " ", "-", "-rw-r--r--", "-rw-r--r-- 1",
        "-rw-r--r-- 1 none none 5 Jan  1 10:00", "-rw-r--r-- x none none 5 Jan  1 10:00 f", "-rw-r--r-- 1 none none x Jan  1 10:00 f",
        "-rw-r--r-- ١ none none ٥ Jan  1 10:00 f", "-rw-r--r-- ² none none 5 Jan  1 10:00 f", "-rw-r--r--   1   none   none   5   Jan  1 10:00   f",
        "drwxr-xr-x 2 none none 0 Feb 29 12:30 d", "drwxr-xr-x 2 none none 0 Feb 29  2020 d", "-rwSr--r-- 1 none none 5 Jan  1 10:00 f",
        "-rw-r--r-T 1 none none 5 Jan  1 10:00 f", "?rw-r--r-- 1 none none 5 Jan  1 10:00 f", "-rw-r--r--1 none none 5 Jan  1 10:00 f",
        "-rw-r--r-- 1 none none 5 Jan  1 10:00 f \r\n", "-rw-r--r--\t1\tnone\tnone\t5\tJan  1 10:00\tf", "-rw-r--r-- 1 none none 5 Jan  1  10000 f",
        "-rw-r--r-- 1 none none 5 Jan 1 10:00 f", "-rw-r--r-- 1 none none 5 Jan  1 10:00f",
    ]
    LIST_ALPHA = list("-rwxdl sStT0159") + [" ", ":", ">", "J", "a", "n", "٣", "\t", "none"]
    for _ in range(5000 if thorough else 1500):
        extra.append(mutate(rng, rng.choice(llines[:400] + extra[:30]), LIST_ALPHA))
    allp = [(l, i) for i, l in enumerate(llines)] + [(l, None) for l in extra]
    nows = [naive(lents[i][4]) if i is not None else naive(rng.choice(cases)[2]) for _, i in allp]
    mo = ctx.model([(23, [H, T, dt6(d), l]) for (l, _), d in zip(allp, nows)])
    nerr = 0
    st_known, lead_known, st_seen = 0, 0, 0
    for (l, i), d, o in zip(allp, nows, mo):
        ctx.case(("list-parse", l, d))
        ctx.traces_impl += 1
        im = impl_parse_list_unix(client, l, d)
        mm = model_list_result(o)
        nerr += im[0] == "err"
        if mm != im:
            ctx.disagree("parse_list_line_unix", {"line": l, "now": dt6(d)}, mm, im)
        if i is None:
            continue
        name, sz, m, n, n2, mode, nl = lents[i]
        fmode = stat_mod.filemode(mode)
        if fmode[0] not in "-d":
            continue  # the property speaks about files and directories
        if "S" in fmode or "T" in fmode:
            st_seen += 1
        full = impl_parse_list(client, l, d)
        want_date, region = date_oracle(m, n, n2, 0)
        bad = []
        if full[0] != "ok":
            bad.append("unparsable")
        else:
            v = full[1]
            if v[0] != name:
                bad.append("name")
            if v[1] != {"-": "file", "d": "dir"}[fmode[0]]:
                bad.append("type")
            if v[6] != str(sz):
                bad.append("size")
            if v[3] != str(nl):
                bad.append("links")
            perm = mode & 0o7777
            if v[2] != (perm - 1 if perm & 0o1001 == 0o1001 else perm):
                bad.append("mode")
            if want_date is not None and v[7] != want_date:
                bad.append("modify")
        if bad:
            if ("S" in fmode or "T" in fmode) and bad == ["unparsable"]:
                key = "c07-list-mode-S-or-T"  # F13b (repaired): unlisted, reported if it ever returns
                st_known += 1
            elif name != name.lstrip() and bad == ["name"]:
                key = "c07-list-name-leading-whitespace"
                lead_known += 1
            else:
                key = "c07-list-roundtrip"
            ctx.violation(f"LIST fallback round trip loses {bad} (mode {fmode}, name {name!r})",
                          {"key": key, "name": name, "size": sz, "mtime": m, "now": n, "client_now": n2, "mode": mode,
                           "nlink": nl, "line": l, "parsed": full})
    ctx.count("list:entries built+parsed", len(lents))
    ctx.count("list:link/malformed lines", len(extra))
    ctx.count("list:parser errors (any stream)", nerr)
    ctx.count("list:oracle hits on S/T modes (F13b, repaired: must be 0)", st_known)
    ctx.count("list:file/dir entries with S/T mode letters built+parsed", st_seen)
    ctx.count("list:oracle hits on leading-whitespace names (known finding)", lead_known)
    xcheck += [(23, [H, T, dt6(d), l], o) for (l, _), d, o in list(zip(allp, nows, mo))[:12]]
    xcheck += [(22, [H, 0, n, [sz, 0, m, nl, mode], name], o)
               for (name, sz, m, n, n2, mode, nl), o in zip(lents[:8], lmo[:8])]

    _t_mark(ctx, "g-glue")
    # ---------------- (g) the client's glue: Client.list() loop / parser chain / fallback, Client.stat() over MLST
    nglue = 0
    glue_client = aioftp.Client()
    dot_lines_list = ["drwxr-xr-x 2 none none 0 Jan  1 10:00 .", "drwxr-xr-x 2 none none 0 Jan  1 10:00 ..", "drwxr-xr-x 2 none none 0 Jan  1 10:00 ..."]
    dot_lines_mlsd = ["Type=dir; .", "Type=dir; ..", "Type=cdir; .", "Type=dir; ...", "Type=dir; .a", "x=1; .", "x=1; ..", "Type=file;", "Type=file; "]
    plan_cases = []
    for _ in range(600 if thorough else 200):
        k = rng.choice([0, 1, 2, 3, 5, 9])
        idx = [rng.randrange(len(llines)) for _ in range(k)]
        now_i = lents[idx[0]][4] if idx else rng.choice(cases)[2]
        batch = [llines[i] for i in idx]
        for _ in range(rng.choice([0, 0, 1, 2])):
            batch.insert(rng.randrange(len(batch) + 1), rng.choice(dot_lines_list))
        if rng.random() < 0.25:
            # a malformed line: only ones the Windows parser cannot read either (it needs a leading digit)
            bad = rng.choice(extra)
            if not bad.strip()[:1].isdigit() and impl_parse_list_unix(client, bad, naive(now_i))[0] == "err":
                batch.insert(rng.randrange(len(batch) + 1), bad)
        raw = rng.choice([None, "LIST", "LIST", "MLSD"])
        m50 = rng.random() < 0.5
        plan_cases.append((batch, raw, m50, naive(now_i)))
    mo_plan = ctx.model([(33, [{None: 0, "MLSD": 1, "LIST": 2}[raw], 1 if m50 else 0]) for _, raw, m50, _ in plan_cases])
    mo_list = ctx.model([(31, [H, T, dt6(d), batch]) for batch, _, _, d in plan_cases])
    for (batch, raw, m50, d), mp, ml in zip(plan_cases, mo_plan, mo_list):
        ctx.case(("glue-list", tuple(batch), raw, m50, d))
        ctx.traces_impl += 1
        nglue += 1
        r = impl_client_list(glue_client, batch, raw, d, mlsd_50x=m50)
        if r[0] == "exc":
            ctx.disagree("Client.list plan", [raw, m50], ["MLSD", "LIST", "StatusCodeError"][mp], list(r[:2]))
            continue
        if mp == 2:
            if r[0] != "status":
                ctx.disagree("Client.list plan", [raw, m50], "StatusCodeError", r[:2])
            continue
        if mp == 0:
            if r[0] == "status" or r[-2 if r[0] == "ok" else -1] != ["MLSD"]:
                ctx.disagree("Client.list plan", [raw, m50], "MLSD", r[:2])
            continue  # LIST lines through the MLSx parser: covered by stream (d)
        want_used = ["LIST"] if raw == "LIST" else ["MLSD", "LIST"]
        used = r[1] if r[0] in ("ok", "status") else r[2]
        if used != want_used:
            ctx.disagree("Client.list plan", [raw, m50], want_used, used)
        if ml[0] == -1:
            mm = ["err", 1]  # whatever the unix parser raised, the chain raises ValueError
            im = ["err", r[1]] if r[0] == "err" else ["ok"]
        else:
            mm = ["ok", [model_list_result([0, v])[1] for v in ml[1]]]
            for v in mm[1]:
                v[0] = str(pathlib.PurePosixPath("d") / v[0])
            im = ["ok", [canon_info(p_, i_) for p_, i_ in r[2]]] if r[0] == "ok" else ["err", r[1]]
        if mm != im:
            ctx.disagree("Client.list(LIST) loop", {"lines": batch, "now": dt6(d)}, mm, im)
    xcheck += [(31, [H, T, dt6(d), batch], ml) for (batch, _, _, d), ml in list(zip(plan_cases, mo_list))[:6]]
    mlsd_batches = []
    for _ in range(300 if thorough else 100):
        k = rng.choice([0, 1, 2, 4, 8])
        batch = [rng.choice(lines) for _ in range(k)]
        for _ in range(rng.choice([0, 1, 2])):
            batch.insert(rng.randrange(len(batch) + 1), rng.choice(dot_lines_mlsd + mal[:15]))
        # the model takes PurePosixPath(name) = name (one path component): keep lines whose name pathlib leaves alone
        def pathlib_leaves_alone(l):
            try:
                return str(client.parse_mlsx_line(l)[0]) == l.rstrip().partition(" ")[2]
            except ValueError:
                return True  # no pathname: the parser raises, nothing for pathlib to normalise

        batch = [l for l in batch if pathlib_leaves_alone(l)]
        mlsd_batches.append(batch)
    mo = ctx.model([(32, [b]) for b in mlsd_batches])
    for b, o in zip(mlsd_batches, mo):
        ctx.case(("glue-mlsd", tuple(b)))
        ctx.traces_impl += 1
        nglue += 1
        r = impl_client_list(glue_client, b, "MLSD", naive(0))
        if r[0] == "exc":
            ctx.disagree("Client.list(MLSD) loop", b, "no exception of this class", list(r[:2]))
            continue
        mm = ["ok", [[str(pathlib.PurePosixPath("d") / sx.txt(n)), [(sx.txt(k_), sx.txt(v_)) for k_, v_ in e]] for n, e in o[1]]] if o[0] != -1 else ["err", o[1]]
        im = ["ok", [[str(p_), list(i_.items())] for p_, i_ in r[2]]] if r[0] == "ok" else ["err", r[1]]
        if mm != im:
            ctx.disagree("Client.list(MLSD) loop", b, mm, im)
    # Client.stat over an MLST reply
    infos = []
    for (name, sz, ct, mt, kind, ex), l in list(zip(ents, lines))[: (1500 if thorough else 500)]:
        infos.append(["-start", " " + l, " end"])
    infos += [["-start"], [], ["-start", "", " end"], ["-start", "   Type=dir;  x  ", " end"], ["-start", "\t Type=file;Size=1; a b", " end"],
              ["x", "Type=file; n"], ["-start", " ;;; ", " end"], ["-start", "　Type=dir; y", " end"]]
    for _ in range(300):
        infos.append(["-start", mutate(rng, " " + rng.choice(lines), [" ", ";", "=", "\t", "a"]), " end"])
    mo = ctx.model([(30, [i]) for i in infos])
    for i, o in zip(infos, mo):
        ctx.case(("glue-stat", tuple(i)))
        ctx.traces_impl += 1
        nglue += 1
        im = impl_client_stat_mlst(glue_client, i)
        mm = ["ok", [(sx.txt(k_), sx.txt(v_)) for k_, v_ in o[1]]] if o[0] != -1 else ["err", o[1]]
        if mm != im:
            ctx.disagree("Client.stat(MLST)", i, mm, im)
    xcheck += [(30, [i], o) for i, o in list(zip(infos, mo))[:6]]
    # the server's MLST reply lines (Server.mlst through a stub connection)
    for (name, sz, ct, mt, kind, ex), o in list(zip(ents, ctx.model([(34, [[sz, ct, mt, 1, 0] if ex else None, kind, name]) for name, sz, ct, mt, kind, ex in ents[:300]]))):
        ctx.case(("mlst-lines", name, sz, ct, mt, kind, ex))
        nglue += 1
        im = impl_mlst_lines(server, mkstats(sz, ct, mt, 1, 0) if ex else None, kind, name)
        if [sx.txt(x) for x in o] != im[1] or im[0] != ("250", True):
            ctx.disagree("Server.mlst reply", [name, sz, ct, mt, kind, ex], [sx.txt(x) for x in o], im)
    ctx.count("glue:Client.list loop / plan / Client.stat(MLST) / Server.mlst cases", nglue)

    _t_mark(ctx, "f-wire")
    # ---------------- (f) wire-level sessions on simnet
    try:
        wire_level(ctx, tp, thorough)
    except Exception as e:
        import traceback

        ctx.obligation_broken("wire-level", traceback.format_exc()[-1200:])

    _t_mark(ctx, "z-vm-crosscheck")
    ok, out = core.vm_crosscheck(EXTRACT, xcheck[:100])
    _t_mark(ctx, "end")
    ctx.extra["vm_compute_crosscheck"] = {"cases": len(xcheck[:100]), "agree": ok}
    if not ok:
        ctx.obligation_broken("extraction-crosscheck", out)


# --------------------------------------------------------------------------------------------
# wire level: the real aioftp.Server + aioftp.Client on simnet (in-memory network, virtual loop clock; the backends'
# executor jobs run for real), three backends, os.utime-controlled mtimes on disk
def _t_mark(ctx, label):
    """wall time per stream (ctx.extra['stream_wall_s']): label -> seconds spent since the previous mark"""
    now = real_time.time()
    st = ctx.extra.setdefault("_t_state", [None, now])
    walls = ctx.extra.setdefault("stream_wall_s", {})
    if st[0] is not None:
        walls[st[0]] = round(walls.get(st[0], 0) + now - st[1], 1)
    st[0], st[1] = label, now
    if label == "end":
        ctx.extra.pop("_t_state", None)


def wire_level(ctx, tp, thorough):
    from .. import simnet

    rng = ctx.rng
    simnet.run(lambda net: _wire(ctx, tp, rng, thorough, net), wall_timeout=240 if thorough else 100)
    for part in (_wire_faults, _wire_interleave, _wire_big, _wire_history):
        _t_mark(ctx, "f-wire:" + part.__name__)
        try:
            simnet.run(lambda net, _p=part: _p(ctx, tp, rng, thorough, net), wall_timeout=200 if thorough else 80)
        except Exception:
            import traceback

            ctx.obligation_broken("wire-level:" + part.__name__, traceback.format_exc()[-1200:])


# names of the directory that is listed (no leading/trailing whitespace: the client strips the command line - C08's matter)
DIR_NAMES = ["d", "-old", "-R", "-la", "-1", "-a pub", "--", "-", "a -> b", "Type=dir;", "12:30", ";x", "é٣", "-rw-r--r--", "d.d", "-l -a", "1 none none 5"]


CARDS_QUICK = [33, 0, 65, 1, 7, 32, 100, 12, 31]
CARDS_THOROUGH = [33, 0, 65, 1, 7, 32, 100, 12, 31, 64, 400, 25, 2, 96, 97, 128, 129, 3, 200, 5, 16, 48, 63, 10]


def subsecond(rng, sec, now, half):
    """nanoseconds to add to the whole second `sec` of a backend time: near 0, 1/2 and 1 (the last microsecond included).
    0 where the integral model and the float comparison of the half-year switch could differ (age exactly 0 or exactly HALF)"""
    if sec in (now, now - half, now - SPEC_HALF) or sec < 0:
        return 0
    return rng.choice([0, 0, 1, 400, 499_999_600, 500_000_000, 500_000_400, 999_000_000, 999_999_400, 999_999_700])


def tree_spec(rng, now, n):
    """entries of one directory: (name, kind, size, mtime, perm)"""
    ents, seen = [], set()
    ages = [0, 1, 59, 60, 3600, DAY, 30 * DAY, SPEC_HALF - 2 * DAY, SPEC_HALF - DAY - 61, SPEC_HALF + 1, SPEC_HALF + DAY, 365 * DAY, 400 * DAY,
            10 * 365 * DAY, -60, -DAY, -200 * DAY, SPEC_HALF, SPEC_HALF - DAY - 1, 366 * DAY - SPEC_HALF, 365 * DAY - SPEC_HALF + 61]
    while len(ents) < n:
        name = gen_name(rng)
        if name in seen or len(name.encode()) > 200:
            continue
        seen.add(name)
        kind = rng.choice(["file", "file", "dir"])
        size = rng.choice([0, 1, 5, 100, 4097, 70000]) if kind == "file" else 0
        mtime = now - rng.choice(ages) - rng.choice([0, 0, 1, 30])
        perm = rng.choice([0o644, 0o600, 0o755, 0o444, 0o640, 0o711]) if kind == "file" else rng.choice([0o755, 0o700, 0o775])
        ents.append((name, kind, size, mtime, perm))
    return ents


def check_listing(ctx, backend, cmd, truth_list, got, now, now2, what, extra=None, key=None):
    """oracle at the wire: each entry exactly once, none invented, exact type/size, time per command.
    truth_list: dicts name/kind/size/mtime/... as the BACKEND has them"""
    names = sorted(e["name"] for e in truth_list)
    gnames = sorted(str(p.name) for p, _ in got)
    truth = {}
    for e in truth_list:
        truth.setdefault(e["name"], []).append(e)
    bad = []
    if gnames != names:
        stripped = sorted(n.lstrip() for n in names if n.lstrip() not in (".", ".."))
        if cmd == "LIST" and gnames == stripped:
            # exactly the entries, but leading whitespace of names is gone: two entries may now share a name, and an
            # entry called '<whitespace>.' or '<whitespace>..' is then skipped by the lister as '.' / '..'  (F13a)
            missing = [n for n in names if n != n.lstrip()]
            ctx.violation(f"{what}: LIST loses leading whitespace of names {missing!r}",
                          {"key": "c07-list-name-leading-whitespace", "backend": backend, "names": names, "got": gnames})
            truth = {}
            for e in truth_list:
                truth.setdefault(e["name"].lstrip(), []).append(e)
        else:
            missing = [n for n in names if n not in gnames]
            inv = [n for n in gnames if n not in names]
            bad.append(f"entry set differs: missing {missing!r} invented {inv!r} (backend {names!r}, listed {gnames!r})")

    def row_bad(e, info):
        out = []
        name, kind, size, mtime = e["name"], e["kind"], e["size"], e["mtime"]
        if info.get("type") != kind:
            out.append(f"{name!r}: type {info.get('type')} != {kind}")
        if info.get("size") != str(size):
            out.append(f"{name!r}: size {info.get('size')} != {size}")
        if cmd == "MLSD":
            want = fmt14(naive(mtime), "second")
        else:
            want, _ = date_oracle(mtime, now, now2, 0)
            if info.get("unix.links") != str(e["nlink"]):
                out.append(f"{name!r}: links {info.get('unix.links')} != {e['nlink']}")
            perm = e["mode"] & 0o7777
            if info.get("unix.mode") != (perm - 1 if perm & 0o1001 == 0o1001 else perm):
                out.append(f"{name!r}: mode {info.get('unix.mode')} != {oct(perm)}")
        if want is not None and info.get("modify") != want:
            out.append(f"{name!r}: modify {info.get('modify')} != {want} (mtime {mtime}, now {now})")
        return out

    for p, info in got:
        cands = truth.get(str(p.name))
        if not cands:
            continue
        rb = [row_bad(e, info) for e in cands]
        if all(rb):
            bad += rb[0]
    if bad:
        ctx.violation(f"{what}: {bad[:3]}",
                      dict(extra or {}, key=key or "c07-wire-" + cmd.lower(), backend=backend, now=now, client_now=now2,
                           entries=truth_list, got=[[str(p), dict(i)] for p, i in got][:40], got_count=len(got), bad=bad[:10]))


def model_listing(ctx, cmd, truth_list, now, now2, H, T):
    """the model pipeline on the backend's truth -> sorted canonical rows (or ['err', tag])"""
    from .. import sx

    if cmd == "MLSD":
        lines = ctx.model([(20, [[e["size"], e["ctime"], e["mtime"], e["nlink"], e["mode"]], 0 if e["kind"] == "file" else 1, e["name"]])
                           for e in truth_list])
        o = ctx.model([(32, [[sx.txt(l) for l in lines]])])[0]
        if o[0] == -1:
            return ["err", o[1]]
        return sorted([sx.txt(n), sorted((sx.txt(k), sx.txt(v)) for k, v in ent)] for n, ent in o[1])
    lines = ctx.model([(22, [H, 0, now, [e["size"], e["ctime"], e["mtime"], e["nlink"], e["mode"]], e["name"]]) for e in truth_list])
    o = ctx.model([(31, [H, T, dt6(naive(now2)), [sx.txt(l) for l in lines]])])[0]
    if o[0] == -1:
        return ["err", 1]
    return sorted((model_list_result([0, v])[1] for v in o[1]), key=repr)


def canon_got(cmd, got):
    if cmd == "MLSD":
        return sorted([str(p.name), sorted(i.items())] for p, i in got)
    return sorted(([str(p.name)] + canon_info(p, i)[1:] for p, i in got), key=repr)


async def _wire(ctx, tp, rng, thorough, net):
    import io
    import math
    import shutil

    import aioftp
    from aioftp.pathio import Node

    from .. import core

    H, T = (as_int(x) for x in consts())
    rounds = 25 if thorough else 10
    tmp_root = core.BUILD / "tmp"
    tmp_root.mkdir(parents=True, exist_ok=True)
    nsess = nstat = 0
    card_seen = {}
    for rnd in range(rounds):
        now = rng.choice([ymd(2024, 3, 1, 0, 0, 30), ymd(2025, 1, 1, 0, 10, 0), ymd(2023, 7, 2, 12, 0, 0), ymd(2100, 3, 1, 5, 0, 0),
                          ymd(2024, 8, 29, 12, 0, 0), ymd(2001, 1, 1, 0, 0, 0), ymd(2024, 2, 29, 23, 59, 30), ymd(2028, 12, 31, 23, 59, 59)]) + rng.choice(DELTAS)
        now2 = now + rng.choice(SKEWS)
        # the LISTED directory: its name comes from the metacharacter pool too and is passed as a bare relative argument
        dname = DIR_NAMES[rnd % len(DIR_NAMES)] if rnd < len(DIR_NAMES) or rng.random() < 0.5 else rng.choice(DIR_NAMES)
        st_round = rnd == rounds - 1  # last round: one set-uid entry without x on disk (the F13b witness at the wire; repaired)
        # directory CARDINALITY: 0, 1, a few, and around every multiple of 32 (31, 32, 33, 64, 65), 100, 400 entries
        card = CARDS_THOROUGH[rnd % len(CARDS_THOROUGH)] if thorough else CARDS_QUICK[rnd % len(CARDS_QUICK)]
        ents = tree_spec(rng, now, card if not st_round else 4)
        # the big directories on the in-memory backend only (cheap); up to 33 entries on all three
        for backend in (("memory", "pathio", "asyncpathio") if len(ents) <= 33 else ("memory",)):
            tdir = None
            if backend == "memory":
                root = Node("dir", "/", content=[], ctime=1, mtime=1)
                d = Node("dir", dname, content=[], ctime=1, mtime=1)
                root.content.append(d)
                root.content.append(Node("file", "sibling-of-the-listed-directory", ctime=5, mtime=5, content=io.BytesIO(b"s")))
                truth = []
                for name, kind, size, mtime, perm in ents:
                    if mtime == 0:
                        continue  # Node(mtime=0) means "now" (observation in the notes)
                    d.content.append(Node(kind, name, ctime=mtime - 5 + subsecond(rng, mtime - 5, now, H) * 1e-9,
                                          mtime=mtime + subsecond(rng, mtime, now, H) * 1e-9,
                                          content=io.BytesIO(b"x" * size) if kind == "file" else []))
                    truth.append({"name": name, "kind": kind, "size": size if kind == "file" else 0, "mtime": mtime, "ctime": mtime - 5,
                                  "nlink": 1, "mode": (stat_mod.S_IFREG | 0o666) if kind == "file" else (stat_mod.S_IFDIR | 0o777)})
                factory = lambda *a, state=None, _root=root, **k: aioftp.MemoryPathIO(*a, state=[_root], **k)
                base = "/"
            else:
                tdir = tmp_root / f"c07-{os.getpid()}-{rnd}-{backend}"
                shutil.rmtree(tdir, ignore_errors=True)
                (tdir / dname).mkdir(parents=True)
                (tdir / "sibling-of-the-listed-directory").write_bytes(b"s")
                truth = []
                for i, (name, kind, size, mtime, perm) in enumerate(ents):
                    if mtime < 0:
                        continue
                    p = tdir / dname / name
                    try:
                        if kind == "file":
                            p.write_bytes(b"x" * size)
                        else:
                            p.mkdir()
                        os.chmod(p, perm | (0o4000 if st_round and i == 1 and kind == "file" and not perm & 0o100 else 0))
                        ns = mtime * 10**9 + subsecond(rng, mtime, now, H)
                        os.utime(p, ns=(ns, ns))
                        st = os.stat(p)
                    except OSError:
                        continue
                    truth.append({"name": name, "kind": kind, "size": st.st_size, "mtime": mtime, "ctime": math.floor(st.st_ctime),
                                  "nlink": st.st_nlink, "mode": st.st_mode})
                    if math.floor(st.st_mtime) != mtime:
                        ctx.notes.append(f"os.utime did not take: {name!r} {st.st_mtime} != {mtime}")
                factory = aioftp.PathIO if backend == "pathio" else aioftp.AsyncPathIO
                base = str(tdir)
            has_st = any("S" in stat_mod.filemode(e["mode"]) or "T" in stat_mod.filemode(e["mode"]) for e in truth)
            for flavour in ("full", "no-mlsx"):
                user = aioftp.User(base_path=base, home_path="/")
                server = aioftp.Server([user], path_io_factory=factory)
                if flavour == "no-mlsx":  # an FTP server without RFC 3659: MLSD / MLST answered 502
                    del server.commands_mapping["mlsd"], server.commands_mapping["mlst"]
                await server.start("127.0.0.1", 0)
                port = server.server.sockets[0].getsockname()[1]
                try:
                    for raw in (("MLSD", "LIST") if flavour == "full" else (None,)):
                        cmd = raw or "LIST"  # what reads the listing
                        client = aioftp.Client()
                        tp.now = now
                        set_client_now(naive(now2))
                        await client.connect("127.0.0.1", port)
                        await client.login()
                        what = f"{backend} {flavour} list(raw_command={raw!r})"
                        ctx.traces_impl += 1
                        nsess += 1
                        ctx.case(("wire", backend, flavour, raw, rnd, now))
                        card_seen[len(truth)] = card_seen.get(len(truth), 0) + 1
                        mm = model_listing(ctx, cmd, truth, now, now2, H, T)
                        try:
                            got = await client.list(dname, raw_command=raw)
                        except (ValueError, aioftp.StatusCodeError) as e:
                            got = None
                            if isinstance(e, aioftp.StatusCodeError):
                                ctx.violation(f"{what}: listing of the existing directory {dname!r} fails: {e!r}"[:300],
                                              {"key": "c07-wire-" + cmd.lower(), "backend": backend, "now": now, "client_now": now2,
                                               "directory": dname, "raw_command": raw, "flavour": flavour, "entries": truth, "error": repr(e)[:300]})
                                client.close()
                                continue
                            if mm[:1] != ["err"]:
                                ctx.disagree("wire:" + what, {"entries": truth, "now": now}, mm, ["err", 1])
                            if has_st and cmd == "LIST":
                                ctx.violation(f"{what}: the whole LIST listing raises ValueError because of an S/T mode",
                                              {"key": "c07-list-mode-S-or-T", "backend": backend, "entries": truth, "wire": True})
                            else:
                                ctx.violation(f"{what}: listing raises {e!r}"[:300],
                                              {"key": "c07-wire-" + cmd.lower(), "backend": backend, "now": now, "client_now": now2,
                                               "directory": dname, "raw_command": raw, "flavour": flavour,
                                               "entries": truth, "error": repr(e)[:300]})
                            client.close()
                            continue
                        check_listing(ctx, backend, cmd, truth, got, now, now2, what + f" of {dname!r}",
                                      {"directory": dname, "raw_command": raw, "flavour": flavour})
                        im = canon_got(cmd, got)
                        if mm != im:
                            ctx.disagree("wire:" + what, {"entries": truth, "now": now, "client_now": now2}, mm, im)
                        # stat() of entries: MLST on the full server, the listing fallback on the other one
                        if raw in ("MLSD", None):
                            for e in truth[:8]:
                                name = e["name"]
                                try:
                                    info = await client.stat(dname + "/" + name)
                                except (aioftp.StatusCodeError, ValueError) as ex:
                                    if flavour == "no-mlsx" and name != name.lstrip():
                                        continue  # F13a, already reported by the listing above
                                    info = {"error": repr(ex)[:200]}
                                nstat += 1
                                ctx.case(("wire-stat", backend, flavour, name, e["mtime"]))
                                if flavour == "full":
                                    want = fmt14(naive(e["mtime"]), "second")
                                else:
                                    want, _ = date_oracle(e["mtime"], now, now2, 0)
                                    twins = [t for t in truth if t is not e and t["name"].lstrip() == name]
                                    if twins and any(info.get("size") == str(t["size"]) and info.get("type") == t["kind"] for t in twins):
                                        # F13a: another entry's name is this one plus leading whitespace; LIST shows both as `name`
                                        ctx.violation(f"{backend} stat({name!r}) over the LIST fallback returns the row of {twins[0]['name']!r}",
                                                      {"key": "c07-list-name-leading-whitespace", "backend": backend, "name": name,
                                                       "twin": twins[0]["name"], "wire": "stat-fallback"})
                                        continue
                                if info.get("type") != e["kind"] or (want is not None and info.get("modify") != want) or info.get("size") != str(e["size"]):
                                    ctx.violation(f"{backend} {flavour} stat({name!r}): {dict(info)} but the backend has {e}",
                                                  {"key": "c07-wire-mlst" if flavour == "full" else "c07-wire-stat-fallback", "backend": backend,
                                                   "entry": e, "now": now, "client_now": now2, "got": dict(info)})
                            # a name that is not there must be reported missing
                            try:
                                await client.stat(dname + "/no-such-entry")
                                ctx.violation(f"{backend} {flavour} stat() of a missing entry returns facts",
                                              {"key": "c07-wire-stat-invented", "backend": backend, "flavour": flavour})
                            except aioftp.StatusCodeError:
                                pass
                        await client.quit()
                finally:
                    await server.close()
            if tdir is not None:
                shutil.rmtree(tdir, ignore_errors=True)
    ctx.count("wire(simnet):listing sessions (3 backends x {MLSD, LIST, fallback from 502})", nsess)
    for c_, k_ in sorted(card_seen.items()):
        ctx.count(f"wire(simnet):directories with {c_} entries (sessions)", k_)
    ctx.count("wire(simnet):stat() calls (MLST / listing fallback)", nstat)


# --------------------------------------------------------------------------------------------
# backend faults at ONE entry of a listing (simnet): a completed listing must be the complete directory
FAULT_KINDS = ["eio", "eacces", "estale", "valueerror", "slow"]


def faulty_factory(base, victim, op, kind):
    """a subclass of the shipped backend whose `op` (stat / is_file / is_dir / exists) fails for the entry called `victim`;
    universal_exception (and with_timeout for the slow kind) stay around it as in the source"""
    import errno

    import aioftp
    from aioftp.common import with_timeout
    from aioftp.pathio import universal_exception

    orig = getattr(base, op)

    async def leaf(self, path, *a, **k):
        if pathlib.PurePath(path).name == victim:
            if kind == "slow":
                await asyncio.sleep(1000)
            if kind == "valueerror":
                raise ValueError("injected")
            raise OSError({"eio": errno.EIO, "eacces": errno.EACCES, "estale": errno.ESTALE}.get(kind, errno.EIO), "injected")
        return await orig(self, path, *a, **k)

    leaf.__name__ = op
    wrapped = universal_exception(with_timeout(leaf)) if kind == "slow" else universal_exception(leaf)
    return type("Faulty" + base.__name__, (base,), {op: wrapped})


async def _wire_faults(ctx, tp, rng, thorough, net):
    import io
    import shutil

    import aioftp
    from aioftp.pathio import Node

    from .. import core

    now = ymd(2024, 3, 1, 0, 0, 30)
    tp.now = now
    set_client_now(naive(now))
    tmp_root = core.BUILD / "tmp"
    tmp_root.mkdir(parents=True, exist_ok=True)
    nrun = ncompleted = nfailed = 0
    plans = []
    for _ in range(40 if thorough else 14):
        n = rng.choice([1, 2, 4, 7])
        plans.append((n, rng.randrange(n), rng.choice(["stat", "stat", "stat", "is_file", "exists"]), rng.choice(FAULT_KINDS),
                      rng.choice(["memory", "pathio", "asyncpathio"]), rng.choice(["MLSD", "LIST", None])))
    plans += [(3, 1, "stat", "eio", "memory", "MLSD"), (3, 1, "stat", "eio", "memory", "LIST"), (4, 3, "stat", "slow", "asyncpathio", "MLSD"),
              (2, 0, "stat", "eacces", "pathio", None)]
    # which backend calls each worker makes per (file) entry: a fault elsewhere is never reached
    CALLS = {"MLSD": {"exists", "stat", "is_file"}, "LIST": {"exists", "stat"}, None: {"exists", "stat"}}
    mo = ctx.model([(35, [[1 if i == k and op in CALLS[raw] else 0 for i in range(n)]]) for n, k, op, _, _, raw in plans] + [(35, [[0, 0, 0]])])
    if mo[-1] != 1:
        ctx.disagree("worker_lines", "no fault", mo[-1], 1)
    for pi, ((n, k, op, kind, backend, raw), mdl) in enumerate(zip(plans, mo)):
        if kind == "slow" and backend != "asyncpathio":
            backend = "asyncpathio"  # only AsyncPathIO applies path_timeout
        names = []
        while len(names) < n:
            nm = gen_name(rng)
            if nm not in names and nm == nm.strip() and len(nm.encode()) < 100:
                names.append(nm)
        victim = names[k]
        tdir = None
        if backend == "memory":
            root = Node("dir", "/", content=[], ctime=1, mtime=1)
            d = Node("dir", "d", content=[], ctime=1, mtime=1)
            root.content.append(d)
            for i, nm in enumerate(names):
                d.content.append(Node("file", nm, ctime=now - 100, mtime=now - 50 - i, content=io.BytesIO(b"x" * (i + 1))))
            base_cls = faulty_factory(aioftp.MemoryPathIO, victim, op, kind)
            factory = lambda *a, state=None, _root=root, _c=base_cls, **kw: _c(*a, state=[_root], **kw)
            base = "/"
        else:
            tdir = tmp_root / f"c07f-{os.getpid()}-{pi}"
            shutil.rmtree(tdir, ignore_errors=True)
            (tdir / "d").mkdir(parents=True)
            ok = True
            for i, nm in enumerate(names):
                try:
                    (tdir / "d" / nm).write_bytes(b"x" * (i + 1))
                except OSError:
                    ok = False
            if not ok:
                shutil.rmtree(tdir, ignore_errors=True)
                continue
            factory = faulty_factory(aioftp.PathIO if backend == "pathio" else aioftp.AsyncPathIO, victim, op, kind)
            base = str(tdir)
        if raw == "MLSD" and op == "exists":
            pass  # MLSD calls exists() too
        server = aioftp.Server([aioftp.User(base_path=base, home_path="/")], path_io_factory=factory, path_timeout=2 if kind == "slow" else None)
        if raw is None:
            del server.commands_mapping["mlsd"], server.commands_mapping["mlst"]
        await server.start("127.0.0.1", 0)
        port = server.server.sockets[0].getsockname()[1]
        case = {"entries": names, "victim": victim, "op": op, "fault": kind, "backend": backend, "raw_command": raw}
        ctx.case(("wire-fault", tuple(names), k, op, kind, backend, raw))
        ctx.traces_impl += 1
        nrun += 1
        client = aioftp.Client()
        outcome = None
        try:
            await client.connect("127.0.0.1", port)
            await client.login()
            got = await client.list("d", raw_command=raw)
            outcome = ["completed", sorted(str(p_.name) for p_, _ in got)]
        except (aioftp.StatusCodeError, ConnectionError, asyncio.TimeoutError, ValueError) as e:
            outcome = ["failed", type(e).__name__]
        except Exception as e:  # noqa: BLE001 - observation
            outcome = ["failed", repr(e)[:200]]
        finally:
            try:
                client.close()
            except Exception:
                pass
            await server.close()
            if tdir is not None:
                shutil.rmtree(tdir, ignore_errors=True)
        if outcome[0] == "completed":
            ncompleted += 1
            missing = [nm for nm in names if nm not in outcome[1]]
            invented = [g for g in outcome[1] if g not in names]
            if missing or invented:
                ctx.violation(f"{backend} list(raw_command={raw!r}) completed (2xx) without entries {missing!r} (invented {invented!r}) although "
                              f"the directory has {names!r}: {op}() of {victim!r} failed ({kind}) and the entry was dropped silently",
                              dict(case, key="c07-wire-fault-entry-dropped", listed=outcome[1]))
            if mdl != 1:
                ctx.disagree("wire-fault: listing outcome", case, "fails (451)", outcome)
        else:
            nfailed += 1
            if mdl != 0:
                ctx.disagree("wire-fault: listing outcome", case, "completes", outcome)
    ctx.count("wire(simnet):listings with a backend fault at one entry", nrun)
    ctx.count("wire(simnet):... command failed (as the model says)", nfailed)
    ctx.count("wire(simnet):... listing completed", ncompleted)


# --------------------------------------------------------------------------------------------
# commands between the 150 mark and the data connection (simnet, raw control connection): the listing is that of the
# directory the command named when it was accepted
IL_TREE = {"a": {"sub": {"x.txt": 3, "y.txt": 40}, "only-a": 7}, "b": {"sub": {"z.txt": 500}, "only-b": 1, "sub2": {}}, "top": 9}


def il_resolve(cwd, arg):
    p = pathlib.PurePosixPath(cwd) / arg if arg else pathlib.PurePosixPath(cwd)
    parts = []
    for x in p.parts[1:]:
        if x == "..":
            parts = parts[:-1]
        elif x != ".":
            parts.append(x)
    return parts


def il_dir(parts):
    node = IL_TREE
    for x in parts:
        node = node[x] if isinstance(node, dict) and x in node else None
        if node is None:
            return None
    return node if isinstance(node, dict) else None


async def _wire_interleave(ctx, tp, rng, thorough, net):
    import io

    import aioftp
    from aioftp.pathio import Node

    from .. import ftpsim, simnet

    now = ymd(2024, 3, 1, 0, 0, 30)
    tp.now = now
    set_client_now(naive(now))

    def build(name, v):
        if isinstance(v, dict):
            return Node("dir", name, content=[build(k_, x) for k_, x in v.items()], ctime=now - 9, mtime=now - 8)
        return Node("file", name, content=io.BytesIO(b"x" * v), ctime=now - 9, mtime=now - 8)

    combos = []
    for verb in ("MLSD", "LIST"):
        for cwd0, arg in (("/a", "sub"), ("/a", ""), ("/b", "sub"), ("/a", "../b/sub"), ("/", "a"), ("/b", "sub2"), ("/a", "/b")):
            for between in ([], [("CWD", "/b")], [("CWD", "/a")], [("CDUP", "")], [("CWD", "/b"), ("CWD", "sub")], [("PWD", "")], [("CWD", "/")]):
                combos.append((verb, cwd0, arg, between))
    if _IL_ONLY is not None:
        combos = [_IL_ONLY]
    elif not thorough:
        fixed = [c for c in combos if c[1:] in (("/a", "sub", [("CWD", "/b")]), ("/a", "", [("CWD", "/b")]))]
        combos = fixed + rng.sample(combos, 24)
    client = aioftp.Client()
    nrun = n2xx = 0
    for verb, cwd0, arg, between in combos:
        root = build("/", IL_TREE)
        factory = lambda *a, state=None, _root=root, **kw: aioftp.MemoryPathIO(*a, state=[_root], **kw)
        server = aioftp.Server([aioftp.User(base_path="/", home_path="/")], path_io_factory=factory, wait_future_timeout=5)
        await server.start("127.0.0.1", 0)
        case = {"verb": verb, "cwd": cwd0, "arg": arg, "between": [list(b) for b in between]}
        ctx.case(("wire-interleave", verb, cwd0, arg, repr(between)))
        ctx.traces_impl += 1
        nrun += 1
        ob = {}
        try:
            raw = await simnet.Raw.connect(net, server.server.sockets[0].getsockname()[1])
            await raw.drain_replies()
            await raw.send("USER anonymous")
            await raw.send("PASS x")
            ob["cwd0"] = simnet.final_codes(await raw.send("CWD " + cwd0))
            port = ftpsim.parse_passive(await raw.send("PASV"))
            ob["accept"] = simnet.final_codes(await raw.send(f"{verb} {arg}".rstrip()))
            ob["between"] = [simnet.final_codes(await raw.send(f"{bv} {ba}".rstrip())) for bv, ba in between]
            r, w = await net.open_connection("127.0.0.1", port)
            await net.settle()
            data = bytes(r._buffer)
            w.close()
            ob["after"] = simnet.final_codes(await raw.drain_replies())
            ob["lines"] = [l for l in data.decode("utf-8").split("\r\n") if l]
            raw.close()
        except Exception as e:  # noqa: BLE001 - observation
            ob["error"] = repr(e)[:300]
        finally:
            await server.close()
        want_dir = il_dir(il_resolve(cwd0, arg))
        done = [c for c in ob.get("after", []) if c.startswith("2")]
        if ob.get("accept") != ["150"] or not done or "error" in ob:
            if want_dir is not None and "error" not in ob and ob.get("accept") == ["150"] and not done:
                ctx.disagree("wire-interleave: outcome", case, "2xx", ob)
            continue
        n2xx += 1
        set_client_now(naive(now))
        rows = {}
        try:
            for l in ob["lines"]:
                p_, info = (client.parse_mlsx_line if verb == "MLSD" else client.parse_list_line)(l.encode("utf-8") if verb == "LIST" else l)
                rows[str(p_)] = (info.get("type"), int(info["size"]) if info.get("type") == "file" else None)
        except Exception as e:  # noqa: BLE001
            rows = {"!": repr(e)[:200]}
        want = {k_: ("dir", None) if isinstance(v, dict) else ("file", v) for k_, v in (want_dir or {}).items()}
        if want_dir is None or rows != want:
            ctx.violation(f"'{verb} {arg}' was accepted (150) in {cwd0}, so it names /{'/'.join(il_resolve(cwd0, arg))} = {want}; after {between} and then "
                          f"the data connection the completed listing ({done}) is {rows}",
                          dict(case, key="c07-wire-interleave-wrong-directory", listed={k_: list(v) for k_, v in rows.items()} if "!" not in rows else rows))
    ctx.count("wire(simnet):listing commands with commands between 150 and the data connection", nrun)
    ctx.count("wire(simnet):... of which completed 2xx", n2xx)


# --------------------------------------------------------------------------------------------
# --------------------------------------------------------------------------------------------
# directory CARDINALITY x BACKEND (simnet): every shipped backend, directories larger than any plausible batch / buffer
# size; the truth is READ BACK from the backend (os.listdir + os.lstat for the two file-system backends)
BIG_CARDS_QUICK = [129, 1025, 257, 128, 300, 127]
BIG_CARDS_THOROUGH = BIG_CARDS_QUICK + [255, 256, 513, 1024, 2049, 4097, 64, 1000]
BIG_AGES = [1, 59, 61, 3600, DAY, 30 * DAY, SPEC_HALF + DAY, 400 * DAY, 10 * 365 * DAY]


def big_spec(rng, now, n):
    """n entries with plain names (the name alphabet is stream (f)'s and C08's matter): (name, kind, size, mtime, perm)"""
    ents = []
    for i in range(n):
        kind = "dir" if rng.random() < 0.15 else "file"
        name = ("d%04d" % i) if kind == "dir" else rng.choice(["f%04d.bin", "%04d", "x-%d.txt", "é%d", "a b %d"]) % i
        size = rng.choice([0, 0, 1, 7, 100]) if kind == "file" else 0
        ents.append((name, kind, size, now - rng.choice(BIG_AGES) - rng.randrange(60), rng.choice([0o644, 0o600, 0o755]) if kind == "file" else 0o755))
    return ents


def disk_dir(base, dname, ents):
    """create the entries under base/dname on the real file system; -> the truth as the file system then reports it
    (os.listdir + os.lstat), not what was meant to be created"""
    import math

    d = os.path.join(base, dname)
    os.makedirs(d)
    with open(os.path.join(base, "sibling-of-the-listed-directory"), "wb") as f:
        f.write(b"s")
    for name, kind, size, mtime, perm in ents:
        if mtime < 0:
            continue
        p = os.path.join(d, name)
        try:
            if kind == "file":
                with open(p, "wb") as f:
                    f.write(b"x" * size)
            else:
                os.mkdir(p)
            os.chmod(p, perm)
            os.utime(p, ns=(mtime * 10**9, mtime * 10**9))
        except OSError:
            continue
    truth = []
    for name in os.listdir(d):
        st = os.lstat(os.path.join(d, name))
        truth.append({"name": name, "kind": "dir" if stat_mod.S_ISDIR(st.st_mode) else "file", "size": st.st_size, "mtime": math.floor(st.st_mtime),
                      "ctime": math.floor(st.st_ctime), "nlink": st.st_nlink, "mode": st.st_mode})
    return truth


def memory_dir(dname, ents, extra_nodes=()):
    """the same on the in-memory backend; -> (root node, truth read back from the node tree)"""
    import io

    from aioftp.pathio import Node

    root = Node("dir", "/", content=[], ctime=1, mtime=1)
    d = Node("dir", dname, content=[], ctime=1, mtime=1)
    root.content += [d, Node("file", "sibling-of-the-listed-directory", ctime=5, mtime=5, content=io.BytesIO(b"s"))] + list(extra_nodes)
    for name, kind, size, mtime, perm in ents:
        if mtime == 0:
            continue  # Node(mtime=0) means "now"
        d.content.append(Node(kind, name, ctime=mtime - 5, mtime=mtime, content=io.BytesIO(b"x" * size) if kind == "file" else []))
    truth = [{"name": n.name, "kind": n.type, "size": len(n.content.getbuffer()) if n.type == "file" else 0, "mtime": n.mtime, "ctime": n.ctime, "nlink": 1,
              "mode": (stat_mod.S_IFREG | 0o666) if n.type == "file" else (stat_mod.S_IFDIR | 0o777)} for n in d.content]
    return root, truth


def backend_setup(backend, dname, ents, extra_nodes=()):
    """-> (path_io_factory, base_path, truth, cleanup) for 'memory' | 'pathio' | 'asyncpathio'; the file-system backends
    get a fresh directory under the system temp dir (outside the source tree and outside this repository)"""
    import shutil
    import tempfile

    import aioftp

    if backend == "memory":
        root, truth = memory_dir(dname, ents, extra_nodes)
        return (lambda *a, state=None, _root=root, **k: aioftp.MemoryPathIO(*a, state=[_root], **k)), "/", truth, (lambda: None)
    tdir = tempfile.mkdtemp(prefix="c07-")
    truth = disk_dir(tdir, dname, ents)
    for n in extra_nodes:
        os.mkdir(os.path.join(tdir, n.name))
    return (aioftp.PathIO if backend == "pathio" else aioftp.AsyncPathIO), tdir, truth, (lambda: shutil.rmtree(tdir, ignore_errors=True))


def entries_as_spec(entries):
    return [(e["name"], e["kind"], e["size"] if e["kind"] == "file" else 0, e["mtime"], e.get("mode", 0o644) & 0o777 or 0o644) for e in entries]


async def _big_one(cx, tp, backend, card, ents, now, now2, H, T, with_model, raws_by_flavour):
    """one directory on one backend: every listing command on a fresh connection, compared with the backend's truth"""
    import aioftp

    dname = "big"
    factory, base, truth, cleanup = backend_setup(backend, dname, ents)
    n = 0
    try:
        for flavour, raws in raws_by_flavour:
            server = aioftp.Server([aioftp.User(base_path=base, home_path="/")], path_io_factory=factory)
            if flavour == "no-mlsx":
                del server.commands_mapping["mlsd"], server.commands_mapping["mlst"]
            await server.start("127.0.0.1", 0)
            port = server.server.sockets[0].getsockname()[1]
            try:
                for raw in raws:
                    cmd = "LIST" if raw == "LIST" or flavour == "no-mlsx" else "MLSD"
                    client = aioftp.Client()
                    tp.now = now
                    set_client_now(naive(now2))
                    what = f"{backend} {flavour} list(raw_command={raw!r}) of a directory with {len(truth)} entries"
                    extra = {"directory": dname, "raw_command": raw, "flavour": flavour, "cardinality": len(truth)}
                    cx.traces_impl += 1
                    n += 1
                    cx.case(("wire-big", backend, flavour, raw, card))
                    try:
                        await client.connect("127.0.0.1", port)
                        await client.login()
                        got = await client.list(dname, raw_command=raw)
                    except Exception as e:  # noqa: BLE001 - a listing of an existing directory that fails is the observation
                        cx.violation(f"{what}: fails with {e!r}"[:300],
                                     dict(extra, key="c07-wire-" + cmd.lower(), backend=backend, now=now, client_now=now2, entries=truth, error=repr(e)[:300]))
                        client.close()
                        continue
                    check_listing(cx, backend, cmd, truth, got, now, now2, what, extra)
                    if with_model:
                        mm = model_listing(cx, cmd, truth, now, now2, H, T)
                        im = canon_got(cmd, got)
                        if mm != im:
                            cx.disagree("wire-big:" + what, {"entries": truth[:20], "now": now, "client_now": now2}, mm[:5], im[:5])
                    await client.quit()
            finally:
                await server.close()
    finally:
        cleanup()
    return n


async def _wire_big(ctx, tp, rng, thorough, net):
    H, T = (as_int(x) for x in consts())
    now = ymd(2024, 3, 1, 0, 0, 30)
    nsess = 0
    seen = {}
    t0 = real_time.time()
    for i, card in enumerate(BIG_CARDS_THOROUGH if thorough else BIG_CARDS_QUICK):
        ents = big_spec(rng, now, card)
        now2 = now + rng.choice(SKEWS)
        for backend in ("asyncpathio", "pathio", "memory"):
            if real_time.time() - t0 > (150 if thorough else 45):
                ctx.notes.append(f"wire-big: budget reached before {backend} x {card}")
                continue
            # all four ways to list on the first two sizes and on every size <= 300; the largest ones by MLSD and LIST
            full = card <= 300
            raws = [("full", ("MLSD", "LIST", None) if full else ("MLSD", "LIST"))] + ([("no-mlsx", (None,))] if full else [])
            k = await _big_one(ctx, tp, backend, card, ents, now, now2, H, T, card <= 300, raws)
            nsess += k
            seen[(backend, card)] = k
    for (b, c), k in sorted(seen.items()):
        ctx.count(f"wire-big(simnet):{b} directory with {c} entries (listing sessions)", k)
    ctx.count("wire-big(simnet):listing sessions (cardinality x backend x {MLSD, LIST, default, fallback from 502})", nsess)


# --------------------------------------------------------------------------------------------
# HISTORIES on one client connection (simnet): refused and accepted commands before the listing that is judged;
# what list() reports = what stat() reports = the backend's truth, whatever happened earlier on the connection
HIST_PRE = ["list", "list-recursive", "stat", "list-LIST", "list-MLSD", "unknown-command", "cwd-missing"]  # before login: all refused
HIST_POST = ["list-forbidden", "list-missing", "stat-missing", "stat-forbidden", "list-LIST", "list-MLSD", "list", "list-recursive",
             "cwd-missing", "unknown-command", "list-file", "list-bad-raw", "stat"]
RAW_OF_STEP = {"list": None, "list-recursive": None, "list-LIST": "LIST", "list-MLSD": "MLSD"}


async def hist_step(client, step, dname):
    """one step of a history -> 'ok' | the refusing reply code | an exception class"""
    import aioftp

    try:
        if step in RAW_OF_STEP:
            await client.list(dname, recursive=step == "list-recursive", raw_command=RAW_OF_STEP[step])
        elif step == "list-forbidden":
            await client.list("secret")
        elif step == "list-missing":
            await client.list("no-such-directory")
        elif step == "list-file":
            await client.list("sibling-of-the-listed-directory")
        elif step == "list-bad-raw":
            await client.list(dname, raw_command="NLST")
        elif step == "stat":
            await client.stat(dname)
        elif step == "stat-missing":
            await client.stat("no-such-entry")
        elif step == "stat-forbidden":
            await client.stat("secret")
        elif step == "cwd-missing":
            await client.change_directory("no-such-directory")
        elif step == "unknown-command":
            await client.command("XYZZY", "2xx")
        else:
            raise AssertionError(step)
        return "ok"
    except aioftp.StatusCodeError as e:
        return str(e.received_codes[-1])
    except (ValueError, KeyError, IndexError, AttributeError, OSError) as e:
        return type(e).__name__


async def _run_history(cx, tp, backend, flavour, pre, post, dname, ents, now, now2):
    """connect; `pre` steps (refused: not logged in); login; `post` steps; then the judged default listing, the recursive
    one and stat() of entries on the SAME connection"""
    import aioftp
    from aioftp.pathio import Node

    class RecClient(aioftp.Client):
        sent = None

        async def command(self, command=None, *a, **k):
            if command:
                self.sent.append(command.split(" ")[0])
            return await super().command(command, *a, **k)

    factory, base, truth, cleanup = backend_setup(backend, dname, ents, [Node("dir", "secret", content=[], ctime=7, mtime=7)])
    user = aioftp.User(base_path=base, home_path="/", permissions=[aioftp.Permission("/", readable=True, writable=True),
                                                                  aioftp.Permission("/secret", readable=False, writable=False)])
    server = aioftp.Server([user], path_io_factory=factory)
    if flavour == "no-mlsx":
        del server.commands_mapping["mlsd"], server.commands_mapping["mlst"]
    await server.start("127.0.0.1", 0)
    client = RecClient()
    client.sent = []
    tp.now = now
    set_client_now(naive(now2))
    cmd = "MLSD" if flavour == "full" else "LIST"
    hist = {"pre": list(pre), "post": list(post)}
    extra = {"directory": dname, "flavour": flavour, "history": hist, "raw_command": None}
    outcomes, calls, used = [], [], []
    try:
        await client.connect("127.0.0.1", server.server.sockets[0].getsockname()[1])
        for st in pre:
            outcomes.append((st, await hist_step(client, st, dname)))
        await client.login()
        for st in post:
            k = len(client.sent)
            o = await hist_step(client, st, dname)
            outcomes.append((st, o))
            if st in RAW_OF_STEP and o == "ok":
                calls.append(RAW_OF_STEP[st])
                used.append(sorted({c for c in client.sent[k:] if c in ("MLSD", "LIST")}))
        hist["outcomes"] = outcomes
        what = f"{backend} {flavour} list() after the history {outcomes}"
        listed = {}
        for rec in (False, True):
            k = len(client.sent)
            try:
                got = await client.list(dname, recursive=rec)
            except Exception as e:  # noqa: BLE001
                cx.violation(f"{what}: the listing fails with {e!r}"[:400],
                             dict(extra, key="c07-wire-history", backend=backend, now=now, client_now=now2, entries=truth, error=repr(e)[:300]))
                return
            calls.append(None)
            used.append(sorted({c for c in client.sent[k:] if c in ("MLSD", "LIST")}))
            check_listing(cx, backend, cmd, truth, got, now, now2, what + (" (recursive)" if rec else ""), extra, key="c07-wire-history")
            if not rec:
                listed = {str(p_.name): i_ for p_, i_ in got}
        # list() and stat() tell the same about an entry (and stat() tells the backend's truth: stream (f))
        for e in truth[:6]:
            name = e["name"]
            if name != name.strip() or name not in listed:
                continue
            try:
                info = await client.stat(dname + "/" + name)
            except (aioftp.StatusCodeError, ValueError) as ex:
                info = {"error": repr(ex)[:200]}
            diff = [(k_, listed[name].get(k_), info.get(k_)) for k_ in ("type", "size", "modify") if listed[name].get(k_) != info.get(k_)]
            if diff:
                cx.violation(f"{what}: list() and stat() disagree about {name!r}: (fact, list, stat) = {diff}"[:500],
                             dict(extra, key="c07-wire-history", backend=backend, now=now, client_now=now2, entries=truth, name=name, differ=diff))
        # which command read each accepted listing of this connection: the model's plan of that call ALONE
        m50 = 1 if flavour == "no-mlsx" else 0
        code = {None: 0, "MLSD": 1, "LIST": 2}
        mo = cx.model([(37, [[[code[r_], m50] for r_ in calls]])])[0]
        if mo is not None:
            want = [["MLSD"] if p_ == 0 else (["LIST"] if r_ == "LIST" else ["LIST", "MLSD"]) if p_ == 1 else ["status"] for p_, r_ in zip(mo, calls)]
            if want != used:
                cx.disagree("Client.list plan over a connection history", {"history": hist, "flavour": flavour, "calls": calls}, want, used)
        await client.quit()
    finally:
        client.close()
        await server.close()
        cleanup()


async def _wire_history(ctx, tp, rng, thorough, net):
    nh = 0
    kinds = {}
    t0 = real_time.time()
    hists = [(["list"], []), ([], ["list-forbidden"]), ([], ["unknown-command"]), (["stat"], ["list-missing"]), ([], [])]
    for _ in range(300 if thorough else 90):
        hists.append(([rng.choice(HIST_PRE) for _ in range(rng.choice([0, 1, 1, 2, 3]))], [rng.choice(HIST_POST) for _ in range(rng.choice([0, 1, 2, 3, 5]))]))
    for i, (pre, post) in enumerate(hists):
        if real_time.time() - t0 > (120 if thorough else 40):
            ctx.notes.append(f"wire-history: budget reached after {i} histories")
            break
        now = rng.choice([ymd(2024, 3, 1, 0, 0, 30), ymd(2025, 1, 1, 0, 10, 0), ymd(2023, 7, 2, 12, 0, 0), ymd(2024, 8, 29, 12, 0, 0)]) + rng.choice(DELTAS)
        now2 = now + rng.choice(SKEWS)
        ents = [e for e in tree_spec(rng, now, rng.choice([1, 3, 6])) if e[0] == e[0].strip()] or [("f", "file", 3, now - 61, 0o644)]
        backend = ("memory", "memory", "pathio", "asyncpathio")[i % 4]
        flavour = "no-mlsx" if i % 5 == 4 else "full"
        ctx.traces_impl += 1
        ctx.case(("wire-history", backend, flavour, tuple(pre), tuple(post)))
        nh += 1
        kinds[(len(pre), len(post))] = kinds.get((len(pre), len(post)), 0) + 1
        await _run_history(ctx, tp, backend, flavour, pre, post, DIR_NAMES[i % 3], ents, now, now2)
    ctx.count("wire-history(simnet):connection histories (refused / accepted commands, then list() + recursive list() + stat())", nh)
    for (a, b), k in sorted(kinds.items()):
        ctx.count(f"wire-history(simnet):histories with {a} steps before login and {b} after", k)


def known(ctx):
    """re-run the canonical replay of every listed finding"""
    import aioftp

    if not ctx.kf:
        return
    tp = install_clocks()
    server, client = aioftp.Server(), aioftp.Client()
    now = ymd(2024, 6, 1, 12, 0, 0)
    for f in ctx.kf:
        for key in f.get("keys", []):
            if key != "c07-list-name-leading-whitespace":
                continue  # F13b is repaired: its witness is a corpus case of the LIST stream now
            ok = replay_key(server, client, tp, key, now)
            if ok is False:
                ctx.known_reproduced(f["id"], f["what"])


def replay_key(server, client, tp, key, now, r=None):
    """-> True when the property holds on the canonical / recorded input, False when violated, None unknown key"""
    r = r or {}
    if key == "c07-list-mode-S-or-T":
        mode = r.get("mode", 0o104644)
        name = r.get("name", "f")
        line = impl_build_list(server, tp, r.get("now", now), mkstats(r.get("size", 5), 0, r.get("mtime", now - 100), 1, mode), name)
        got = impl_parse_list(client, line, naive(r.get("client_now", now)))
        print("line:", repr(line), "->", got)
        return got[0] == "ok" and got[1][0] == name
    if key == "c07-list-name-leading-whitespace":
        name = r.get("name", " a")
        line = impl_build_list(server, tp, r.get("now", now), mkstats(r.get("size", 5), 0, r.get("mtime", now - 100), 1, r.get("mode", 0o100644)), name)
        got = impl_parse_list(client, line, naive(r.get("client_now", now)))
        print("line:", repr(line), "->", got)
        return got[0] == "ok" and got[1][0] == name
    return None


class _ReplayCtx:
    """collects what a wire stream reports while replaying one case"""

    def __init__(self, rng):
        self.rng, self.tier, self.hits, self.notes, self.traces_impl = rng, "quick", [], [], 0

    def case(self, *a):
        pass

    def count(self, *a):
        pass

    def disagree(self, *a):
        pass

    def model(self, calls):
        return [None for _ in calls]

    def violation(self, what, replay):
        self.hits.append((what, replay))


def replay_wire(ctx, tp, key, r):
    """re-run one recorded wire case (fault plan / interleaving) on the real code"""
    import random

    from .. import simnet

    rc = _ReplayCtx(random.Random(0))
    if key == "c07-wire-fault-entry-dropped":
        async def main(net):
            await _replay_fault(rc, tp, r)
    elif key == "c07-wire-history":
        async def main(net):
            h = r["history"]
            await _run_history(rc, tp, r.get("backend", "memory"), r["flavour"], h["pre"], h["post"], r["directory"], entries_as_spec(r["entries"]),
                               r["now"], r["client_now"])
    elif key in ("c07-wire-list", "c07-wire-mlsd") and "cardinality" in r:
        async def main(net):
            H, T = (as_int(x) for x in consts())
            await _big_one(rc, tp, r["backend"], r["cardinality"], entries_as_spec(r["entries"]), r["now"], r["client_now"], H, T, False,
                           [(r["flavour"], (r["raw_command"],))])
    elif key in ("c07-wire-list", "c07-wire-mlsd"):
        async def main(net):
            await _replay_listing(rc, tp, r)
    else:
        async def main(net):
            await _replay_interleave(rc, tp, r, net)
    simnet.run(main, wall_timeout=60)
    for what, _ in rc.hits:
        print(what)
    return not rc.hits


async def _replay_listing(rc, tp, r):
    """one recorded listing session again, on the in-memory backend: directory name, entries, command, clocks"""
    import io

    import aioftp
    from aioftp.pathio import Node

    tp.now = r["now"]
    set_client_now(naive(r["client_now"]))
    dname = r["directory"]
    root = Node("dir", "/", content=[], ctime=1, mtime=1)
    d = Node("dir", dname, content=[], ctime=1, mtime=1)
    root.content += [d, Node("file", "sibling-of-the-listed-directory", ctime=5, mtime=5, content=io.BytesIO(b"s"))]
    truth = []
    for e in r["entries"]:
        kind = e["kind"]
        size = e["size"] if kind == "file" else 0
        d.content.append(Node(kind, e["name"], ctime=e["ctime"], mtime=e["mtime"], content=io.BytesIO(b"x" * size) if kind == "file" else []))
        truth.append(dict(e, size=size, nlink=1, mode=(stat_mod.S_IFREG | 0o666) if kind == "file" else (stat_mod.S_IFDIR | 0o777)))
    server = aioftp.Server([aioftp.User(base_path="/", home_path="/")], path_io_factory=lambda *a, state=None, **kw: aioftp.MemoryPathIO(*a, state=[root], **kw))
    if r.get("flavour") == "no-mlsx":
        del server.commands_mapping["mlsd"], server.commands_mapping["mlst"]
    await server.start("127.0.0.1", 0)
    client = aioftp.Client()
    cmd = r["raw_command"] or "LIST"
    try:
        await client.connect("127.0.0.1", server.server.sockets[0].getsockname()[1])
        await client.login()
        got = await client.list(dname, raw_command=r["raw_command"])
        print(f"list({dname!r}, raw_command={r['raw_command']!r}) ->", sorted(str(p_) for p_, _ in got))
        check_listing(rc, "memory", cmd, truth, got, r["now"], r["client_now"], "replay")
        rc.hits = [h for h in rc.hits if h[1].get("key") != "c07-list-name-leading-whitespace"]  # the listed finding F13a is not this replay's subject
    except Exception as e:  # noqa: BLE001
        print("listing failed:", repr(e)[:200])
        rc.violation("listing failed: " + repr(e)[:200], r)
    finally:
        client.close()
        await server.close()


async def _replay_fault(rc, tp, r):
    import io

    import aioftp
    from aioftp.pathio import Node

    now = ymd(2024, 3, 1, 0, 0, 30)
    tp.now = now
    set_client_now(naive(now))
    root = Node("dir", "/", content=[], ctime=1, mtime=1)
    d = Node("dir", "d", content=[], ctime=1, mtime=1)
    root.content.append(d)
    for i, nm in enumerate(r["entries"]):
        d.content.append(Node("file", nm, ctime=now - 100, mtime=now - 50 - i, content=io.BytesIO(b"x" * (i + 1))))
    kind = r["fault"] if r["fault"] != "slow" else "eio"  # replayed on the in-memory backend
    cls = faulty_factory(aioftp.MemoryPathIO, r["victim"], r["op"], kind)
    server = aioftp.Server([aioftp.User(base_path="/", home_path="/")], path_io_factory=lambda *a, state=None, **kw: cls(*a, state=[root], **kw))
    if r["raw_command"] is None:
        del server.commands_mapping["mlsd"], server.commands_mapping["mlst"]
    await server.start("127.0.0.1", 0)
    client = aioftp.Client()
    try:
        await client.connect("127.0.0.1", server.server.sockets[0].getsockname()[1])
        await client.login()
        got = sorted(str(p_.name) for p_, _ in await client.list("d", raw_command=r["raw_command"]))
        print("listing completed:", got)
        if sorted(r["entries"]) != got:
            rc.violation(f"completed listing {got} != directory {sorted(r['entries'])}", r)
    except Exception as e:  # noqa: BLE001
        print("listing failed:", repr(e)[:200])
    finally:
        client.close()
        await server.close()


async def _replay_interleave(rc, tp, r, net):
    import random

    global _IL_ONLY
    _IL_ONLY = (r["verb"], r["cwd"], r["arg"], [tuple(b) for b in r["between"]])
    try:
        await _wire_interleave(rc, tp, rc.rng, False, net)
    finally:
        _IL_ONLY = None


_IL_ONLY = None


def replay(ctx, data):
    import aioftp

    r = data.get("replay", {})
    key = r.get("key")
    tp = install_clocks()
    server, client = aioftp.Server(), aioftp.Client()
    if key == "c07-ls-date":
        if r.get("off", 0) != 0 and r.get("zone") not in (None, "utc"):
            s = run_tz_worker(r["zone"], [[r["mtime"], r["now"]]])[0][0]
        else:
            s = impl_build_list_mtime(r["mtime"], r["now"])
        got = impl_parse_ls_date(s, naive(r["client_now"] + r.get("off", 0)))
        want, region = date_oracle(int(r["mtime"] // 1), r["now"], r["client_now"], r.get("off", 0))
        print(f"formatted {s!r} parsed {got} expected {want} ({region}); recorded zone {r.get('zone', 'utc')}")
        return want is None or got == want
    if key in ("c07-wire-fault-entry-dropped", "c07-wire-interleave-wrong-directory", "c07-wire-history") or (key in ("c07-wire-list", "c07-wire-mlsd") and "directory" in r):
        return replay_wire(ctx, tp, key, r)
    if key == "c07-ls-date-dst":
        o = run_tz_worker(r["zone"], [[r["mtime"], r["now"], r["client_now"]]])[0]
        got = impl_parse_ls_date(o[0], datetime.datetime(*o[3])) if not o[0].startswith("!") else None
        print(f"under TZ={r['zone']}: formatted {o[0]!r} parsed {got} expected {r['expected']} ({r['region']})")
        return got == r["expected"]
    if key in ("c07-list-mode-S-or-T", "c07-list-name-leading-whitespace"):
        return replay_key(server, client, tp, key, r.get("now", 0), r)
    if key == "c07-list-roundtrip":
        line = impl_build_list(server, tp, r["now"], mkstats(r["size"], 0, r["mtime"], r["nlink"], r["mode"]), r["name"])
        got = impl_parse_list(client, line, naive(r["client_now"]))
        want, _ = date_oracle(r["mtime"], r["now"], r["client_now"], 0)
        print("line:", repr(line), "->", got, "expected modify", want)
        return got[0] == "ok" and got[1][0] == r["name"] and got[1][6] == str(r["size"]) and (want is None or got[1][7] == want)
    if key == "c07-mlsx-roundtrip":
        st = mkstats(r["size"], r["ctime"], r["mtime"], 1, 0) if r["exists"] else None
        line = impl_build_mlsx(server, st, r["kind"], r["name"])
        try:
            p, entry = client.parse_mlsx_line(line)
        except ValueError as e:
            print("line:", repr(line), "->", repr(e))
            return False
        print("line:", repr(line), "->", str(p), dict(entry))
        return str(p) == r["name"] and (not r["exists"] or (entry.get("size") == str(r["size"]) and entry.get("modify") == fmt14(naive(r["mtime"]), "second")))
    if key == "c07-mlsx-time-subsecond":
        x = float.fromhex(r["mtime_hex"])
        got = aioftp.Server._format_mlsx_time(x)
        print(f"_format_mlsx_time({x!r}) -> {got}; UTC second (floor) {r['expected']}")
        return got == r["expected"]
    if key == "c07-mlsx-time":
        got = run_tz_worker(r.get("zone", "UTC"), [[r["mtime"], r["mtime"]]])[0][1]
        print("under TZ", r.get("zone"), "_format_mlsx_time ->", got)
        return got == fmt14(naive(r["mtime"]), "second")
    print("replay payload (wire-level or unknown key; re-run bin/check C07 with the same VERIF_SEED):", json.dumps(data)[:2000])
    return False


def search(ctx):
    """failing-input search: the oracle already ran on every implementation output; widen once."""
    if ctx.violations or ctx.tier == "thorough" or ctx.exe is None:
        return
    try:
        correspondence(ctx, budget=1)
    except Exception as e:
        ctx.notes.append(f"search aborted: {e!r}")


if __name__ == "__main__":
    if len(sys.argv) >= 3 and sys.argv[1] == "--tzworker":
        tz_worker()
