"""C09 — client tree operations (upload, download, recursive list, remove) are faithful.

Wire-level correspondence of coq/Model/ClientTree.v with the REAL aioftp.Client talking to the REAL
aioftp.Server on harness/simnet.py, and the property oracle (an independent Python `graft`, the true
entry multiset, the true tree minus a subtree) evaluated on what the implementation actually did.

One case = one session on a fresh in-memory network:
    populate the server backend (bystanders [+ an older copy at the destination]) and the client backend,
    CWD to the working directory, upload(source, destination, write_into, block_size)   -> remote tree
    list(path, recursive=True)                                                       -> multiset of paths
    download(path, local destination, write_into, block_size)                        -> local tree
    remove(path)                                                                     -> remote tree
Smoke test:  bin/check C09 quick
"""
import asyncio
import functools
import io
import itertools
import os
import pathlib
import shutil

import aioftp
import aioftp.pathio

from .. import core, simnet, sx

ID = "C09"
EXTRACT = "ExC09"
TECHNIQUE = (
    "Coq proof (get/set lemmas of path-indexed updates on rose trees, order-independence of consistent "
    "operation scripts, BFS/DFS permutation, fuelled recursion) about an executable model of "
    "Client.upload/download/list/remove/make_directory over an abstract remote file system; the model's one "
    "source-dependent parameter (how upload computes a child's destination) and the surrounding path plumbing are "
    "re-read from client.py by a fail-closed py2v translator on every run and re-checked as a closed obligation; "
    "tied to the code by wire-level differential correspondence of the extracted model against the real client and "
    "server on an in-memory network, with independent Python oracles evaluated on the implementation's results"
)
LEVEL_TEXT = (
    "Theorems of coq/Props/C09.v hold for every tree, destination, write_into, cwd and every remote/local state "
    "satisfying the stated no-conflict hypotheses (Closed under the global context): C09_upload_spec (directory upload "
    "= graft at destination[/source.name], nothing else changed, for the code /repo has now), C09_upload_file_spec, "
    "C09_make_directory_spec, C09_download_spec (exact), C09_list_recursive_exact (permutation of the subtree's entries), "
    "C09_remove_spec (exact), C09_fuel_enough; C09_session_no_hidden_state: a session (any sequence of cd / mkdir / upload / "
    "remove on one client) is the fold of the single operations over (server-side cwd, remote tree), each operation's effect "
    "being the documented function of that pair and its arguments whatever preceded it. C09_source_obligations ties the model's upload form and the path plumbing "
    "to client.py (regenerated each run; the pre-fix form of upload computes false and any third form fails closed; the "
    "worklists of the recursive lister and of upload are created without a bound: lister_queue_unbounded, upload_queue_unbounded). "
    "C09_list_worklist_any_length: from any number of pending directories the lister returns every entry below the current and "
    "below every pending directory exactly once (nothing queued is dropped); C09_list_every_width: the directory with n "
    "sub-directories is listed completely (2n entries) for every n. "
    "C09_hist_* are historical statements about the pre-fix upload (what a revert would do). The model is hand-written; "
    "its tie to the code is a bounded-exhaustive wire-level correspondence (all tree shapes to depth 3 / fan-out 2 x "
    "destinations x write_into x cwd, MLSD and LIST-fallback servers, memory and disk backends on both sides)."
)
LEVEL_NOTE = (
    "Trusted: Coq kernel; extraction cross-checked with vm_compute; py2v (syntactic classification of upload/download's "
    "path computations); harness + simnet. Modelled not verified: "
    "pathlib.PurePosixPath on well-formed parts (no '.', '..', '/' inside a name), the wire protocol below the "
    "abstract operations (MLST/MLSD/LIST parsing, PASV, block-wise transfer), backends (MemoryPathIO, PathIO)."
)
TRUSTED = [
    "abstraction: one FTP command = one abstract operation on a rose tree (Stat/Mkd/Stor/List/Dele/Rmd/Retr); "
    "block-wise transfer, PASV and MLSD-vs-LIST parsing are below the model (exercised by the correspondence)",
    "path algebra: PurePosixPath restricted to well-formed names (non-empty, no '/', not '.' or '..')",
]
ASSUMPTIONS = [
    "theorems assume no file/directory conflicts between source and destination, an existing directory as cwd, "
    "sibling names distinct; sources with an empty name ('' or '/') are outside the model (LIST-fallback stat fails on them)",
]

# Model function 0 stands for Client.upload AS /repo HAS IT NOW: Extract/ExC09.v instantiates the model's
# `fixed` parameter with Gen.ClientWalks.upload_relative_fixed, which tools/py2v/gen_client_walks.py reads from
# client.py on every run (true = `relative = destination / path.relative_to(source)`; false = the two-armed form before
# "fix: Client.upload places a directory's children under the destination" (former finding F1) -- then
# Props/C09.v stops compiling and the oracle below reports the misplaced uploads; any other computation fails closed).
# 1 = Model.upload (the repaired code), 9 = the historical pre-fix code, 10 = the flag itself.
UPLOAD_MODEL_FN = 0
GEN_FILE = core.COQ / "Gen" / "ClientWalks.v"

TMP_ROOT = core.VERIF / "build" / "tmp"


# ----------------------------------------------------------------------------------------------
# trees: bytes = file, dict(name -> tree) = directory (insertion ordered)
def enc_tree(t):
    if isinstance(t, (bytes, bytearray)):
        return [0, bytes(t)]
    return [1, [[n, enc_tree(c)] for n, c in t.items()]]


def dec_tree(s):
    if s[0] == 0:
        return bytes(s[1])
    return {sx.txt(n): dec_tree(c) for n, c in s[1]}


def canon(t):
    if isinstance(t, (bytes, bytearray)):
        return ("f", bytes(t))
    return ("d", tuple(sorted((n, canon(c)) for n, c in t.items())))


def show(t):
    """canonical JSON-able form"""
    if isinstance(t, (bytes, bytearray)):
        return bytes(t).decode("latin-1")
    return {n: show(t[n]) for n in sorted(t)}


def clone(t):
    if isinstance(t, (bytes, bytearray)):
        return bytes(t)
    return {n: clone(c) for n, c in t.items()}


def size(t):
    return 1 if isinstance(t, bytes) else 1 + sum(size(c) for c in t.values())


def sub(t, parts):
    for p in parts:
        if not isinstance(t, dict) or p not in t:
            return None
        t = t[p]
    return t


def overlay_oracle(dst, src):
    """independent statement of the placement rule: src laid over dst"""
    if isinstance(src, bytes):
        return src
    out = clone(dst) if isinstance(dst, dict) else {}
    for n, c in src.items():
        out[n] = overlay_oracle(out.get(n, {}), c)
    return out


def graft_oracle(root, parts, src):
    root = clone(root)
    if not parts:
        return overlay_oracle(root, src)
    cur = root
    for p in parts[:-1]:
        if not isinstance(cur.get(p), dict):
            cur[p] = {}
        cur = cur[p]
    cur[parts[-1]] = overlay_oracle(cur.get(parts[-1], {}), src)
    return root


def compatible(dst, src):
    """no file/directory conflict when src is laid over dst (dst None = nothing there)"""
    if dst is None:
        return True
    if isinstance(src, bytes):
        return isinstance(dst, bytes)
    if isinstance(dst, bytes):
        return False
    return all(compatible(dst.get(n), c) for n, c in src.items())


def graft_compatible(root, parts, src):
    cur = root
    for i, p in enumerate(parts):
        if isinstance(cur, bytes):
            return False
        if p not in cur:
            return True
        cur = cur[p]
    return compatible(cur, src)


def ensure_dir_oracle(root, parts):
    return graft_oracle(root, parts, {})


def remove_oracle(root, parts):
    root = clone(root)
    cur = root
    for p in parts[:-1]:
        cur = cur[p]
    del cur[parts[-1]]
    return root


def entries_oracle(t, pre):
    out = []
    if isinstance(t, dict):
        for n, c in t.items():
            out.append((pre + (n,), isinstance(c, dict)))
            out.extend(entries_oracle(c, pre + (n,)))
    return out


def ppath(s):
    p = pathlib.PurePosixPath(s)
    return [p.is_absolute(), [x for x in p.parts if x != "/"]]


def resolve(cwd_parts, s):
    ab, parts = ppath(s)
    return list(parts) if ab else list(cwd_parts) + list(parts)


# ----------------------------------------------------------------------------------------------
# backends
def mem_nodes(t):
    out = []
    for n, c in t.items():
        if isinstance(c, dict):
            out.append(aioftp.pathio.Node("dir", n, content=mem_nodes(c)))
        else:
            out.append(aioftp.pathio.Node("file", n, content=io.BytesIO(c)))
    return out


def mem_state(t):
    return [aioftp.pathio.Node("dir", "/", content=mem_nodes(t))]


def mem_read(state):
    def walk(nodes):
        out = {}
        for n in nodes:
            out[n.name] = walk(n.content) if n.type == "dir" else bytes(n.content.getvalue())
        return out

    return walk(state[0].content)


def disk_write(root, t):
    root.mkdir(parents=True, exist_ok=True)
    for n, c in t.items():
        if isinstance(c, dict):
            disk_write(root / n, c)
        else:
            (root / n).write_bytes(c)


def disk_read(root):
    out = {}
    for p in sorted(root.iterdir()):
        out[p.name] = disk_read(p) if p.is_dir() else p.read_bytes()
    return out


async def not_implemented(connection, rest):
    connection.response("502", ":P")
    return True


class ListFallbackServer(aioftp.Server):
    """a server without MLSD/MLST (as tests/test_list_fallback.py builds one): the client falls back to LIST"""

    def __init__(self, *a, **kw):
        super().__init__(*a, **kw)
        self.commands_mapping = dict(self.commands_mapping)
        self.commands_mapping["mlsd"] = not_implemented
        self.commands_mapping["mlst"] = not_implemented


class Runaway(Exception):
    """the client issued more commands than any terminating walk over these trees needs"""


class CountingClient(aioftp.Client):
    LIMIT = 4000
    issued = 0

    async def command(self, *a, **kw):
        self.issued += 1
        if self.issued > self.LIMIT:
            raise Runaway()
        return await super().command(*a, **kw)


class DotPath(pathlib.PurePosixPath):
    """the directory itself, listed under the name '.' (pathlib would normalise `path / "."` away)"""

    name = property(lambda self: ".")


class DotsPathIO(aioftp.MemoryPathIO):
    """a backend whose listings start with '.' and '..' like a Unix ftpd; the client must skip them"""

    def list(self, path):
        inner = super().list(path)
        outer_self = self

        class Lister(aioftp.AbstractAsyncLister):
            pre = None

            async def __anext__(cls):
                if cls.pre is None:
                    node = outer_self.get_node(path)
                    cls.pre = [DotPath(path), path / ".."] if node is not None and node.type == "dir" else []
                if cls.pre:
                    return cls.pre.pop(0)
                return await inner.__anext__()

        return Lister(timeout=self.timeout)

    def get_node(self, path):
        # '.' and '..' resolve like on a real file system so that the listing can stat them
        parts = []
        for p in self._absolute(path).parts:
            if p == ".":
                continue
            if p == "..":
                if len(parts) > 1:
                    parts.pop()
                continue
            parts.append(p)
        return super().get_node(pathlib.PurePosixPath(*parts))


# ----------------------------------------------------------------------------------------------
# case generation
def leaf_kinds():
    return ["E", "F", "D"]  # empty file, non-empty file, empty directory


def shapes(depth, ordered):
    """tree shapes (nested tuples / leaf kinds) of at most `depth` levels, fan-out <= 2"""
    if depth == 1:
        return list(leaf_kinds())
    below = shapes(depth - 1, ordered)
    out = list(leaf_kinds())
    out += [(a,) for a in below]
    if ordered:
        out += [(a, b) for a in below for b in below]
    else:
        out += [(below[i], below[j]) for i in range(len(below)) for j in range(i, len(below))]
    return out


NAME_SCHEMES = [
    # per level: names of first / second child.  0: same names on every level (a/a/a, a/b/a ...)
    [("a", "b"), ("a", "b"), ("a", "b")],
    # 1: collisions with the source name and the destination components
    [("foo", "x"), ("y", "foo"), ("x", "y")],
    # 2: collisions with bystanders and the working directory
    [("w", "keep"), ("k", "w"), ("foo", "other")],
    # 3: legal names that LOOK special: two or more consecutive dots inside / at the start / at the end of a name, a name
    # of dots only (but never exactly '.' or '..'), a dotted directory with a whole sub-tree below it
    [("v1..v2", "a..b.bin"), ("..x", "..."), ("report..final.txt", "x..")],
]


def wide_tree(spec):
    """WIDTH (the number of directories pending at once in a breadth-first walk), the dimension the narrow shapes above
    lack.  'W<n>': one directory with n sub-directories each holding one file (n directories pending at once), plus a
    file and an empty directory next to them; 'G<a>x<b>': a grid, a directories each with b sub-directories each
    holding one file (up to a*b pending at once: the first level is still queued while the second is appended)"""
    if spec[0] == "W":
        n = int(spec[1:])
        out = {"d%03d" % i: {"f": ("<d%03d>" % i).encode()} for i in range(n)}
        out["top"] = b"T"
        out["void"] = {}
        return out
    a, b = (int(x) for x in spec[1:].split("x"))
    return {"g%02d" % i: {"h%02d" % j: {"leaf": ("<%d.%d>" % (i, j)).encode()} for j in range(b)} for i in range(a)}


def is_wide(shape):
    return isinstance(shape, str) and shape[0] in "WG"


def max_pending(t):
    """largest number of directories waiting at once in a breadth-first walk of t (FIFO queue, children appended)"""
    queue, best = [t], 0
    while queue:
        cur = queue.pop(0)
        queue += [c for c in cur.values() if isinstance(c, dict)]
        best = max(best, len(queue))
    return best


def build(shape, scheme, level=0, path="foo"):
    if is_wide(shape):
        return wide_tree(shape)
    if shape == "E":
        return b""
    if shape == "F":
        return ("<" + path + ">").encode()
    if shape == "D":
        return {}
    names = NAME_SCHEMES[scheme][level]
    return {names[i]: build(s, scheme, level + 1, path + "/" + names[i]) for i, s in enumerate(shape)}


def depth_of(shape):
    return 1 if isinstance(shape, str) else 1 + max(depth_of(s) for s in shape)


DESTS = ["", "x", "x/y", "/x/y"]
CWDS = ["/", "/w"]
BLOCKS = [1, 4, 8192]
BYSTANDERS = {"keep": {"k": b"K"}, "w": {"other": b"O", "keep": {"k": b"wk"}}}


def old_version(t):
    """an older copy of the same tree: other contents, one extra entry per directory"""
    if isinstance(t, bytes):
        return b"OLD"
    out = {n: old_version(c) for n, c in t.items()}
    out["zzz"] = b"Z"
    return out


LOCAL_OLD = [None, "longer", "shorter", "equal", "empty", "mixed"]


def local_old_version(t, kind, counter=None):
    """an older LOCAL copy of the tree about to be downloaded: every file replaced by contents that are strictly
    longer / shorter / of equal length / empty compared with the remote contents ("mixed": rotating per file, plus
    one extra entry per directory that the download must leave alone)"""
    counter = counter if counter is not None else [0]
    if isinstance(t, (bytes, bytearray)):
        k = kind
        if kind == "mixed":
            k = ["longer", "shorter", "equal", "empty"][counter[0] % 4]
            counter[0] += 1
        if k == "longer":
            return bytes(t) + b"~OLD-TAIL~"
        if k == "shorter":
            return b"o" * (len(t) // 2)
        if k == "equal":
            return b"o" * len(t)
        return b""
    out = {n: local_old_version(c, kind, counter) for n, c in t.items()}
    if kind == "mixed":
        out["lzz"] = b"LZ"
    return out


def make_cases(ctx):
    thorough = ctx.tier == "thorough"
    root_shapes = [s for s in shapes(3, thorough) if not isinstance(s, str)]
    root_shapes.insert(0, "D")  # the empty directory
    file_shapes = ["E", "F"]
    combos = list(itertools.product(DESTS, (False, True), CWDS))  # 16
    cases = []
    k = 0
    for si, shape in enumerate(root_shapes + file_shapes):
        small = isinstance(shape, str) or depth_of(shape) <= 2
        per_shape = combos if (thorough or small) else [combos[(si * 5 + j * 3) % 16] for j in range(3)]
        for dst, wi, cwd in per_shape:
            if isinstance(shape, str) and shape != "D" and dst == "" and wi:
                continue  # a file written "into" the empty destination has no name: outside the property
            reps = 2 if thorough else 1
            for _ in range(reps):
                k += 1
                cases.append(
                    dict(
                        shape=shape,
                        scheme=(k // 2) % len(NAME_SCHEMES) if not isinstance(shape, str) else 0,
                        dst=dst,
                        wi=wi,
                        cwd=cwd,
                        bs=BLOCKS[k % 3],
                        fallback=(k // 3) % 2 == 1,
                        sdisk=(k // 5) % 4 == 3,
                        cdisk=(k // 7) % 4 == 2,
                        merge=(k // 11) % 3 == 1,
                        src_abs=(k // 13) % 2 == 1,
                        lcwd=["/", "/lw"][(k // 4) % 2],
                        ldst=DESTS[(k // 2) % 4],
                        lwi=(k // 8) % 2 == 1,
                        lold=LOCAL_OLD[k % 6],
                        pick=k,
                    )
                )
    return cases


def wide_cases(ctx):
    """wide trees (hundreds of directories pending at once), deterministic, in-memory on both sides.
    MLSD server: the session uploads the wide tree, lists recursively, downloads and removes a path that contains it
    (pick 0 / 1 = the largest directories, relative / absolute arguments).
    LIST-fallback server: there every stat() is a LIST of the parent directory, so an upload / download / remove of a
    directory with n children costs n listings of n lines; in the quick tier the wide tree is planted on the server
    (`rwide`), the session uploads a small tree, lists the wide tree recursively (one LIST per directory) and downloads /
    removes small paths (`paths`); the thorough tier runs all four operations on the wide tree against that server too."""
    small = ("F", "D")
    rows = [
        # shape, dst, write_into, cwd, fallback, pick, lold, rwide, paths
        ("W300", "x", False, "/w", False, 0, None, None, None),
        ("G20x20", "/x/y", True, "/w", False, 1, "mixed", None, None),
        (small, "x", False, "/wr", True, 0, None, [["W300", ["wr"]]], ["", "/keep", "x"]),
        (small, "x/y", True, "/", True, 1, "longer", [["G20x20", ["wr", "g"]]], ["/wr/g", "w/keep", "/x"]),
    ]
    if ctx.tier == "thorough":
        rows += [
            ("W1100", "x", True, "/w", False, 1, None, None, None),
            ("G34x34", "x/y", False, "/", False, 0, "shorter", None, None),
            ("G6x70", "/x/y", True, "/w", False, 1, "equal", None, None),
            ("W300", "x/y", True, "/", True, 1, "longer", None, None),
            ("G20x20", "x", False, "/", True, 0, None, None, None),
            ("W300", "x", False, "/", False, 1, "empty", None, None),
            (small, "", False, "/w", True, 0, None, [["W1100", ["wr"]], ["G34x34", ["w", "g"]]], ["/", "/keep", "foo"]),
        ]
    out = []
    for k, (shape, dst, wi, cwd, fb, pick, lold, rwide, paths) in enumerate(rows):
        disk = k == 9
        case = dict(shape=shape, scheme=0, dst=dst, wi=wi, cwd=cwd, bs=[8192, 4][k % 2], fallback=fb, sdisk=disk,
                    cdisk=disk, merge=False, src_abs=k % 2 == 1, lcwd=["/", "/lw"][k % 2], ldst=["x", "x/y"][k % 2],
                    lwi=k % 2 == 1, lold=lold, pick=pick, wide=True)
        if rwide:
            case["rwide"] = rwide
            case["paths"] = paths
        out.append(case)
    return out


def remote_for(case, src):
    remote = clone(BYSTANDERS)
    if case["merge"]:
        cwdp = [p for p in case["cwd"].split("/") if p]
        dst2 = str(pathlib.PurePosixPath(case["dst"]) / ("" if case["wi"] else "foo"))
        remote = graft_oracle(remote, resolve(cwdp, dst2), old_version(src))
        remote = graft_oracle(remote, ["x", "old"], b"old")
    for spec, at in case.get("rwide") or []:
        remote = graft_oracle(remote, list(at), wide_tree(spec))
    return remote


# ----------------------------------------------------------------------------------------------
# running the real code
def exc_name(e):
    return type(e).__name__


def choose_paths(case, t1, cwdp):
    """paths for list / download / remove, chosen from what is really on the server now"""
    if case.get("paths"):
        return tuple(case["paths"])
    dirs = [((), t1)] + [(p, sub(t1, p)) for p, d in entries_oracle(t1, ()) if d]
    dirs.sort(key=lambda pd: (-size(pd[1]), pd[0]))
    files = [p for p, d in entries_oracle(t1, ()) if not d]
    k = case["pick"]

    def as_arg(parts, prefer_rel):
        parts = list(parts)
        if prefer_rel and parts[: len(cwdp)] == cwdp:
            return "/".join(parts[len(cwdp):])
        return "/" + "/".join(parts)

    lst = as_arg(dirs[k % min(3, len(dirs))][0], k % 2 == 0)
    nonroot = [d for d in dirs if d[0] and list(d[0]) != cwdp[: len(d[0])]]
    if files and k % 5 == 4:
        dl = as_arg(files[k % len(files)], k % 3 == 0)
    else:
        dl = as_arg(nonroot[(k // 2) % min(3, len(nonroot))][0], k % 3 == 0)
    if k % 7 == 6:
        rm = "nonexistent"
    elif files and k % 7 == 5:
        rm = as_arg(files[(k // 3) % len(files)], k % 2 == 1)
    else:
        rm = as_arg(nonroot[(k // 3) % min(4, len(nonroot))][0], k % 2 == 1)
    return lst, dl, rm


def run_case(case, src, remote, tmp, wall_timeout=None):
    """returns a dict of everything observed on the real client/server"""
    if wall_timeout is None:
        wall_timeout = 60 + (size(src) + size(remote)) // 2
    cwdp = [p for p in case["cwd"].split("/") if p]
    lcwdp = [p for p in case["lcwd"].split("/") if p]
    local0 = {"lkeep": {"l": b"L"}}
    local0 = graft_oracle(local0, lcwdp + ["foo"], src)
    # defaults in case the session does not come to an end (a client that walks forever)
    obs = {"local0": local0, "upload_exc": "Timeout", "t1": remote, "paths": ("", "keep", "keep"), "list": "Timeout",
           "lwi": False, "download_exc": "Timeout", "local1": local0, "remove_exc": "Timeout", "t2": remote}
    old_cwd = os.getcwd()
    sroot = croot = None
    if case["sdisk"]:
        sroot = tmp / "srv"
        disk_write(sroot, remote)
    if case["cdisk"]:
        croot = tmp / "cli"
        disk_write(croot, local0)

    def lpath(s):
        """a local path argument: on disk the local root is croot"""
        if not case["cdisk"]:
            return s
        return str(croot) + s if s.startswith("/") else s

    async def main(net):
        cls = ListFallbackServer if case["fallback"] else aioftp.Server
        if case["sdisk"]:
            server = cls([aioftp.User(base_path=sroot)], path_io_factory=aioftp.PathIO, block_size=case["bs"])
        else:
            factory = DotsPathIO if case.get("dots") else aioftp.MemoryPathIO
            server = cls(path_io_factory=factory, block_size=case["bs"])
            server.path_io_factory.state = mem_state(remote)
        await server.start("127.0.0.1", 2121)
        if case["cdisk"]:
            client = CountingClient(path_io_factory=aioftp.PathIO)
            os.chdir(croot.joinpath(*lcwdp))
        else:
            client = CountingClient(path_io_factory=functools.partial(aioftp.MemoryPathIO, cwd=case["lcwd"]))
            client.path_io.fs = mem_state(local0)
        # the bound on the number of commands (a walk that does not end) grows with the tree: a terminating session needs
        # fewer than 60 commands per node (LIST-fallback: MLST refused, MLSD refused, EPSV, LIST for every stat)
        client.LIMIT = CountingClient.LIMIT + (60 * (size(src) + size(remote)) if case.get("wide") else 0)
        await client.connect("127.0.0.1", 2121)
        await client.login()
        if case["cwd"] != "/":
            await client.change_directory(case["cwd"])

        def remote_now():
            return disk_read(sroot) if case["sdisk"] else mem_read(server.path_io_factory.state)

        def local_now():
            return disk_read(croot) if case["cdisk"] else mem_read(client.path_io.fs)

        # ---- upload
        source = lpath(case["lcwd"].rstrip("/") + "/foo") if case["src_abs"] else "foo"
        try:
            await client.upload(source, case["dst"], write_into=case["wi"], block_size=case["bs"])
            obs["upload_exc"] = None
        except Runaway:
            raise
        except Exception as e:  # whatever the client raises is an observation, not a harness failure
            obs["upload_exc"] = exc_name(e)
        t1 = remote_now()
        obs["t1"] = t1
        lst, dl, rm = choose_paths(case, t1, cwdp)
        obs["paths"] = (lst, dl, rm)
        # ---- recursive list
        try:
            items = await client.list(lst, recursive=True)
            obs["list"] = sorted((str(p), info["type"]) for p, info in items)
        except Runaway:
            raise
        except Exception as e:  # whatever the client raises is an observation, not a harness failure
            obs["list"] = exc_name(e)
        # ---- download (a file written "into" the empty destination has no name: use write_into=False there)
        dl_is_file = isinstance(sub(t1, resolve(cwdp, dl)), bytes)
        obs["lwi"] = case["lwi"] and not (dl_is_file and case["ldst"] == "")
        # ---- an older copy already at the LOCAL destination (longer / shorter / equal / empty files): the property
        # says the local tree afterwards is the remote subtree whatever was there
        if case.get("lold"):
            dlp0 = pathlib.PurePosixPath(dl)
            ltarget = resolve(lcwdp, str(pathlib.PurePosixPath(case["ldst"]) / ("" if obs["lwi"] else dlp0.name)))
            wanted = sub(t1, resolve(cwdp, dl))
            if ltarget and wanted is not None and graft_compatible(local0, ltarget, wanted):
                pre = graft_oracle(local0, ltarget, local_old_version(wanted, case["lold"]))
                if case["cdisk"]:
                    disk_write(croot, pre)
                else:
                    client.path_io.fs = mem_state(pre)
                obs["local0"] = local_now()
                obs["lold_applied"] = True
        try:
            await client.download(dl, lpath(case["ldst"]), write_into=obs["lwi"], block_size=case["bs"])
            obs["download_exc"] = None
        except Runaway:
            raise
        except Exception as e:  # whatever the client raises is an observation, not a harness failure
            obs["download_exc"] = exc_name(e)
        obs["local1"] = local_now()
        # ---- remove
        try:
            await client.remove(rm)
            obs["remove_exc"] = None
        except Runaway:
            raise
        except Exception as e:  # whatever the client raises is an observation, not a harness failure
            obs["remove_exc"] = exc_name(e)
        obs["t2"] = remote_now()
        try:
            await client.quit()
        except Runaway:
            raise
        except Exception as e:  # a desynchronised control channel after a failed walk: an observation
            obs["quit_exc"] = exc_name(e)
        await server.close()

    try:
        simnet.run(main, wall_timeout=wall_timeout)
    except (Runaway, RecursionError):
        obs["runaway"] = True
    finally:
        os.chdir(old_cwd)
        for d in (sroot, croot):
            if d is not None:
                shutil.rmtree(d, ignore_errors=True)
    return obs


def model_tree(r):
    """decoded `res tree` -> ('ok', tree) | ('fail',) | ('fuel',)"""
    if r[0] == 0:
        return ("ok", dec_tree(r[1]))
    if r[0] == -1:
        return ("fail",)
    return ("fuel",)


def replay_payload(case, key, **kw):
    d = {k: (list(v) if isinstance(v, tuple) else v) for k, v in case.items()}
    d["key"] = key
    d.update(kw)
    return d


def gen_flag():
    """(translator_ok, upload_relative_fixed) as written by py2v for this run; (False, None) when it failed closed"""
    import re

    try:
        txt = GEN_FILE.read_text()
    except OSError:
        return False, None
    m = re.search(r"Definition upload_relative_fixed : bool := (true|false)\.", txt)
    ok = re.search(r"Definition translator_ok : bool := true\.", txt) is not None
    return (ok and m is not None), (m.group(1) == "true" if m else None)


def check_cases(ctx, cases, tmp, use_model=True):
    """run every case on the real code, then the model in one batch, then compare.
    use_model=False: only the property oracles are evaluated on the implementation (failing-input search when the
    model could not be built, e.g. the translator met a third form of upload)"""
    observed = []
    for case in cases:
        src = build(case["shape"], case["scheme"])
        remote = remote_for(case, src)
        obs = run_case(case, src, remote, tmp)
        ctx.traces_impl += 1
        observed.append((case, src, remote, obs))

    jobs = []
    for case, src, remote, obs in observed:
        cwdp = [p for p in case["cwd"].split("/") if p]
        lcwdp = [p for p in case["lcwd"].split("/") if p]
        up_args = [cwdp, enc_tree(remote), "foo", enc_tree(src), ppath(case["dst"]), case["wi"]]
        lst, dl, rm = obs["paths"]
        t1 = enc_tree(obs["t1"])
        jobs += [
            (UPLOAD_MODEL_FN, up_args),
            (1, up_args),
            (2, up_args),
            (3, [cwdp, t1, ppath(lst), True]),
            (5, [cwdp, t1, lcwdp, enc_tree(obs["local0"]), ppath(dl), ppath(case["ldst"]), obs["lwi"]]),
            (4, [cwdp, t1, ppath(rm)]),
        ]
    outs = ctx.model(jobs) if use_model else None
    xcheck = []
    for i, (case, src, remote, obs) in enumerate(observed):
        if use_model:
            m_up, m_fixed, m_graft, m_list, m_dl, m_rm = outs[6 * i : 6 * i + 6]
        if use_model and i % 40 == 0 and len(xcheck) < 60 and not case.get("wide"):
            xcheck += [(fn, a, o) for (fn, a), o in zip(jobs[6 * i : 6 * i + 6], outs[6 * i : 6 * i + 6])]
        cwdp = [p for p in case["cwd"].split("/") if p]
        lcwdp = [p for p in case["lcwd"].split("/") if p]
        lst, dl, rm = obs["paths"]
        tag = {k: v for k, v in case.items()}
        ctx.case(("c09", repr(sorted(case.items()))))
        ctx.count("server=" + ("disk" if case["sdisk"] else "mem") + ("+LIST" if case["fallback"] else "+MLSD"))
        ctx.count("client=" + ("disk" if case["cdisk"] else "mem"))
        ctx.count(f"dst={case['dst']!r} write_into={case['wi']} cwd={case['cwd']}")
        ctx.count("local destination before download=" + (case.get("lold") if obs.get("lold_applied") else "fresh"))
        ctx.count("source=" + ("file" if isinstance(src, bytes) else f"dir(size {min(size(src), 6)}{'+' if size(src) > 6 else ''})"))
        ctx.sample({"source": show(src), "dst": case["dst"], "write_into": case["wi"], "cwd": case["cwd"],
                    "remote_after_upload": show(obs["t1"])})

        # ---- upload: model vs implementation
        mu = model_tree(m_up) if use_model else None
        impl_up = ("ok", obs["t1"]) if obs["upload_exc"] is None else ("fail",)
        if use_model and (mu[0] != impl_up[0] or (mu[0] == "ok" and canon(mu[1]) != canon(obs["t1"]))):
            ctx.disagree("upload", {**tag, "source": show(src)},
                         show(mu[1]) if mu[0] == "ok" else mu[0],
                         show(obs["t1"]) if obs["upload_exc"] is None else obs["upload_exc"])
        # ---- the specification, three ways: Python oracle, model graft, model of the fixed code
        dst2 = pathlib.PurePosixPath(case["dst"]) / ("" if case["wi"] else "foo")
        want = graft_oracle(remote, resolve(cwdp, str(dst2)), src)
        mg = dec_tree(m_graft) if use_model else want
        mf = model_tree(m_fixed) if use_model else ("ok", want)
        if canon(mg) != canon(want):
            ctx.disagree("graft-vs-oracle", {**tag, "source": show(src)}, show(mg), show(want))
        if graft_compatible(remote, resolve(cwdp, str(dst2)), src) and (mf[0] != "ok" or canon(mf[1]) != canon(want)):
            ctx.disagree("upload_fixed-vs-oracle", {**tag, "source": show(src)},
                         show(mf[1]) if mf[0] == "ok" else mf[0], show(want))
        # ---- property oracle on the implementation (the property speaks of conflict-free placements)
        if not graft_compatible(remote, resolve(cwdp, str(dst2)), src):
            ctx.count("upload-conflict(no oracle)")
        elif obs["upload_exc"] is not None or canon(obs["t1"]) != canon(want):
            key = "c09-upload-mismatch"
            ctx.violation(
                "upload did not place the tree at the documented destination",
                replay_payload(case, key, source=show(src), expected=show(want),
                               got=show(obs["t1"]) if obs["upload_exc"] is None else obs["upload_exc"]),
            )

        # ---- recursive list
        t1 = obs["t1"]
        root = sub(t1, resolve(cwdp, lst))
        ml = None
        if use_model and m_list[0] == 0:
            ml = sorted(
                (str(pathlib.PurePosixPath(("/" if it[0][0] else "") + "/".join(sx.txts(it[0][1])))),
                 "dir" if it[1] else "file")
                for it in m_list[1]
            )
        if use_model and ml != obs["list"]:
            ctx.disagree("list", {**tag, "path": lst, "tree": show(t1)}, ml, obs["list"])
        truth = sorted((str(pathlib.PurePosixPath(lst).joinpath(*p)), "dir" if d else "file")
                       for p, d in entries_oracle(root, ()))
        mp = max_pending(root) if isinstance(root, dict) else 0
        ctx.count("recursive list: width of the listed subtree (directories pending at once, breadth-first)="
                  + (str(mp) if mp <= 4 else "5-256" if mp <= 256 else "257-512" if mp <= 512 else ">512"))
        if obs["list"] != truth:
            ctx.violation("recursive list is not exactly the entries of the subtree",
                          replay_payload(case, "c09-list-mismatch", path=lst, tree=show(t1), got=obs["list"], expected=truth))

        # ---- download
        md = model_tree(m_dl) if use_model else None
        impl_dl = ("ok", obs["local1"]) if obs["download_exc"] is None else ("fail",)
        if use_model and (md[0] != impl_dl[0] or (md[0] == "ok" and canon(md[1]) != canon(obs["local1"]))):
            ctx.disagree("download", {**tag, "source": dl, "ldst": case["ldst"], "lwi": obs["lwi"], "lcwd": case["lcwd"],
                                      "tree": show(t1)},
                         show(md[1]) if md[0] == "ok" else md[0],
                         show(obs["local1"]) if obs["download_exc"] is None else obs["download_exc"])
        dlp = pathlib.PurePosixPath(dl)
        ldst2 = pathlib.PurePosixPath(case["ldst"]) / ("" if obs["lwi"] else dlp.name)
        lwant = graft_oracle(obs["local0"], resolve(lcwdp, str(ldst2)), sub(t1, resolve(cwdp, dl)))
        if not graft_compatible(obs["local0"], resolve(lcwdp, str(ldst2)), sub(t1, resolve(cwdp, dl))):
            ctx.count("download-conflict(no oracle)")
        elif obs["download_exc"] is not None or canon(obs["local1"]) != canon(lwant):
            ctx.violation("download did not place the tree at the documented destination",
                          replay_payload(case, "c09-download-mismatch", source=dl, tree=show(t1), local_before=show(obs["local0"]),
                                         local_destination=case["ldst"], expected=show(lwant),
                                         got=show(obs["local1"]) if obs["download_exc"] is None else obs["download_exc"]))

        # ---- remove
        mr = model_tree(m_rm) if use_model else None
        impl_rm = ("ok", obs["t2"]) if obs["remove_exc"] is None else ("fail",)
        if use_model and (mr[0] != impl_rm[0] or (mr[0] == "ok" and canon(mr[1]) != canon(obs["t2"]))):
            ctx.disagree("remove", {**tag, "path": rm, "tree": show(t1)},
                         show(mr[1]) if mr[0] == "ok" else mr[0],
                         show(obs["t2"]) if obs["remove_exc"] is None else obs["remove_exc"])
        rmp = resolve(cwdp, rm)
        rwant = remove_oracle(t1, rmp) if sub(t1, rmp) is not None else t1
        if obs["remove_exc"] is not None or canon(obs["t2"]) != canon(rwant):
            ctx.violation("remove did not delete exactly the subtree",
                          replay_payload(case, "c09-remove-mismatch", path=rm, tree=show(t1), expected=show(rwant),
                                         got=show(obs["t2"]) if obs["remove_exc"] is None else obs["remove_exc"]))
    return xcheck


def dots_cases():
    """a few sessions against a backend that lists '.' and '..' first (MLSD and LIST)"""
    out = []
    for k, shape in enumerate([(("F", "D"), "E"), ((("F",),), ("D", "F")), ("D",)]):
        for fb in (False, True):
            out.append(dict(shape=shape, scheme=0, dst="x", wi=True, cwd=["/", "/w"][k % 2], bs=4, fallback=fb, sdisk=False,
                            cdisk=False, merge=False, src_abs=False, lcwd="/", ldst="x", lwi=False, pick=2 * k, dots=True))
    return out


# ----------------------------------------------------------------------------------------------
# sessions: SEQUENCES of tree operations on ONE client, with changes of directory between them.
# The property quantifies over "every working directory"; a client may use the same relative path twice in one
# session from two different directories, create-remove-create the same path, etc.  The model of a session is the
# fold of the single-operation model over (server-side cwd, remote tree) (Model.run_seq, theorem
# C09_session_no_hidden_state); here every step of the real client is compared with the model's single step from the
# OBSERVED pre-state, the whole run with run_seq, and every step with the Python oracles.
SEQ_OPS = [
    ("cd", "w"),             # relative: / -> /w ; 550 when there is no w below the cwd
    ("cd", "/"),
    ("upload", "x", False),  # -> cwd/x/foo
    ("upload", "x/y", True),  # -> cwd/x/y
    ("mkdir", "x/y"),
    ("remove", "x"),
    ("upload", "", False),   # -> cwd/foo
]
SEQ_OPS_MORE = [("cd", "x"), ("mkdir", "/w/x"), ("remove", "/x/foo"), ("upload", "/x", False)]
SEQ_SOURCES = [
    {"d": {}, "e": {"f": {}}},              # directories only
    {"a": b"A", "v1..v2": {"..e": b"", "...": b"D"}},  # files on two levels, an empty file, dotted (legal) names
    b"F",                                   # a single file
]


def seq_cases(ctx):
    thorough = ctx.tier == "thorough"
    seqs = [list(t) for t in itertools.product(range(len(SEQ_OPS)), repeat=3)]
    out = []
    k = 0
    # named scenarios first: same relative destination from two directories; create-remove-create; mkdir twice
    named = [
        [("upload", "x", False), ("cd", "w"), ("upload", "x", False)],
        [("mkdir", "x/y"), ("cd", "w"), ("mkdir", "x/y")],
        [("mkdir", "x/y"), ("mkdir", "x/y"), ("cd", "x"), ("mkdir", "x/y")],
        [("upload", "x", False), ("remove", "x"), ("upload", "x", False)],
        [("mkdir", "x/y"), ("remove", "x"), ("mkdir", "x/y"), ("cd", "x"), ("upload", "", False)],
        [("cd", "w"), ("upload", "x/y", True), ("cd", "/"), ("upload", "x/y", True), ("remove", "/w/x"), ("cd", "w"),
         ("upload", "x/y", True)],
    ]
    for ops in named:
        for si in range(len(SEQ_SOURCES)):
            for fb in (False, True):
                k += 1
                out.append(dict(session=True, ops=[list(o) for o in ops], src=si, bs=BLOCKS[k % 3], fallback=fb,
                                sdisk=(k % 5 == 4)))
    for idx in seqs:
        srcs = range(len(SEQ_SOURCES)) if thorough else [k % len(SEQ_SOURCES)]
        for si in srcs:
            k += 1
            out.append(dict(session=True, ops=[list(SEQ_OPS[i]) for i in idx], src=si, bs=BLOCKS[k % 3],
                            fallback=(k // 3) % 2 == 1, sdisk=(k // 5) % 4 == 3))
    if thorough:
        alphabet = SEQ_OPS + SEQ_OPS_MORE
        rng = ctx.rng
        for _ in range(1500):
            k += 1
            n = rng.choice([4, 5, 6])
            out.append(dict(session=True, ops=[list(rng.choice(alphabet)) for _ in range(n)], src=k % len(SEQ_SOURCES),
                            bs=BLOCKS[k % 3], fallback=(k // 3) % 2 == 1, sdisk=(k // 5) % 4 == 3))
    return out


def run_session(case, tmp, wall_timeout=60):
    """one client session: the operations of case['ops'] in order; the server-side cwd and the remote tree are
    read off the SERVER after every step (the client is not asked anything between the operations)"""
    src = SEQ_SOURCES[case["src"]]
    remote = clone(BYSTANDERS)
    local0 = {"foo": clone(src) if isinstance(src, dict) else src}
    steps = []
    obs = {"steps": steps, "final_list": "Timeout", "final_cwd": [], "final_tree": remote}
    sroot = None
    if case["sdisk"]:
        sroot = tmp / "srv"
        disk_write(sroot, remote)

    async def main(net):
        cls = ListFallbackServer if case["fallback"] else aioftp.Server
        if case["sdisk"]:
            server = cls([aioftp.User(base_path=sroot)], path_io_factory=aioftp.PathIO, block_size=case["bs"])
        else:
            server = cls(path_io_factory=aioftp.MemoryPathIO, block_size=case["bs"])
            server.path_io_factory.state = mem_state(remote)
        await server.start("127.0.0.1", 2121)
        client = CountingClient(path_io_factory=functools.partial(aioftp.MemoryPathIO, cwd="/"))
        client.path_io.fs = mem_state(local0)
        await client.connect("127.0.0.1", 2121)
        await client.login()

        def remote_now():
            return disk_read(sroot) if case["sdisk"] else mem_read(server.path_io_factory.state)

        def cwd_now():
            conns = list(server.connections.values())
            d = conns[0].current_directory if conns else pathlib.PurePosixPath("/")
            return [x for x in pathlib.PurePosixPath(d).parts if x != "/"]

        for op in case["ops"]:
            pre = (cwd_now(), remote_now())
            exc = None
            try:
                if op[0] == "cd":
                    await client.change_directory(op[1])
                elif op[0] == "mkdir":
                    await client.make_directory(op[1])
                elif op[0] == "upload":
                    await client.upload("foo", op[1], write_into=op[2], block_size=case["bs"])
                elif op[0] == "remove":
                    await client.remove(op[1])
            except Runaway:
                raise
            except Exception as e:
                exc = exc_name(e)
            steps.append(dict(op=op, pre_cwd=pre[0], pre_tree=pre[1], exc=exc, post_cwd=cwd_now(), post_tree=remote_now()))
        obs["final_cwd"], obs["final_tree"] = cwd_now(), remote_now()
        try:
            items = await client.list("", recursive=True)
            obs["final_list"] = sorted((str(p), info["type"]) for p, info in items)
        except Runaway:
            raise
        except Exception as e:
            obs["final_list"] = exc_name(e)
        try:
            await client.quit()
        except Runaway:
            raise
        except Exception as e:
            obs["quit_exc"] = exc_name(e)
        await server.close()

    try:
        simnet.run(main, wall_timeout=wall_timeout)
    except (Runaway, RecursionError):
        obs["runaway"] = True
    finally:
        if sroot is not None:
            shutil.rmtree(sroot, ignore_errors=True)
    return obs


def enc_op(op, src):
    if op[0] == "cd":
        return [0, ppath(op[1])]
    if op[0] == "mkdir":
        return [1, ppath(op[1])]
    if op[0] == "upload":
        return [2, "foo", enc_tree(src), ppath(op[1]), bool(op[2])]
    return [3, ppath(op[1])]


def dec_state(r):
    """decoded `res cstate` -> ('ok', cwd parts, tree) | ('fail',) | ('fuel',)"""
    if r[0] == 0:
        return ("ok", sx.txts(r[1][0]), dec_tree(r[1][1]))
    return ("fail",) if r[0] == -1 else ("fuel",)


def step_oracle(op, src, cwd, tree):
    """independent statement of what one operation must do from (cwd, tree): ('state', cwd', tree') when the
    documentation determines the outcome, None when it does not (file/directory conflicts, nameless file)"""
    if op[0] == "cd":
        target = resolve(cwd, op[1])
        if isinstance(sub(tree, target), dict):
            return ("state", target, tree)
        return ("tree", None, tree)  # refused or not: the tree must not change
    if op[0] == "mkdir":
        target = resolve(cwd, op[1])
        if graft_compatible(tree, target, {}):
            return ("state", cwd, ensure_dir_oracle(tree, target))
        return None
    if op[0] == "upload":
        dst2 = pathlib.PurePosixPath(op[1]) / ("" if op[2] else "foo")
        target = resolve(cwd, str(dst2))
        if isinstance(src, bytes) and not target:
            return None
        if graft_compatible(tree, target, src):
            return ("state", cwd, graft_oracle(tree, target, src))
        return None
    if op[0] == "remove":
        target = resolve(cwd, op[1])
        if not target:
            return None
        if sub(tree, target) is None:
            return ("state", cwd, tree)
        return ("state", cwd, remove_oracle(tree, target))
    return None


def check_sessions(ctx, cases, tmp, use_model=True):
    observed = []
    for case in cases:
        obs = run_session(case, tmp)
        ctx.traces_impl += 1
        observed.append((case, obs))
    jobs = []
    index = []
    for ci, (case, obs) in enumerate(observed):
        src = SEQ_SOURCES[case["src"]]
        for si, st in enumerate(obs["steps"]):
            jobs.append((11, [st["pre_cwd"], enc_tree(st["pre_tree"]), enc_op(st["op"], src)]))
            index.append((ci, si))
        jobs.append((12, [[], enc_tree(BYSTANDERS), [enc_op(op, src) for op in case["ops"]]]))
        index.append((ci, "seq"))
    outs = ctx.model(jobs) if use_model else [None] * len(jobs)
    by = {ix: o for ix, o in zip(index, outs)}
    xcheck = []
    for ci, (case, obs) in enumerate(observed):
        src = SEQ_SOURCES[case["src"]]
        tag = {k: v for k, v in case.items()}
        ctx.case(("c09-session", repr(sorted((k, repr(v)) for k, v in case.items()))))
        ctx.count("session: " + ("disk" if case["sdisk"] else "mem") + ("+LIST" if case["fallback"] else "+MLSD"))
        ctx.count(f"session length {len(case['ops'])}")
        ctx.count("session source=" + ("file" if isinstance(src, bytes) else "dirs-only" if case["src"] == 0 else "tree"))
        if obs.get("runaway") or len(obs["steps"]) != len(case["ops"]):
            ctx.violation("a session of tree operations did not come to an end",
                          replay_payload(case, "c09-session-runaway", source=show(src), steps_done=len(obs["steps"])))
            continue
        if use_model and ci % 25 == 0 and len(xcheck) < 40:
            xcheck += [(fn, a, o) for (fn, a), o, ix in zip(jobs, outs, index) if ix[0] == ci]
        all_ok = True
        for si, st in enumerate(obs["steps"]):
            op = st["op"]
            ctx.count("session op " + op[0])
            impl = ("ok", st["post_cwd"], st["post_tree"]) if st["exc"] is None else ("fail",)
            all_ok = all_ok and st["exc"] is None
            where = {**tag, "step": si, "source": show(src), "pre_cwd": "/" + "/".join(st["pre_cwd"]), "pre_tree": show(st["pre_tree"])}
            # ---- model's single step from the observed pre-state vs the implementation
            if use_model:
                m = dec_state(by[(ci, si)])
                same = m[0] == impl[0] and (m[0] != "ok" or (m[1] == impl[1] and canon(m[2]) == canon(impl[2])))
                if not same:
                    ctx.disagree("session-step", where,
                                 ["/" + "/".join(m[1]), show(m[2])] if m[0] == "ok" else m[0],
                                 ["/" + "/".join(impl[1]), show(impl[2])] if impl[0] == "ok" else st["exc"])
            # ---- property oracle on the implementation
            want = step_oracle(op, src, st["pre_cwd"], st["pre_tree"])
            if want is None:
                ctx.count("session step with conflict (no oracle)")
                continue
            bad = None
            if want[0] == "tree":
                if canon(st["post_tree"]) != canon(want[2]):
                    bad = "the remote tree changed"
            else:
                if st["exc"] is not None:
                    bad = "raised " + st["exc"]
                elif st["post_cwd"] != want[1]:
                    bad = "working directory is /" + "/".join(st["post_cwd"])
                elif canon(st["post_tree"]) != canon(want[2]):
                    bad = "remote tree differs"
            if bad:
                ctx.violation(
                    f"step {si} ({op[0]}) of a session of tree operations is not the documented function of "
                    f"(working directory, remote tree, arguments): {bad}",
                    replay_payload(case, f"c09-session-{op[0]}-mismatch", step=si, source=show(src),
                                   pre_cwd="/" + "/".join(st["pre_cwd"]), pre_tree=show(st["pre_tree"]),
                                   expected=["/" + "/".join(want[1]) if want[1] is not None else None, show(want[2])],
                                   got=["/" + "/".join(st["post_cwd"]), show(st["post_tree"]), st["exc"]]))
        # ---- the whole session = the fold of the model
        if use_model:
            ms = dec_state(by[(ci, "seq")])
            if all_ok:
                if ms[0] != "ok" or ms[1] != obs["final_cwd"] or canon(ms[2]) != canon(obs["final_tree"]):
                    ctx.disagree("session-fold", {**tag, "source": show(src)},
                                 ["/" + "/".join(ms[1]), show(ms[2])] if ms[0] == "ok" else ms[0],
                                 ["/" + "/".join(obs["final_cwd"]), show(obs["final_tree"])])
            elif ms[0] == "ok":
                ctx.disagree("session-fold", {**tag, "source": show(src)}, "ok",
                             [st["exc"] for st in obs["steps"]])
        # ---- a recursive listing of "" at the end is relative to the final working directory
        root = sub(obs["final_tree"], obs["final_cwd"])
        truth = sorted(("/".join(p), "dir" if d else "file") for p, d in entries_oracle(root, ())) if root is not None else None
        if truth is not None and obs["final_list"] != truth:
            ctx.violation("recursive list at the end of a session is not exactly the entries below the working directory",
                          replay_payload(case, "c09-session-list-mismatch", source=show(src),
                                         cwd="/" + "/".join(obs["final_cwd"]), tree=show(obs["final_tree"]),
                                         got=obs["final_list"], expected=truth))
    return xcheck


def witness_cases():
    """the two inputs on which the pre-fix upload() misplaced the children (former finding F1; the witnesses of
    C09_hist_old_upload_child_misplaced), now ordinary corpus cases under the oracle, on both kinds of server"""
    out = []
    for dst, wi in (("x", False), ("x/y", True)):
        for cwd in CWDS:
            for fb in (False, True):
                out.append(dict(shape=("F",), scheme=0, dst=dst, wi=wi, cwd=cwd, bs=8192, fallback=fb, sdisk=False,
                                cdisk=False, merge=False, src_abs=False, lcwd="/", ldst="", lwi=False, pick=0))
    return out


def correspondence(ctx):
    ctx.extra["rule"] = (
        "bounded-exhaustive: every tree shape of depth <= 3 and fan-out <= 2 over leaves {empty file, file, empty dir} "
        "(unordered sibling pairs in quick, ordered in thorough), named by four schemes: three that collide across levels and with the "
        "source name, destination components, bystanders and cwd, one of legal names with consecutive dots ('v1..v2', '..x', '...', 'x..'); shapes of depth <= 2 run under all 16 combinations of "
        "destination {'', x, x/y, /x/y} x write_into x cwd {/, /w}, depth-3 shapes under 3 of them in rotation (all 16 in "
        "thorough); block size {1,4,8192}, MLSD vs LIST-fallback server, memory/disk backend on each side, fresh vs "
        "pre-existing older copy at the destination, relative vs absolute source, local cwd and local destination rotate with "
        "the case index. Each session also lists recursively, downloads and removes a path chosen from the real remote tree; "
        "before the download the LOCAL destination is fresh or already holds an older copy of the same shape whose files are "
        "strictly longer / shorter / of equal length / empty / mixed (plus a bystander entry) compared with the remote ones. "
        "A case is non-trivial when its (shape, naming, configuration) is distinct. "
        "WIDTH (directories pending at once in the breadth-first walks): besides the narrow shapes (at most 4 pending), deterministic "
        "wide trees -- W300 (a directory with 300 sub-directories each holding a file, an empty directory and a file next to "
        "them: 301 pending) and G20x20 (20 directories x 20 sub-directories each holding a file: 400 pending) -- are uploaded, "
        "listed recursively, downloaded (fresh and over an older local copy) and removed against the MLSD server, and listed "
        "recursively (relative from inside, absolute from outside) against the LIST-fallback server, where they are planted on the "
        "server because every stat() there is a LIST of the parent directory (thorough: W1100, G34x34, G6x70 and all four "
        "operations on W300 / G20x20 against the LIST-fallback server and on disk backends). "
        "SESSIONS: sequences of operations on ONE client (cd w | cd / | upload foo->x | upload foo->x/y write_into | "
        "mkdir x/y | remove x | upload foo->''): six named scenarios (same relative destination from two directories, "
        "create-remove-create, mkdir twice) x 3 sources x 2 servers, and every sequence of length 3 over the 7 operations "
        "(343; x 3 sources in thorough, plus 1500 random sequences of length 4-6 over 11 operations), source rotating over "
        "{directories only, tree with files, single file}, MLSD/LIST server, memory/disk backend; server-side cwd and remote "
        "tree are read off the server after every step; each step is compared with the model's single step from the observed "
        "pre-state and with the Python oracle, the whole run with Model.run_seq."
    )
    gen_ok, fixed = gen_flag()
    ctx.extra["upload_form_in_source"] = (
        "unclassified (translator failed closed)" if not gen_ok
        else "relative = destination / path.relative_to(source)" if fixed
        else "PRE-FIX form: destination.name / path.relative_to(source) | path.relative_to(source.parent)"
    )
    use_model = gen_ok
    if not gen_ok:
        ctx.obligation_broken("Gen.ClientWalks", "py2v could not classify the path computations of Client.upload/download")
    else:
        got = ctx.model([(10, [[], enc_tree({})])])[0]
        if bool(got) != fixed:
            use_model = False
            ctx.obligation_broken("stale-model", f"extracted model has upload_relative_fixed={bool(got)}, the source says {fixed}")
        if not fixed:
            ctx.obligation_broken("Gen.ClientWalks.upload_relative_fixed",
                                  "client.py computes a child's destination in upload() the pre-fix way "
                                  "(children land in cwd/<last component>); C09_upload_spec does not hold of it")
    TMP_ROOT.mkdir(parents=True, exist_ok=True)
    tmp = TMP_ROOT / f"c09-{os.getpid()}"
    tmp.mkdir(exist_ok=True)
    try:
        cases = witness_cases() + make_cases(ctx) + dots_cases() + wide_cases(ctx)
        xcheck = check_cases(ctx, cases, tmp, use_model=use_model)
        sessions = seq_cases(ctx)
        xcheck = xcheck[:60] + check_sessions(ctx, sessions, tmp, use_model=use_model)
        ctx.count("sessions(sequences)", len(sessions))
        ctx.extra["correspondence_ran"] = True
        ctx.count("sessions", len(cases))
    finally:
        shutil.rmtree(tmp, ignore_errors=True)
    ok, out = core.vm_crosscheck(EXTRACT, xcheck[:100])
    ctx.extra["vm_compute_crosscheck"] = {"cases": len(xcheck[:100]), "agree": ok}
    if not ok:
        ctx.obligation_broken("extraction-crosscheck", out)


def search(ctx):
    """failing-input search.  When the correspondence ran, the oracles were already evaluated on every implementation
    output.  When it could not run (the model did not build: e.g. py2v met a computation of `relative` it does not
    know), run the same sessions with the property oracles alone."""
    if ctx.extra.get("correspondence_ran"):
        return
    TMP_ROOT.mkdir(parents=True, exist_ok=True)
    tmp = TMP_ROOT / f"c09s-{os.getpid()}"
    tmp.mkdir(exist_ok=True)
    try:
        cases = witness_cases() + make_cases(ctx) + dots_cases() + wide_cases(ctx)
        check_cases(ctx, cases, tmp, use_model=False)
        check_sessions(ctx, seq_cases(ctx), tmp, use_model=False)
        ctx.count("sessions(oracle only)", len(cases))
    finally:
        shutil.rmtree(tmp, ignore_errors=True)


def replay_session(ctx, r):
    case = dict(session=True, ops=[list(o) for o in r["ops"]], src=r["src"], bs=r["bs"], fallback=r["fallback"], sdisk=r["sdisk"])
    TMP_ROOT.mkdir(parents=True, exist_ok=True)
    tmp = TMP_ROOT / f"c09r-{os.getpid()}"
    tmp.mkdir(exist_ok=True)
    bad = []

    class Probe:
        traces_impl = 0

        def model(self, jobs):
            return ctx.model(jobs)

        def case(self, *a, **k):
            pass

        count = sample = disagree = case

        def violation(self, what, payload):
            bad.append(payload["key"])
            print("violated:", what, "key=", payload["key"], "step=", payload.get("step"),
                  "expected=", payload.get("expected"), "got=", payload.get("got"))

    try:
        check_sessions(Probe(), [case], tmp, use_model=ctx.exe is not None and gen_flag()[0])
    finally:
        shutil.rmtree(tmp, ignore_errors=True)
    return r.get("key") not in bad


def replay(ctx, data):
    r = data.get("replay", {})
    if r.get("session"):
        return replay_session(ctx, r)
    case = {k: r[k] for k in ("scheme", "dst", "wi", "cwd", "bs", "fallback", "sdisk", "cdisk", "merge", "src_abs", "lcwd",
                              "ldst", "lwi", "pick")}
    case["dots"] = r.get("dots", False)
    case["lold"] = r.get("lold")
    case["wide"] = r.get("wide", False)
    if r.get("rwide"):
        case["rwide"], case["paths"] = r["rwide"], r["paths"]

    def tup(s):
        return s if isinstance(s, str) else tuple(tup(x) for x in s)

    case["shape"] = tup(r["shape"])
    TMP_ROOT.mkdir(parents=True, exist_ok=True)
    tmp = TMP_ROOT / f"c09r-{os.getpid()}"
    tmp.mkdir(exist_ok=True)

    class Probe:
        """a throw-away ctx: collects what check_cases reports"""

        def __init__(self, real):
            self.real = real
            self.bad = []
            self.traces_impl = 0

        def model(self, jobs):
            return self.real.model(jobs)

        def case(self, *a, **k):
            pass

        def count(self, *a, **k):
            pass

        def sample(self, *a, **k):
            pass

        def disagree(self, *a):
            pass

        def violation(self, what, payload):
            self.bad.append((what, payload["key"]))
            print("violated:", what, "key=", payload["key"], "expected=", payload.get("expected"), "got=", payload.get("got"))

    probe = Probe(ctx)
    try:
        check_cases(probe, [case], tmp, use_model=ctx.exe is not None and gen_flag()[0])
    finally:
        shutil.rmtree(tmp, ignore_errors=True)
    return not [b for b in probe.bad if b[1] == r.get("key")]
