"""C01 — transferred bytes are exact (STOR / APPE / RETR, whole or from a restart offset).

Correspondence of coq/Model/Bytes.v + coq/Model/TransferBytes.v with the real code, and the
property oracle on the real code's outputs.  Streams:

  (a) write_at / open modes   vs io.BytesIO and a real file (seek + write, all four open modes)
  (b) sock_trace              vs a real asyncio.StreamReader fed the same segments on the same
                              schedule;  file_trace vs BytesIO.read / file.read
  (b2) timed_trace            vs the real ThrottleStreamIO.read / iter_by_block on a virtual clock
                              (segments fed at scripted instants, every wait() sleeping a scripted
                              delay): same blocks at the same instants
  (c) stor_loop               vs the real AsyncStreamIterator over scripted read traces
                              (including NON-conforming traces: an empty read before EOF)
  (d) whole sessions on simnet: REAL aioftp.Server + REAL aioftp.Client
        payload x restart offset x verb (upload_stream / append_stream / download_stream /
        upload() / download()) x server block size x client chunking x backend (MemoryPathIO,
        PathIO, AsyncPathIO on a tmpdir, a buffering backend with a slow close) x EPSV/PASV x
        throttles x segmentation (every split of a short payload, byte-by-byte, random) of the
        data and control channels x latency.
      x who looked at the target (stat + MLSD + LIST) BEFORE the transfer (nobody / same / other / both).
      Compared with the model AND with the oracle (plain Python slicing, independent of the
      model): stored bytes read from the backend once the client holds the 226, bytes received
      before EOF, stat / MLSD / LIST sizes on the transferring session AND on another one, and a full RETR
      from the other session.
  (e) the restart offset across command sequences with RETRs anywhere in them, also back to back
      over one passive listener (transfer_trace) vs the real dispatcher, and vs the plain-Python oracle
      "REST applies to exactly the next transfer command".
  (f) REST n + STOR/APPE on a MISSING file on all three backends: 451, nothing created, session goes on.
      Sections 3c / 3d of the matrix: another user stats + lists the target DURING a slowed-down multi-block
      transfer; backends whose close() fails after a partial flush (226 => exact, failed close => 451).
  (g) histories of uploads over SIBLING names (x.csv / x.json / x.part / x / x.tar.gz / ...), by one session
      after the other and by two sessions at once; after every completion reply the whole directory is
      read from the backend: every acknowledged file still has its bytes, nothing else exists.
  (h) the REAL transport (every tier): the same session driver over real sockets on 127.0.0.1:0 on a real
      event loop -- server backend MemoryPathIO / PathIO / AsyncPathIO and the client's own files on
      MemoryPathIO / PathIO / AsyncPathIO, both in a fresh directory under the system temp dir -- x verb x
      restart offset (0 / 1 / mid / block boundaries / size-1 / size / beyond) x size (10 B, one block, 3 blocks
      + tail, 2 MiB, 8-12 MiB of pairwise distinct blocks) x a receiver throttled below the sender's speed
      (the sender's transport has to queue).  Only byte equality is asserted, never timing.
  (d9 / h / i) HOW THE CALLER CONSUMES what it is handed: consumption PROGRAMS (`consume_program`: iter_by_block(n) loops
      left before EOF, resumed, followed by read(k) / read() / readline() / iter_by_line() / a second loop with another
      n, the caller busy or not in between) on the stream of download_stream -- simnet (section 9 of the matrix) and real
      sockets (stream h) -- and on ONE open path-io file object (stream i: MemoryPathIO / PathIO / AsyncPathIO,
      AsyncPathIOContext.iter_by_block + read, from a seek position).  Oracle: the concatenation of everything consumed
      = the exact bytes, whatever the program.

Smoke test of the session driver:
    PYTHONPATH=/repo/src:. /venv/bin/python -c "from harness.props import c01; print(c01.smoke())"
"""
import asyncio
import errno
import io
import itertools
import os
import pathlib
import random
import shutil
import time

import aioftp
import aioftp.pathio

from .. import core, simnet, sx

ID = "C01"
EXTRACT = "ExC01"
TECHNIQUE = (
    "Coq proof (induction over the blocks of a conforming read trace with the invariant 'file = write_at start consumed old, "
    "position = start + consumed'; write_at composition lemma; fuel-indexed trace generators proved conforming) about an "
    "executable model of stor_worker / retr_worker / AsyncStreamIterator / the client's stream loops with explicit oracles for "
    "segmentation, arrival schedule, read sizes, short backend reads and backend flushing; structural facts (open-mode table, "
    "loop bodies, reply position, appe->stor('ab'), reset-exempt verbs, iterator shape, client command sequence) regenerated "
    "from the source by tools/py2v and re-checked by vm_compute; differential correspondence of the extracted model against the "
    "real Server+Client on an in-memory network with a virtual clock, against real asyncio.StreamReader / BytesIO / files; "
    "the worker / client loop bodies translated by tools/py2v/gen_xfer.py into a small statement language (Lib/XferFacts.xstmt) "
    "with a Coq interpreter (Model/XferProg.v): the hand-written workers are proved to be the denotation of the translated "
    "programs and exactness is stated on `xf_*_prog Gen.Xfer.facts`; a timed model (Model/TransferTimed.v: clock in Q, ANY "
    "throttle state machine, ANY arrival instants / latencies) whose read traces are proved conforming, so time provably does "
    "not enter the byte function"
)
LEVEL_TEXT = (
    "Proved for the model (Closed under the global context): C01_stor_exact, C01_stor_exact_conforming, C01_retr_exact, "
    "C01_retr_exact_segs, C01_stor_chunking_irrelevant, C01_retr_chunking_irrelevant, C01_upload_exact, C01_download_exact, "
    "C01_network_reads_conforming, C01_file_reads_conforming, C01_early_stop_impossible, C01_reply_after_close, "
    "C01_visible_after_226, C01_later_retr_sees_new_content, C01_rest_applies_to_next_transfer, C01_offset_applies_to_next_command_only, "
    "C01_second_transfer_starts_at_0, C01_back_to_back (a restart offset is served to exactly the next transfer command), "
    "C01_stor_missing_file (REST n + STOR/APPE on a missing file: 451, nothing created), C01_upload_touches_its_own_file_only, "
    "C01_acknowledged_file_survives, C01_overlapping_uploads_independent (several files, sibling names, uploads in flight at once), "
    "C01_close_failure_no_reply (a failing close of the file: no completion reply), C01_refused_transfer_consumes_offset "
    "(a transfer refused before its worker runs consumes the offset too), C01_size_visible_after_226_whoever_looked (stat / "
    "listing steps inserted anywhere in the upload's statement sequence: the size reported after the 226 is the new one), the write_at lemmas, and the closed obligations "
    "C01_source_facts / C01_verb_modes / C01_source_programs on the regenerated facts; C01_model_is_program_denotation, "
    "C01_stor_prog_exact, C01_retr_prog_exact, C01_upload_prog_exact, C01_download_prog_exact, C01_upload_path_exact, "
    "C01_download_path_exact (about the translated programs); C01_timed_reads_conforming, C01_timed_stor_exact, "
    "C01_stor_timing_irrelevant, C01_timed_stor_is_untimed, C01_timed_upload_exact, C01_timed_retr_exact, "
    "C01_retr_timing_irrelevant (every throttle state machine, every arrival instant, every latency), "
    "C01_retr_consumption_program_exact, C01_consumption_program_irrelevant, C01_file_consumption_program_exact (every PROGRAM by which "
    "the caller consumes a download stream / a path-io file object: iter_by_block(n) loops with changing n left before EOF, resumed, "
    "interleaved with direct reads, ended by read()) — for every payload, pre-existing content, offset, block size "
    ">= 1, segmentation, arrival schedule, read-size sequence, short-read sequence and flush behaviour. The model is "
    "hand-written around translated loop programs; its tie to the code is (i) the regenerated structural facts and programs and (ii) sampled + bounded-exhaustive agreement "
    "with the real code (several thousand real transfers per quick run), so the assurance is a proof about the model plus "
    "sampled agreement of model and code."
)
LEVEL_NOTE = (
    "Honest level: proof about the model + sampled agreement. The byte transport itself (TCP / the OS / asyncio transports: "
    "bytes arrive in order, once, EOF after the last byte) is MODELLED, not verified; so are io.BytesIO, the OS file, "
    "BufferedWriter flushing at close, StreamReader.read (assumption read_conforming: empty only at EOF) and async-with "
    "enter/exit order. Throttling, latency and stalls are inputs of the TIMED model (any wait/append functions, any arrival "
    "instants) and are proved not to change the bytes (C01_*_timing_irrelevant); that the real Throttle only sleeps and counts "
    "(ThrottleStreamIO.read/write bodies) is a regenerated fact, and the sessions with throttles / latency / stalls sample it. "
    "What only a real transport can exhibit (zero-copy write buffers, sendfile, partial send() with files larger than the socket "
    "buffers, file position vs. fd offset of real files) is sampled by stream (h) on real loopback sockets, validated not proved. Nothing is carved out since the repair of F14 and F06: back-to-back transfers and REST + upload on a missing file are inside the theorems and the corpus."
)
TRUSTED = [
    "read_conforming (hypothesis `conforming` of the model theorems): read(n>=1) of asyncio.StreamReader, io.BytesIO and a regular "
    "file returns an empty value only at EOF and hands out the stream in order, each byte once, at most n bytes per call; "
    "proved for the model's own network/backend readers (C01_network_reads_conforming, C01_file_reads_conforming), exercised "
    "against the real StreamReader / BytesIO / file (streams b), not proved about CPython",
    "the network preserves the byte stream (hypothesis `concat segs = payload`): TCP / the asyncio transports deliver the bytes "
    "written, in order, once, then EOF; simnet does so by construction; real sockets (asyncio selector transports, kernel buffers, "
    "loop.sendfile, os-level file objects) are SAMPLED by stream (h), about 200 transfers per run, not modelled",
    "async with a, b enters a then b and exits b then a; the statement after the async with runs after both exits (asyncio / "
    "CPython semantics, used by stor_script)",
    "a backend's close() makes all written bytes visible to other openers (BufferedWriter.close flushes; BytesIO is unbuffered)",
]
ASSUMPTIONS = [
    "modelled, not verified: TCP ordering, asyncio.StreamReader/StreamWriter, io.BytesIO, OS files and BufferedWriter, "
    "asyncio's async-with semantics; the tmpdir backends run on the local file system of the checking machine",
    "no carve-out: 'r+b' on a missing file (451, nothing created) and back-to-back transfers (second one served from 0) are part of the statement",
]

MODES = {"wb": 0, "ab": 1, "r+b": 2, "rb": 3}
VERB_MODE = {"STOR": "wb", "APPE": "ab"}
TMP_ROOT = core.VERIF / "build" / "tmp"
VIRTUAL_BUDGET = 10**6  # virtual seconds one session case may take before it counts as hung
BIG = 40000  # "as much as there is": larger than any payload used here (lengths are unary nat in the model)


# --------------------------------------------------------------------------------------------
# the property oracle: plain Python, independent of the Coq model
def py_write_at(off, data, old):
    if not data:
        return old
    return old[:off] + b"\0" * (off - len(old)) + data + old[off + len(data) :]


def py_spec_store(verb, off, payload, old):
    old = old or b""
    if off == 0:
        return payload if verb == "STOR" else old + payload
    return py_write_at(off, payload, old)


def py_spec_retr(off, content):
    return content[off:]


# --------------------------------------------------------------------------------------------
# payloads and offsets from the quantifier of C01
def payload_classes(rng, bs):
    """(label, bytes) for one server block size bs"""
    out = [
        ("empty", b""),
        ("1byte", bytes([rng.randrange(256)])),
        ("bs-1", bytes(rng.randrange(256) for _ in range(max(bs - 1, 0)))),
        ("bs", bytes(rng.randrange(256) for _ in range(bs))),
        ("bs+1", bytes(rng.randrange(256) for _ in range(bs + 1))),
        ("multi", bytes(rng.randrange(256) for _ in range(3 * bs + rng.randrange(0, bs + 1)))),
    ]
    return out


SPECIAL_PAYLOADS = [
    ("all256", bytes(range(256))),
    ("all256rev", bytes(range(255, -1, -1))),
    ("crlf", b"\r\n\r\n\n\r\r\n" * 3),
    ("nul", b"\0" * 17),
    ("iac", b"\xff\xff\xf4\xff\xf2\xff\xff" * 3),
    ("mixed", b"a\r\n\0\xffb\n\r\xff\xff\0\0\r\r\n" * 2),
    ("text", b"226 data transfer done\r\n150 x\r\n"),
]


def offsets_for(n_existing):
    """restart offsets: 0, inside, at end, beyond end (relative to the existing content length)"""
    out = [("0", 0)]
    if n_existing >= 2:
        out.append(("inside", max(1, n_existing // 2)))
    if n_existing >= 1:
        out.append(("end", n_existing))
    out.append(("beyond", n_existing + 3))
    return out


def cut(data, sizes):
    """cut data by successive sizes (a size < 1 counts as 1); the remainder is the last piece"""
    out, pos = [], 0
    for n in sizes:
        if pos >= len(data):
            break
        n = max(1, n)
        out.append(data[pos : pos + n])
        pos += n
    if pos < len(data):
        out.append(data[pos:])
    return out


def all_splits(data):
    """every way to cut data into non-empty consecutive segments (2^(n-1))"""
    n = len(data)
    if n == 0:
        yield []
        return
    for mask in range(1 << (n - 1)):
        sizes, run = [], 1
        for i in range(n - 1):
            if mask >> i & 1:
                sizes.append(run)
                run = 1
            else:
                run += 1
        sizes.append(run)
        yield sizes


# --------------------------------------------------------------------------------------------
# segmenters (described by JSON-able specs so that a case can be replayed)
class Segmenter:
    """callable for simnet.Link.segmenter; logs the segment lengths it produced"""

    def __init__(self, spec):
        self.spec = spec
        self.kind = spec["kind"]
        self.log = []
        self.sizes = list(spec.get("sizes", []))
        self.rng = random.Random(spec.get("seed", 0))

    def __call__(self, data):
        k = self.kind
        if k == "whole":
            segs = [data]
        elif k == "bytes":
            segs = [data[i : i + 1] for i in range(len(data))]
        elif k == "cuts":  # consume the global size list; a segment never spans two writes
            segs, pos = [], 0
            while pos < len(data):
                n = max(1, self.sizes.pop(0)) if self.sizes else len(data) - pos
                segs.append(data[pos : pos + n])
                pos += n
        elif k == "random":
            segs, pos, mx = [], 0, self.spec.get("max", 9)
            while pos < len(data):
                n = self.rng.randint(1, mx)
                segs.append(data[pos : pos + n])
                pos += n
        else:
            raise ValueError(k)
        self.log.extend(len(s) for s in segs if s)
        return segs


# --------------------------------------------------------------------------------------------
# a conforming backend that buffers: written bytes reach the shared state only at close(), and
# close() takes (virtual) time -- like a buffered file on a slow disk.  With it "226 only after
# the file context has exited" is observable: a reply queued before close completes would let
# the client look at a stale file.
class BufferedSlowCloseIO(aioftp.MemoryPathIO):
    CLOSE_DELAY = 0.25

    @aioftp.pathio.universal_exception
    async def _open(self, path, mode="rb", *args, **kwargs):
        f = await aioftp.MemoryPathIO._open.__wrapped__(self, path, mode, *args, **kwargs)
        if mode == "rb":
            return f
        shadow = io.BytesIO(f.getvalue())
        shadow.seek(f.tell())
        shadow._node = self.get_node(path)
        return shadow

    @aioftp.pathio.universal_exception
    async def close(self, file):
        node = getattr(file, "_node", None)
        if node is not None:
            await asyncio.sleep(self.CLOSE_DELAY)
            node.content = io.BytesIO(file.getvalue())


# backends whose close() FAILS: the file may not grow beyond CLOSE_LIMIT bytes and -- as with a buffered
# file under a quota / ENOSPC / RLIMIT_FSIZE -- every write succeeds (the bytes sit in the buffer) and the
# error surfaces in close(), after a partial flush.  Files that stay within the limit close normally.
CLOSE_LIMIT = 12


class FailCloseIO(BufferedSlowCloseIO):
    @aioftp.pathio.universal_exception
    async def close(self, file):
        node = getattr(file, "_node", None)
        if node is not None:
            await asyncio.sleep(self.CLOSE_DELAY)
            data = file.getvalue()
            node.content = io.BytesIO(data[:CLOSE_LIMIT])
            if len(data) > CLOSE_LIMIT:
                raise OSError(errno.EFBIG, "File too large")


class _QuotaFile:
    """a real file object whose close() reports that the file outgrew the quota (after truncating it)"""

    def __init__(self, f, path, writable):
        self._f, self._path, self._writable = f, path, writable

    def __getattr__(self, name):
        return getattr(self._f, name)

    def close(self):
        self._f.close()
        if self._writable and self._path.stat().st_size > CLOSE_LIMIT:
            with open(self._path, "r+b") as g:
                g.truncate(CLOSE_LIMIT)
            raise OSError(errno.EFBIG, "File too large")


class QuotaPathIO(aioftp.PathIO):
    @aioftp.pathio.universal_exception
    async def _open(self, path, mode="rb", *args, **kwargs):
        return _QuotaFile(path.open(mode, *args, **kwargs), path, mode != "rb")


CLOSE_FAULT_BACKENDS = ("failclose", "quota_pathio")
BACKENDS = {
    "memory": aioftp.MemoryPathIO,
    "buffered": BufferedSlowCloseIO,
    "failclose": FailCloseIO,
    "quota_pathio": QuotaPathIO,
    "pathio": aioftp.PathIO,
    "asyncpathio": aioftp.AsyncPathIO,
}
FNAME = "f.bin"
WATCHER = ("watcher", "pw")


class Store:
    """direct access to the server's backend, bypassing aioftp's transfer code"""

    def __init__(self, backend, server, base):
        self.backend = backend
        self.server = server
        self.base = base

    def _mem(self):
        # through the server's nursery: the first instance creates the shared state
        return self.server.path_io_factory()

    def put(self, name, content):
        if self.backend in ("memory", "buffered", "failclose"):
            mp = self._mem()
            root = mp.get_node(pathlib.PurePosixPath("/"))
            root.content[:] = [n for n in root.content if n.name != name]
            root.content.append(aioftp.pathio.Node("file", name, content=io.BytesIO(content)))
        else:
            (self.base / name).write_bytes(content)

    def get(self, name):
        if self.backend in ("memory", "buffered", "failclose"):
            node = self._mem().get_node(pathlib.PurePosixPath("/") / name)
            return None if node is None else node.content.getvalue()
        p = self.base / name
        return p.read_bytes() if p.exists() else None


def case_defaults(case):
    c = {
        "backend": "memory",
        "block_size": None,
        "passive": "epsv",
        "throttle": None,
        "latency": {"data": 0, "ctrl": 0},
        "seg_data": {"kind": "whole"},
        "seg_ctrl": {"kind": "whole"},
        "verb": "STOR",
        "payload": b"",
        "offset": 0,
        "old": None,
        "chunks": [],
        "cblock": None,
        "pre": [],
        "observe_during": None,  # [period, count]: another session stats + lists the target every `period` virtual s while the transfer runs
        "observe_before": None,  # None / "same" / "other" / "both": sessions that stat + list the target before the transfer
        "local_old": None,  # DOWNLOAD: previous content of the client's destination file (None = no such file)
        "stall": None,  # [t, d]: both directions of the data channel deliver nothing from t to t+d (virtual s) after connecting
        "driver": "sim",  # "sim": simnet (virtual clock, scripted segmentation); "tcp": real sockets on 127.0.0.1, real event loop
        "client_fs": "memory",  # UPLOAD / DOWNLOAD: the client's own file system: memory / pathio / asyncpathio (real files need driver tcp)
        "consume": None,  # RETR: a consumption PROGRAM for the download stream (see consume_program); None: one read() / one loop
        "payload_gen": None,  # [seed, size]: the payload is random.Random(seed).randbytes(size) (files of several MiB stay out of the replay file)
    }
    c.update(case)
    if c["payload_gen"] is not None and not c["payload"]:
        c["payload"] = gen_payload(*c["payload_gen"])
    return c


def gen_payload(seed, size):
    """`size` pseudo-random bytes: every block differs from every other one"""
    return random.Random(seed).randbytes(size)


def first_difference(a, b):
    a, b = a or b"", b or b""
    n = min(len(a), len(b))
    if a[:n] == b[:n]:
        return n if len(a) != len(b) else None
    lo, hi = 0, n  # a[:lo] == b[:lo], a[:hi] != b[:hi]
    while hi - lo > 1:
        mid = (lo + hi) // 2
        if a[:mid] == b[:mid]:
            lo = mid
        else:
            hi = mid
    return lo


def jsonable(case):
    c = dict(case)
    if c.get("payload_gen") is not None:
        c.pop("payload", None)
    for k in ("payload", "old", "local_old"):
        if isinstance(c.get(k), (bytes, bytearray)):
            c[k] = {"hex": bytes(c[k]).hex()}
    return c


def unjson(case):
    c = dict(case)
    for k in ("payload", "old", "local_old"):
        if isinstance(c.get(k), dict) and "hex" in c[k]:
            c[k] = bytes.fromhex(c[k]["hex"])
    return c


async def _observe(cl, name):
    """what one session is told about `name`: MLST size, MLSD size, LIST size (None = not listed; an
    error is an observation: its class name)"""
    out = {}
    try:
        out["stat"] = int((await cl.stat(name))["size"])
    except Exception as e:
        out["stat"] = type(e).__name__
    for key, kw in (("mlsd", {}), ("list", {"raw_command": "LIST"})):
        try:
            out[key] = None
            for path, info in await cl.list("/", **kw):
                if path.name == name:
                    out[key] = int(info["size"])
        except Exception as e:
            out[key] = type(e).__name__
    return out


async def consume_program(obj, prog):
    """HOW THE CALLER CONSUMES a readable object (the stream of `download_stream` / `get_stream`, or a path-io
    file object): a sequence of
      ["iter", n, k]   a NEW `iter_by_block(n)` loop, left with `break` after k blocks (k = 0: run to EOF)
      ["resume", k]    the iterator of the last loop is advanced k more blocks (0: to EOF): interrupted and resumed
      ["read", k]      one `read(k)` (k = -1: `read()`, everything up to EOF)
      ["readline"]     one `readline()`;  ["lines", k]  a new `iter_by_line()` loop left after k lines  (streams only)
      ["pause", t]     the caller is busy for t seconds (virtual on simnet) before it goes on
    and finally everything that is left (`read()`).  Returns the concatenation of everything consumed, in order."""
    got = []
    it = None

    async def advance(it, k):
        i = 0
        while k == 0 or i < k:
            try:
                got.append(await it.__anext__())
            except StopAsyncIteration:
                break
            i += 1

    for op in prog:
        kind = op[0]
        if kind == "iter":
            if op[2] == 0:
                async for block in obj.iter_by_block(op[1]):
                    got.append(block)
                it = None
            else:
                i = 0
                it = obj.iter_by_block(op[1])
                async for block in it:
                    got.append(block)
                    i += 1
                    if i >= op[2]:
                        break
        elif kind == "resume":
            if it is not None:
                await advance(it, op[1])
        elif kind == "read":
            got.append(await (obj.read() if op[1] < 0 else obj.read(op[1])))
        elif kind == "readline":
            got.append(await obj.readline())
        elif kind == "lines":
            i = 0
            async for line in obj.iter_by_line():
                got.append(line)
                i += 1
                if i >= op[1]:
                    break
        elif kind == "pause":
            await asyncio.sleep(op[1])
        else:
            raise ValueError(kind)
    got.append(await obj.read())
    return b"".join(got)


async def _transfer(client, verb, name, payload, offset, chunks, cblock, consume=None):
    """one transfer through the real client API; returns bytes received (RETR) or None"""
    if verb in ("STOR", "APPE"):
        factory = client.upload_stream if verb == "STOR" else client.append_stream
        async with factory(name, offset=offset) as stream:
            for piece in cut(payload, chunks) if chunks else ([payload] if payload else []):
                await stream.write(piece)
            if chunks and chunks[0] == 0:  # also exercise an explicit empty write
                await stream.write(b"")
        return None
    if verb == "RETR":
        got = []
        async with client.download_stream(name, offset=offset) as stream:
            if consume is not None:
                got.append(await consume_program(stream, consume))
            elif cblock is None and not chunks:
                got.append(await stream.read())
            elif chunks:
                i = 0
                while True:
                    n = max(1, chunks[i % len(chunks)])
                    i += 1
                    d = await stream.read(n)
                    if not d:
                        break
                    got.append(d)
            else:
                async for block in stream.iter_by_block(cblock):
                    got.append(block)
        return b"".join(got)
    raise ValueError(verb)


def run_case(case):
    """run one session-level case on simnet against the real server and client"""
    case = case_defaults(case)
    backend = case["backend"]
    base = None
    if backend in ("pathio", "asyncpathio", "quota_pathio"):
        TMP_ROOT.mkdir(parents=True, exist_ok=True)
        base = TMP_ROOT / f"c01-{os.getpid()}-{random.getrandbits(48):012x}"
        base.mkdir()
    try:
        # a hang of the implementation is an observation: the virtual-time budget ends the case
        return simnet.run(lambda net: asyncio.wait_for(_run_case(net, case, base), VIRTUAL_BUDGET), wall_timeout=120)
    except BaseException as e:  # TimeoutError (virtual or wall budget), or anything the driver itself could not contain
        if isinstance(e, (KeyboardInterrupt, SystemExit)):
            raise
        return {"stored": None, "received": None, "pre": [], "open_transports": 0, "seg_up": [], "seg_down": [],
                "error": "no verdict within the budget (" + type(e).__name__ + ":" + str(e)[:60] + ")"}
    finally:
        if base is not None:
            shutil.rmtree(base, ignore_errors=True)


CLIENT_FS = {"memory": aioftp.MemoryPathIO, "pathio": aioftp.PathIO, "asyncpathio": aioftp.AsyncPathIO}


async def _run_case(net, case, base, cbase=None):
    backend = case["backend"]
    thr = case["throttle"] or {}
    user = aioftp.User(
        base_path=base if base is not None else "/",
        home_path="/",
        read_speed_limit=thr.get("user_read"),
        write_speed_limit=thr.get("user_write"),
    )
    kw = {}
    if case["block_size"] is not None:
        kw["block_size"] = case["block_size"]
    server = aioftp.Server(
        # the observer of the other sessions logs in as a second user of the same tree, so that per-user
        # speed limits slow the TRANSFER down and not the observer
        [user, aioftp.User(*WATCHER, base_path=base if base is not None else "/", home_path="/")],
        path_io_factory=BACKENDS[backend],
        read_speed_limit=thr.get("server_read"),
        write_speed_limit=thr.get("server_write"),
        read_speed_limit_per_connection=thr.get("conn_read"),
        write_speed_limit_per_connection=thr.get("conn_write"),
        **kw,
    )
    simulated = isinstance(net, simnet.Network)
    await server.start("127.0.0.1", 2121 if simulated else 0)
    PORT = server.server_port
    store = Store(backend, server, base)
    verb = case["verb"]
    payload, offset, old = case["payload"], case["offset"], case["old"]
    upload = verb in ("STOR", "APPE", "UPLOAD")
    if upload:
        if old is not None:
            store.put(FNAME, old)
    else:
        store.put(FNAME, payload)
    if any(p[0] in ("STOR", "APPE") and p[1] for p in case["pre"]):
        # an earlier REST + upload pair needs an EXISTING target (on a missing one it is refused with 451)
        store.put("pre.bin", b"previous-previous")

    segs = {"data_up": [], "data_down": [], "ctrl": []}
    session = {"n": 0}

    def on_connect(ct, st):
        ctrl = st.listener_port == PORT
        if ctrl:
            session["n"] += 1
        # only the first session's links are perturbed; the second session is the observer
        if session["n"] > 1:
            return
        if ctrl:
            a, b = Segmenter(case["seg_ctrl"]), Segmenter(case["seg_ctrl"])
            ct.out.segmenter, st.out.segmenter = a, b
            ct.out.latency = st.out.latency = case["latency"]["ctrl"]
            segs["ctrl"] += [a, b]
        else:
            a, b = Segmenter(case["seg_data"]), Segmenter(case["seg_data"])
            ct.out.segmenter, st.out.segmenter = a, b
            ct.out.latency = st.out.latency = case["latency"]["data"]
            segs["data_up"].append(a)
            segs["data_down"].append(b)
            if case["stall"]:
                loop = asyncio.get_running_loop()
                t0, dur = case["stall"]

                def hold():
                    ct.out.hold = st.out.hold = True

                def release():
                    ct.out.release()
                    st.out.release()

                loop.call_later(t0, hold)
                loop.call_later(t0 + dur, release)

    net.on_connect = on_connect
    res = {"stored": None, "received": None, "error": None, "pre": []}
    ckw = {}
    real_cfs = case["client_fs"] != "memory"
    if verb in ("UPLOAD", "DOWNLOAD"):
        ckw["path_io_factory"] = CLIENT_FS[case["client_fs"]]
        if real_cfs and cbase is None:
            raise ValueError("a real client file system needs the tcp driver")
    client = aioftp.Client(
        passive_commands=(case["passive"],),
        read_speed_limit=thr.get("client_read"),
        write_speed_limit=thr.get("client_write"),
        **ckw,
    )
    try:
        await client.connect("127.0.0.1", PORT)
        await client.login()
        # transfers issued earlier in the same session (e.g. a completed REST + transfer pair)
        for pverb, poff in case["pre"]:
            if pverb == "RETR":
                res["pre"].append(await _transfer(client, "RETR", FNAME, b"", poff, [], None))
            elif pverb == "CMD":
                try:
                    await client.command(poff, ("2xx", "3xx", "5xx"))
                except aioftp.StatusCodeError:
                    pass
            else:
                await _transfer(client, pverb, "pre.bin", b"pre-transfer", poff, [], None)
        obs = None
        if case["observe_before"] in ("other", "both"):
            obs = aioftp.Client(passive_commands=("epsv",))
            await obs.connect("127.0.0.1", PORT)
            await obs.login(*WATCHER)
        res["before"] = {}
        if case["observe_before"] in ("same", "both"):
            res["before"]["same"] = await _observe(client, FNAME)
        if obs is not None:
            res["before"]["other"] = await _observe(obs, FNAME)
        watcher = None
        res["during"] = []
        if case["observe_during"]:
            if obs is None:
                obs = aioftp.Client(passive_commands=("epsv",))
                await obs.connect("127.0.0.1", PORT)
                await obs.login(*WATCHER)
            period, count = case["observe_during"]

            transfer_done = asyncio.Event()

            async def watch():
                # until the transfer is over (at most `count` rounds): the control channel of the slowed-down
                # session is slow too, so the data phase starts late -- the observer keeps looking throughout
                for _ in range(count):
                    if transfer_done.is_set():
                        break
                    await asyncio.sleep(period)
                    res["during"].append((asyncio.get_running_loop().time(), await _observe(obs, FNAME)))

            watcher = asyncio.get_running_loop().create_task(watch())
        res["t_start"] = asyncio.get_running_loop().time()
        if verb in ("STOR", "APPE", "RETR"):
            res["received"] = await _transfer(client, verb, FNAME, payload, offset, case["chunks"], case["cblock"], case["consume"])
        elif verb == "UPLOAD" and real_cfs:
            (cbase / "local.bin").write_bytes(payload)
            await client.upload(cbase / "local.bin", "/" + FNAME, write_into=True, block_size=case["cblock"] or 8192)
        elif verb == "DOWNLOAD" and real_cfs:
            if case["local_old"] is not None:
                (cbase / "local.bin").write_bytes(case["local_old"])
            await client.download("/" + FNAME, cbase / "local.bin", write_into=True, block_size=case["cblock"] or 8192)
            res["received"] = (cbase / "local.bin").read_bytes() if (cbase / "local.bin").exists() else None
        elif verb == "UPLOAD":
            cfs = client.path_io
            root = cfs.get_node(pathlib.PurePosixPath("/"))
            root.content.append(aioftp.pathio.Node("file", "local.bin", content=io.BytesIO(payload)))
            await client.upload("/local.bin", "/" + FNAME, write_into=True, block_size=case["cblock"] or 8192)
        elif verb == "DOWNLOAD":
            if case["local_old"] is not None:  # the destination already exists: download() must replace it
                croot = client.path_io.get_node(pathlib.PurePosixPath("/"))
                croot.content.append(aioftp.pathio.Node("file", "local.bin", content=io.BytesIO(case["local_old"])))
            await client.download("/" + FNAME, "/local.bin", write_into=True, block_size=case["cblock"] or 8192)
            node = client.path_io.get_node(pathlib.PurePosixPath("/local.bin"))
            res["received"] = None if node is None else node.content.getvalue()
        # the client now holds the completion reply: look at the backend directly, right now
        res["stored"] = store.get(FNAME)
        res["t_done"] = asyncio.get_running_loop().time()
        if watcher is not None:
            transfer_done.set()
            await watcher  # the observer finishes its round before the final observations
            res["during_inside"] = sum(1 for t, _ in res["during"] if res["t_start"] < t < res["t_done"])
        # the transferring session observes, and a SECOND session (an older one if it looked before)
        res["after_same"] = await _observe(client, FNAME)
        if obs is None:
            obs = aioftp.Client(passive_commands=("epsv",))
            await obs.connect("127.0.0.1", PORT)
            await obs.login(*WATCHER)
        res["after_other"] = await _observe(obs, FNAME)
        st = await obs.stat(FNAME)
        res["stat_size"] = int(st["size"])
        res["list_size"] = None
        for path, info in await obs.list("/"):
            if path.name == FNAME:
                res["list_size"] = int(info["size"])
        async with obs.download_stream(FNAME) as stream:
            res["second_retr"] = await stream.read()
        await obs.quit()
        await client.quit()
    except Exception as e:  # canonicalise: class name only
        res["error"] = type(e).__name__ + ":" + str(e)[:80]
        res["stored_after_error"] = store.get(FNAME)
        client.close()
    await server.close()
    await net.settle()
    res["seg_up"] = [n for s in segs["data_up"][-1:] for n in s.log]
    res["seg_down"] = [n for s in segs["data_down"][-1:] for n in s.log]
    res["open_transports"] = len(net.open_transports())
    return res


class RealNet:
    """stand-in for simnet.Network when a case runs over real loopback TCP (thorough tier): no
    control over segmentation or time, the kernel decides"""

    on_connect = None

    async def settle(self):
        await asyncio.sleep(0.005)

    def open_transports(self):
        return []


REAL_BUDGET = 60  # wall seconds one real-loopback case may take before it counts as hung (an observation, not an abort)


def run_case_tcp(case):
    """the same session over REAL sockets on 127.0.0.1 (port 0) on a real event loop: the transports, the
    kernel's socket buffers and os-level file objects are the real ones; real-file backends live in a
    fresh directory under the system temp dir (outside /repo and /verif), removed afterwards"""
    import tempfile

    case = case_defaults(case)
    root = pathlib.Path(tempfile.mkdtemp(prefix="c01-real-"))
    base = None
    if case["backend"] in ("pathio", "asyncpathio", "quota_pathio"):
        base = root / "srv"
        base.mkdir()
    cbase = root / "cli"
    cbase.mkdir()
    try:
        return asyncio.run(asyncio.wait_for(_run_case(RealNet(), case, base, cbase), REAL_BUDGET))
    except BaseException as e:
        if isinstance(e, (KeyboardInterrupt, SystemExit)):
            raise
        return {"stored": None, "received": None, "pre": [], "open_transports": 0, "seg_up": [], "seg_down": [],
                "error": "no verdict within the budget (" + type(e).__name__ + ":" + str(e)[:60] + ")"}
    finally:
        shutil.rmtree(root, ignore_errors=True)


def run_any(case):
    if case.get("driver") != "tcp":
        return run_case(case)
    res = run_case_tcp(case)
    if res.get("error") and "no verdict within the budget" in res["error"]:
        # real sockets on the real clock: on a heavily loaded machine a correct run can exceed its wall budget.
        # A run that ran out of wall time is repeated once with three times the budget before it counts as hung
        # (an implementation that really hangs, hangs again).
        global REAL_BUDGET
        saved, REAL_BUDGET = REAL_BUDGET, REAL_BUDGET * 3
        try:
            res = run_case_tcp(case)
        finally:
            REAL_BUDGET = saved
    return res


def smoke():
    r = run_case({"verb": "STOR", "payload": b"hello world", "block_size": 3, "seg_data": {"kind": "bytes"}})
    assert r["stored"] == b"hello world" and r["second_retr"] == b"hello world" and r["stat_size"] == 11, r
    r = run_case({"verb": "RETR", "payload": b"hello world", "offset": 4, "backend": "pathio", "cblock": 2})
    assert r["received"] == b"o world", r
    return "ok"


# --------------------------------------------------------------------------------------------
# model encodings
def rand_oracle2(rng, n=6):
    return [[rng.randint(0, 4), rng.choice([1, 2, 3, 5, BIG])] for _ in range(rng.randint(0, n))]


def model_stor_args(case, seg_up, rng):
    mode = MODES[VERB_MODE["STOR" if case["verb"] in ("STOR", "UPLOAD") else "APPE"]]
    bs = case["block_size"] or 8192
    return [mode, case["offset"], case["old"] or b"", bs, list(seg_up), rand_oracle2(rng), case["payload"]]


def model_retr_args(case, seg_down, rng):
    bs = case["block_size"] or 8192
    cb = case["cblock"] or (max(1, case["chunks"][0]) if case["chunks"] else BIG)
    foracle = [rng.choice([1, 2, bs, BIG]) for _ in range(rng.randint(0, 4))]
    return [case["offset"], case["payload"], bs, foracle, list(seg_down), cb, rand_oracle2(rng)]


def ok_bytes(m):
    """decoded sx of `Some bytes`/`None` -> bytes or None"""
    if m[0] == 0:
        return bytes(m[1])
    return None


# --------------------------------------------------------------------------------------------
def pure_streams(ctx, xcheck, scale):
    rng = ctx.rng
    # ---- (a) write_at / open modes against BytesIO and a real file
    TMP_ROOT.mkdir(parents=True, exist_ok=True)
    tmp = TMP_ROOT / f"c01-pure-{os.getpid()}"
    tmp.mkdir(exist_ok=True)
    try:
        cases = []
        for _ in range(400 * scale):
            old = bytes(rng.randrange(256) for _ in range(rng.choice([0, 0, 1, 2, 5, 8, 13])))
            data = bytes(rng.randrange(256) for _ in range(rng.choice([1, 1, 2, 3, 5, 8, 21])))
            off = rng.choice([0, 1, len(old) // 2, max(0, len(old) - 1), len(old), len(old) + 1, len(old) + 7, rng.randint(0, 30)])
            cases.append((off, data, old))
        mo = ctx.model([(0, [o, d, l]) for o, d, l in cases])
        f = tmp / "w.bin"
        for (off, data, old), m in zip(cases, mo):
            ctx.case(("write_at", off, data, old))
            b = io.BytesIO(old)
            b.seek(off)
            b.write(data)
            f.write_bytes(old)
            with open(f, "r+b") as fh:
                fh.seek(off)
                fh.write(data)
            disk = f.read_bytes()
            if bytes(m) != b.getvalue() or bytes(m) != disk:
                ctx.disagree("write_at", [off, data.hex(), old.hex()], bytes(m).hex(), [b.getvalue().hex(), disk.hex()])
            if b.getvalue() != py_write_at(off, data, old) or disk != py_write_at(off, data, old):
                ctx.violation("BytesIO/file seek+write differs from the write_at oracle", {"key": "c01-write-at-oracle", "off": off, "data": data.hex(), "old": old.hex()})
            if len(xcheck) < 12:
                xcheck.append((0, [off, data, old], m))
        ctx.count("write_at_vs_bytesio_and_file", len(cases))
        # chunked writes at advancing positions (the composition lemma) on the real objects
        for _ in range(100 * scale):
            old = bytes(rng.randrange(256) for _ in range(rng.randint(0, 12)))
            data = bytes(rng.randrange(256) for _ in range(rng.randint(1, 20)))
            off = rng.randint(0, 16)
            b = io.BytesIO(old)
            b.seek(off)
            for piece in cut(data, [rng.randint(1, 4) for _ in range(20)]):
                b.write(piece)
            ctx.case(("write_at_app", off, data, old))
            if b.getvalue() != py_write_at(off, data, old):
                ctx.violation("chunked BytesIO writes differ from one write", {"key": "c01-write-at-app", "off": off, "data": data.hex(), "old": old.hex()})
        # open modes on a real file and on MemoryPathIO: content and position after open + one write
        loop = asyncio.new_event_loop()
        n_modes = 0
        for _ in range(60 * scale):
            old = bytes(rng.randrange(256) for _ in range(rng.choice([0, 1, 4, 9])))
            data = bytes(rng.randrange(256) for _ in range(rng.randint(1, 6)))
            for mode in ("wb", "ab", "r+b"):
                f.write_bytes(old)
                with open(f, mode) as fh:
                    fh.write(data)
                disk = f.read_bytes()
                mp = aioftp.MemoryPathIO()
                root = mp.get_node(pathlib.PurePosixPath("/"))
                root.content.append(aioftp.pathio.Node("file", "x", content=io.BytesIO(old)))

                async def go():
                    fo = await mp.open(pathlib.PurePosixPath("/x"), mode=mode)
                    await fo.write(data)
                    await fo.close()

                loop.run_until_complete(go())
                mem = mp.get_node(pathlib.PurePosixPath("/x")).content.getvalue()
                want = {"wb": data, "ab": old + data, "r+b": py_write_at(0, data, old)}[mode]
                ctx.case(("open_mode", mode, old, data))
                n_modes += 1
                if disk != want or mem != want:
                    ctx.violation("open mode semantics differ from the model's h_open", {"key": "c01-open-mode", "mode": mode, "old": old.hex(), "data": data.hex(), "disk": disk.hex(), "mem": mem.hex()})
        ctx.count("open_modes_disk_and_memory", n_modes)

        # ---- (b) read traces: model vs real StreamReader / BytesIO / file
        tr_cases = []
        for _ in range(250 * scale):
            nseg = rng.randint(0, 6)
            segments = [bytes(rng.randrange(256) for _ in range(rng.randint(1, 7))) for _ in range(nseg)]
            block = rng.choice([1, 2, 3, 4, 7, 64])
            sched = [rng.randint(0, 3) for _ in range(rng.randint(0, 8))]
            tr_cases.append((block, sched, segments))
        big = BIG
        mo = ctx.model([(5, [b, [[k, big] for k in s], segs]) for b, s, segs in tr_cases])

        async def real_trace(block, sched, segments):
            reader = asyncio.StreamReader()
            pending = list(segments)
            out = []
            i = 0
            while True:
                k = sched[i] if i < len(sched) else 0
                i += 1
                for _ in range(k):
                    if pending:
                        reader.feed_data(pending.pop(0))
                # the blocking wait: data keeps arriving until the buffer is non-empty or EOF
                while not reader._buffer and pending:
                    reader.feed_data(pending.pop(0))
                if not reader._buffer and not pending:
                    reader.feed_eof()
                d = await reader.read(block)
                out.append(d)
                if not d:
                    return out

        for (block, sched, segments), m in zip(tr_cases, mo):
            ctx.case(("sock_trace", block, tuple(sched), tuple(segments)))
            ctx.traces_impl += 1
            real = loop.run_until_complete(real_trace(block, sched, segments))
            if [bytes(x) for x in m] != real:
                ctx.disagree("sock_trace", [block, sched, [s.hex() for s in segments]], [bytes(x).hex() for x in m], [x.hex() for x in real])
            # oracle = the read contract itself
            if real[-1] != b"" or any(not x or len(x) > block for x in real[:-1]) or b"".join(real) != b"".join(segments):
                ctx.violation("StreamReader.read broke the read contract", {"key": "c01-read-contract", "block": block, "sched": sched, "segments": [s.hex() for s in segments]})
            if len(xcheck) < 24:
                xcheck.append((5, [block, [[k, big] for k in sched], segments], m))
        ctx.count("read_traces_vs_streamreader", len(tr_cases))

        ft_cases = []
        for _ in range(150 * scale):
            content = bytes(rng.randrange(256) for _ in range(rng.randint(0, 30)))
            pos = rng.choice([0, 0, 1, len(content) // 2, len(content), len(content) + 2])
            block = rng.choice([1, 2, 3, 4, 7, 64])
            ft_cases.append((block, content, pos))
        mo = ctx.model([(6, [b, [], c, p]) for b, c, p in ft_cases])
        for (block, content, pos), m in zip(ft_cases, mo):
            ctx.case(("file_trace", block, content, pos))
            f.write_bytes(content)
            outs = []
            for opener in (lambda: io.BytesIO(content), lambda: open(f, "rb")):
                fh = opener()
                fh.seek(pos)
                out = []
                while True:
                    d = fh.read(block)
                    out.append(d)
                    if not d:
                        break
                fh.close()
                outs.append(out)
            if [bytes(x) for x in m] != outs[0] or outs[0] != outs[1]:
                ctx.disagree("file_trace", [block, content.hex(), pos], [bytes(x).hex() for x in m], [[x.hex() for x in o] for o in outs])
            if b"".join(outs[0]) != content[pos:]:
                ctx.violation("backend read trace differs from content[pos:]", {"key": "c01-file-read", "block": block, "content": content.hex(), "pos": pos})
        ctx.count("read_traces_vs_bytesio_and_file", len(ft_cases))

        # ---- (b2) TIMED read traces: the real ThrottleStreamIO.read / iter_by_block on a virtual clock
        # (segments fed to the real StreamReader at scripted instants, every wait("read") sleeping a
        # scripted delay) vs Model/TransferTimed.timed_trace with the `scripted` timing: same blocks
        # at the same instants.  Time changes the trace; it must not change the concatenation.
        tt_cases = []
        for _ in range(150 * scale):
            nseg = rng.randint(0, 6)
            t = 0
            net = []
            for _ in range(nseg):
                t += rng.choice([0, 0, 1, 3, 10, 40, 1000])
                net.append([t, bytes(rng.randrange(256) for _ in range(rng.randint(1, 7)))])
            block = rng.choice([1, 2, 3, 4, 7, 64])
            delays = [rng.choice([0, 0, 1, 2, 5, 17, 100, 5000]) for _ in range(rng.randint(0, 8))]
            tt_cases.append((block, delays, net))
        mo = ctx.model([(13, [b, [], d, 0, n]) for b, d, n in tt_cases])

        async def timed_main(_net):
            vloop = asyncio.get_running_loop()
            outs = []
            for block, delays, net in tt_cases:
                base = vloop.time()
                reader = asyncio.StreamReader()
                script = list(delays)

                class Scripted(aioftp.ThrottleStreamIO):
                    async def wait(self, name):  # the only override: WHEN, not WHAT
                        d = script.pop(0) if script else 0
                        if d:
                            await asyncio.sleep(d)

                stream = Scripted(reader, None)
                # one timer per distinct instant (timers of equal time have no defined order)
                by_time = {}
                for at, seg in net:
                    by_time.setdefault(at, []).append(seg)
                for at, group in by_time.items():
                    vloop.call_at(base + at, lambda g=group: [reader.feed_data(x) for x in g])
                vloop.call_at(base + (net[-1][0] if net else 0) + 0.5, reader.feed_eof)
                out = []
                async for d in stream.iter_by_block(block):
                    out.append((vloop.time() - base, d))
                outs.append(out)
                await asyncio.sleep(10)
            return outs

        from harness import simnet as _simnet

        reals = _simnet.run(timed_main)
        n_time_matters = 0
        for (block, delays, net), m, real in zip(tt_cases, mo, reals):
            ctx.case(("timed_trace", block, tuple(delays), tuple((a, s) for a, s in net)))
            ctx.traces_impl += 1
            mt = [(num / den, bytes(d)) for num, den, d in m]
            ok = mt and mt[-1][1] == b"" and [(float(t), d) for t, d in mt[:-1]] == [(float(t), d) for t, d in real]
            if not ok:
                ctx.disagree("timed_trace", [block, delays, [[a, s.hex()] for a, s in net]], [[t, d.hex()] for t, d in mt], [[t, d.hex()] for t, d in real])
            whole = b"".join(s for _, s in net)
            if b"".join(d for _, d in real) != whole or any(not d or len(d) > block for _, d in real):
                ctx.violation("timed reads (real ThrottleStreamIO.read on a virtual clock) broke the read contract", {"key": "c01-timed-read-contract", "block": block, "delays": delays, "net": [[a, s.hex()] for a, s in net]})
            untimed = [whole[i : i + block] for i in range(0, len(whole), block)]
            if [d for _, d in real] != untimed:
                n_time_matters += 1
            if len(xcheck) < 30:
                xcheck.append((13, [block, [], delays, 0, net], m))
        ctx.count("timed_read_traces_vs_throttlestreamio", len(tt_cases))
        ctx.count("timed_traces_where_time_changed_the_blocks", n_time_matters)

        # ---- (c) the iterator as written, on scripted traces (conforming or not)
        it_cases = []
        for _ in range(250 * scale):
            n = rng.randint(0, 6)
            reads = [bytes(rng.randrange(256) for _ in range(rng.choice([0, 1, 1, 2, 3, 5]))) for _ in range(n)] + [b""]
            mode = rng.choice(["wb", "ab", "r+b"])
            old = bytes(rng.randrange(256) for _ in range(rng.choice([0, 2, 6])))
            off = rng.choice([0, 0, 1, 3, 9]) if mode == "r+b" else 0
            it_cases.append((mode, old, off, reads))
        mo = ctx.model([(7, [MODES[m], o, off, r]) for m, o, off, r in it_cases])
        nonconf = 0
        for (mode, old, off, reads), m in zip(it_cases, mo):
            ctx.case(("iter", mode, old, off, tuple(reads)))
            ctx.traces_impl += 1
            script = list(reads)

            async def read_coro():
                return script.pop(0) if script else b""

            async def go():
                mp = aioftp.MemoryPathIO()
                root = mp.get_node(pathlib.PurePosixPath("/"))
                root.content.append(aioftp.pathio.Node("file", "x", content=io.BytesIO(old)))
                async with mp.open(pathlib.PurePosixPath("/x"), mode=mode) as fo:
                    if off:
                        await fo.seek(off)
                    async for data in aioftp.AsyncStreamIterator(read_coro):
                        await fo.write(data)
                return mp.get_node(pathlib.PurePosixPath("/x")).content.getvalue()

            real = loop.run_until_complete(go())
            if bytes(m) != real:
                ctx.disagree("stor_loop", [mode, old.hex(), off, [r.hex() for r in reads]], bytes(m).hex(), real.hex())
            if b"" in reads[:-1]:
                nonconf += 1
            if len(xcheck) < 36:
                xcheck.append((7, [MODES[mode], old, off, reads], m))
        ctx.count("iterator_scripted_traces", len(it_cases))
        ctx.count("iterator_nonconforming_traces", nonconf)
        loop.close()
    finally:
        shutil.rmtree(tmp, ignore_errors=True)


# --------------------------------------------------------------------------------------------
def gen_consume_programs(rng, B, pause, n_random, stream=True):
    """consumption programs (see consume_program) around a block size B: loops left before EOF and followed by a
    read() / a second loop / the resumed iterator, changing block sizes, read(k) and readline() in between,
    the caller busy (or not) between two phases"""
    B1 = max(1, B - 1)
    progs = [
        [["iter", B, 0]],
        [["iter", B, 1], ["pause", pause], ["read", -1]],
        [["iter", B, 2], ["pause", pause], ["read", -1]],
        [["iter", B, 1], ["pause", pause], ["iter", 2 * B, 0]],
        [["iter", B, 1], ["read", -1]],
        [["iter", B, 1], ["pause", 0], ["iter", B, 0]],
        [["iter", B, 2], ["pause", pause], ["resume", 0]],
        [["iter", B, 1], ["pause", pause], ["read", 7], ["iter", 3, 2], ["pause", pause], ["resume", 1], ["read", B], ["iter", B + 1, 0]],
        [["read", 5], ["iter", B, 1], ["pause", pause], ["iter", B1, 1], ["pause", pause], ["read", -1]],
        [["iter", B, 1], ["pause", pause], ["iter", B, 1], ["pause", pause], ["iter", B, 1], ["pause", pause], ["read", B]],
    ]
    if stream:
        progs.append([["readline"], ["iter", B, 1], ["pause", pause], ["readline"], ["lines", 2], ["pause", pause], ["read", 4]])
    for _ in range(n_random):
        prog = []
        for _ in range(rng.randint(1, 6)):
            kind = rng.choice(["iter", "iter", "iter", "read", "read", "resume"] + (["readline", "lines"] if stream else []))
            if kind == "iter":
                prog.append(["iter", rng.choice([1, 2, 3, B1, B, B + 1, 2 * B]), rng.choice([0, 1, 1, 2, 3])])
            elif kind == "read":
                prog.append(["read", rng.choice([0, 1, 2, B1, B, B + 1, 3 * B])])
            elif kind == "resume":
                prog.append(["resume", rng.choice([0, 1, 2])])
            elif kind == "lines":
                prog.append(["lines", rng.choice([1, 2])])
            else:
                prog.append(["readline"])
            if rng.random() < 0.6:
                prog.append(["pause", rng.choice([0, pause])])
        progs.append(prog)
    return progs


def consume_label(prog):
    kinds = [op[0] for op in prog if op[0] != "pause"]
    left = any(op[0] == "iter" and op[2] > 0 for op in prog)
    return ("consume_single_op" if len(kinds) == 1 else "consume_mixed_ops") + ("_loop_left_before_eof" if left else "")


def classify_offset(off, n):
    if off == 0:
        return "off=0"
    if off < n:
        return "off_inside"
    if off == n:
        return "off_at_end"
    return "off_beyond_end"


def gen_session_cases(ctx, scale):
    """the session-level matrix; returns a list of case dicts"""
    rng = ctx.rng
    cases = []
    thorough = ctx.tier == "thorough"

    orng = random.Random(rng.randrange(10**9))  # its own stream: the other dimensions keep their draws

    def add(**kw):
        # who looked at the target (stat + MLSD + LIST) BEFORE the transfer: nobody, the transferring
        # session, another session, both -- the answers AFTER the completion reply must not depend on it
        kw.setdefault("observe_before", orng.choice([None, None, "same", "other", "both"]))
        cases.append(kw)

    # -- 1. payload x offset x verb x small block sizes, memory backend, alternating passive mode
    block_sizes = [1, 3, 4, 7, 64, None]
    toggle = itertools.cycle(["epsv", "pasv"])
    for bs in block_sizes:
        eff = bs or 8192
        for label, payload in payload_classes(rng, eff) + (SPECIAL_PAYLOADS if bs in (3, 7, None) else SPECIAL_PAYLOADS[:2]):
            if eff == 8192 and label in ("bs-1", "bs+1", "multi") and not thorough and rng.random() < 0.0:
                continue
            # uploads: pre-existing content shorter / equal / longer than offset + payload, or missing
            for verb in ("STOR", "APPE"):
                olds = [None, b"", bytes(rng.randrange(256) for _ in range(5)), bytes(rng.randrange(256) for _ in range(len(payload) + 9))]
                if eff == 8192:
                    olds = [None, bytes(rng.randrange(256) for _ in range(5))]
                for old in olds:
                    for olabel, off in offsets_for(len(old or b"")):
                        if off and old is None:
                            continue  # REST + STOR/APPE on a missing file (451, nothing created): stream (f), missing_restart_stream
                        if eff == 8192 and olabel not in ("0", "inside") and not thorough:
                            continue
                        chunks = rng.choice([[], [1], [2, 3], [eff], [max(1, eff - 1)], [eff + 1], [0, 5]])
                        add(verb=verb, payload=payload, offset=off, old=old, block_size=bs, passive=next(toggle), chunks=chunks,
                            _plabel=label)
            # downloads
            for olabel, off in offsets_for(len(payload)):
                rd = rng.choice([("all", None, []), ("block", rng.choice([1, 2, eff, eff + 1]), []), ("sizes", None, [rng.randint(1, 5), rng.randint(1, 9)])])
                add(verb="RETR", payload=payload, offset=off, block_size=bs, passive=next(toggle), cblock=rd[1], chunks=rd[2], _plabel=label)

    # -- 2. every split of a short payload on the data channel (bounded-exhaustive), bs 1/3/4
    short = b"\r\n\xff\x00Az"
    for n in range(1, 7 if thorough else 6):
        data = short[:n]
        for sizes in all_splits(data):
            for bs in (1, 3, 4) if thorough else (rng.choice([1, 3]), 4):
                verb = rng.choice(["STOR", "APPE"])
                old = rng.choice([None, b"OLD", b"0123456789"])
                off = rng.choice([0, 0, 2, len(old)]) if old else 0
                add(verb=verb, payload=data, offset=off, old=old, block_size=bs, seg_data={"kind": "cuts", "sizes": sizes},
                    passive=next(toggle), _plabel="split")
            add(verb="RETR", payload=b"__" + data, offset=2, block_size=max(n, 1), seg_data={"kind": "cuts", "sizes": sizes},
                cblock=rng.choice([1, 2, 8]), passive=next(toggle), _plabel="split")

    # -- 3. byte-by-byte and random segmentation on data AND control channels, latency
    for _ in range(60 * scale):
        bs = rng.choice([1, 3, 4, 7, 64])
        label, payload = rng.choice(payload_classes(rng, bs) + SPECIAL_PAYLOADS)
        verb = rng.choice(["STOR", "APPE", "RETR"])
        old = rng.choice([None, b"", bytes(rng.randrange(256) for _ in range(rng.randint(1, 20)))])
        if verb == "RETR":
            off = rng.choice([o for _, o in offsets_for(len(payload))])
        else:
            off = rng.choice([o for _, o in offsets_for(len(old or b""))]) if old is not None else 0
        add(verb=verb, payload=payload, offset=off, old=old, block_size=bs,
            seg_data=rng.choice([{"kind": "bytes"}, {"kind": "random", "seed": rng.randrange(10**6), "max": rng.choice([2, 5, 17])}]),
            seg_ctrl=rng.choice([{"kind": "bytes"}, {"kind": "random", "seed": rng.randrange(10**6), "max": 4}, {"kind": "whole"}]),
            latency={"data": rng.choice([0, 0.01, 0.3]), "ctrl": rng.choice([0, 0.02, 0.2])},
            passive=next(toggle), chunks=rng.choice([[], [1], [3, 1, 4]]), cblock=rng.choice([None, 1, 5]), _plabel=label)

    # -- 3b. a silent network in the middle of a transfer (both directions of the data channel stall)
    for _ in range(12 * scale):
        bs = rng.choice([3, 7, 64])
        payload = bytes(rng.randrange(256) for _ in range(rng.randint(20, 60)))
        verb = rng.choice(["STOR", "APPE", "RETR"])
        old = bytes(rng.randrange(256) for _ in range(rng.randint(0, 30)))
        off = rng.choice([0, 3, len(old)]) if verb != "RETR" else rng.choice([0, 5])
        add(verb=verb, payload=payload, offset=off, old=old, block_size=bs, passive=next(toggle),
            seg_data={"kind": "random", "seed": rng.randrange(10**6), "max": 4}, latency={"data": 0.2, "ctrl": 0},
            stall=[rng.choice([0.1, 0.5, 1.1]), rng.choice([0.7, 30.0])], chunks=rng.choice([[], [5]]), cblock=rng.choice([None, 3]),
            _plabel="stalled")

    # -- 3c. another session stats + lists the target WHILE a multi-block transfer is in flight (the transfer is
    #        slowed to one block per virtual second by a per-user limit; the observer is another user, the observer looks every 0.4-0.7 s)
    for backend in ("memory", "pathio", "asyncpathio", "buffered"):
        for verb in ("STOR", "APPE", "RETR"):
            for bs in (3, 8):
                payload = bytes(rng.randrange(256) for _ in range(bs * rng.randint(3, 5) + rng.randint(0, 2)))
                old = bytes(rng.randrange(256) for _ in range(rng.randint(2 * bs, 6 * bs)))
                off = rng.choice([0, 2, bs + 1]) if verb != "RETR" else rng.choice([0, 2, bs])
                add(verb=verb, payload=payload, offset=off, old=old, block_size=bs, backend=backend, passive=next(toggle),
                    throttle={"user_read": bs, "user_write": bs}, observe_during=[rng.choice([0.4, 0.7]), 150],
                    chunks=rng.choice([[], [bs]]), cblock=rng.choice([None, bs]), _plabel="observed_during")

    # -- 3d. the backend fails AT CLOSE (the file outgrows its quota; writes are buffered, the flush in close() fails
    #        after a partial flush): files within the limit are stored, bigger ones must NOT be acknowledged
    for backend in CLOSE_FAULT_BACKENDS:
        for verb in ("STOR", "APPE"):
            for n in (0, 3, CLOSE_LIMIT - 1, CLOSE_LIMIT, CLOSE_LIMIT + 1, 3 * CLOSE_LIMIT):
                for old in (None, bytes(rng.randrange(256) for _ in range(5))):
                    payload = bytes(rng.randrange(256) for _ in range(n))
                    off = rng.choice([0, 0, 2]) if old is not None else 0
                    add(verb=verb, payload=payload, offset=off, old=old, block_size=rng.choice([4, 64]), backend=backend, passive=next(toggle),
                        chunks=rng.choice([[], [5]]), _plabel="close_fault")

    # -- 4. throttles (small limits; virtual time makes them free)
    throttles = [
        {"server_read": 40, "server_write": 40},
        {"client_read": 30, "client_write": 30},
        {"user_read": 25, "user_write": 50, "conn_read": 100, "conn_write": 100},
        {"server_read": 7, "client_write": 1000},
        # boundary values: 0 means "unlimited" everywhere in aioftp (Throttle.wait sleeps only for a limit > 0), 1 is the
        # smallest real limit (every block is bigger than the limit) -- each scope, both directions, alone and mixed
        {"server_read": 0, "server_write": 0},
        {"conn_read": 0, "conn_write": 0},
        {"user_read": 0, "user_write": 0},
        {"client_read": 0, "client_write": 0},
        {"server_read": 0, "user_write": 0, "conn_read": 50, "conn_write": 50},
        {"server_write": 0, "user_read": 0, "conn_read": 0, "client_read": 0, "client_write": 0},
        {"server_read": 1, "server_write": 1},
        {"user_read": 1, "conn_write": 1},
    ]
    for thr in throttles:
        for verb in ("STOR", "APPE", "RETR"):
            for bs in (3, 64):
                payload = bytes(rng.randrange(256) for _ in range(rng.choice([bs + 1, 3 * bs + 1])))
                if 1 in thr.values():
                    payload = payload[: bs + 2]  # one byte per virtual second
                old = bytes(rng.randrange(256) for _ in range(10))
                off = rng.choice([0, 4, 10, 13])
                add(verb=verb, payload=payload, offset=off, old=old, block_size=bs, throttle=thr, passive=next(toggle),
                    seg_data=rng.choice([{"kind": "whole"}, {"kind": "random", "seed": rng.randrange(10**6), "max": 5}]),
                    chunks=rng.choice([[], [2]]), _plabel="throttled")

    # -- 5. the other backends (disk in a tmpdir; a buffering backend with a slow close)
    for backend in ("pathio", "asyncpathio", "buffered"):
        for bs in (1, 4, 64, None) if backend != "asyncpathio" else (3, 64, None):
            eff = bs or 8192
            pls = payload_classes(rng, eff) + [SPECIAL_PAYLOADS[0], SPECIAL_PAYLOADS[5]]
            if eff == 8192:
                pls = [pls[0], pls[1], pls[4], SPECIAL_PAYLOADS[0]]
            if backend == "asyncpathio" and eff == 3:
                pls = [p for p in pls if len(p[1]) < 40]
            for label, payload in pls:
                for verb in ("STOR", "APPE"):
                    old = rng.choice([None, bytes(rng.randrange(256) for _ in range(6)), bytes(rng.randrange(256) for _ in range(len(payload) + 5))])
                    offs = [o for _, o in offsets_for(len(old or b""))] if old is not None else [0]
                    for off in (offs if eff != 8192 else offs[:2]):
                        add(verb=verb, payload=payload, offset=off, old=old, block_size=bs, backend=backend, passive=next(toggle),
                            chunks=rng.choice([[], [3], [eff]]),
                            seg_data=rng.choice([{"kind": "whole"}, {"kind": "random", "seed": rng.randrange(10**6), "max": 11}]), _plabel=label)
                for _, off in offsets_for(len(payload))[: (4 if eff != 8192 else 2)]:
                    add(verb="RETR", payload=payload, offset=off, block_size=bs, backend=backend, passive=next(toggle),
                        cblock=rng.choice([None, 2, eff]), _plabel=label)

    # -- 6. high-level upload() / download() with MemoryPathIO on the client
    for bs in (1, 4, 64, None):
        eff = bs or 8192
        for label, payload in payload_classes(rng, eff)[: (6 if eff != 8192 else 5)] + SPECIAL_PAYLOADS[:1]:
            cb = rng.choice([1, 2, 5, eff, eff + 1]) if len(payload) < 2000 else rng.choice([eff - 1, eff, 1000])
            old = rng.choice([None, b"previous content, longer than some payloads"])
            add(verb="UPLOAD", payload=payload, old=old, block_size=bs, cblock=cb, passive=next(toggle), _plabel=label,
                backend=rng.choice(["memory", "pathio"]))
            add(verb="DOWNLOAD", payload=payload, block_size=bs, cblock=cb, passive=next(toggle), _plabel=label,
                backend=rng.choice(["memory", "pathio"]),
                local_old=rng.choice([None, b"x", b"an older local copy, longer than some payloads........"]))

    # -- 7. a plain transfer after a completed REST + transfer pair on the same session
    for verb in ("STOR", "APPE", "RETR"):
        for pre in ([("RETR", 4)], [("STOR", 3)], [("RETR", 2), ("APPE", 5)]):
            payload = b"0123456789abcdef"
            add(verb=verb, payload=payload, offset=0, old=b"OLDOLDOLD" if verb != "RETR" else None, block_size=4, pre=pre,
                passive=next(toggle), _plabel="after-rest-pair")
    # -- 8. payloads beyond the 64 KiB flow-control mark (drain() blocks, reading is paused/resumed)
    big_specs = [
        ("STOR", "memory", {"kind": "random", "seed": rng.randrange(10**6), "max": 3000}, None, None),
        ("RETR", "memory", {"kind": "whole"}, {"client_read": 20000}, 3000),
        ("APPE", "pathio", {"kind": "whole"}, None, None),
        ("RETR", "pathio", {"kind": "random", "seed": rng.randrange(10**6), "max": 5000}, None, None),
        ("STOR", "memory", {"kind": "whole"}, {"server_read": 30000}, None),
        ("STOR", "memory", {"kind": "whole"}, None, None),
    ]
    for verb, backend, seg, thr, cb in big_specs if thorough else big_specs[:4]:
        payload = rng.randbytes(70000 + rng.randrange(0, 9000))
        old = rng.randbytes(100) if verb != "RETR" else None
        add(verb=verb, payload=payload, offset=rng.choice([0, 50, 100]) if verb != "RETR" else rng.choice([0, 65536, 70001]), old=old,
            backend=backend, seg_data=seg, throttle=thr, cblock=cb, passive=next(toggle),
            chunks=rng.choice([[], [20000, 1, 30000]]) if verb != "RETR" else [], _plabel="over-64KiB")
    # and a REST that is cancelled by a later non-transfer command before the transfer (whole file)
    add(verb="RETR", payload=b"0123456789", offset=0, block_size=4, pre=[("CMD", "REST 3"), ("CMD", "TYPE I")], _plabel="rest-then-type")
    # -- 9. HOW THE CALLER CONSUMES the download stream: consumption programs (iter_by_block(n) loops left before EOF,
    #       resumed, followed by read(k) / read() / readline() / a second loop with another n, the caller busy in between)
    prng = random.Random(rng.randrange(10**9))  # its own stream
    for size, B, bs in ((37, 3, 4), (700, 64, 64), (3107, 512, None)):
        alphabet = bytes(range(256)) if size > 100 else b"ab\r\n\x00\xff"
        for prog in gen_consume_programs(prng, B, 1.0, 8 if thorough else 4):
            payload = bytes(prng.choice(alphabet) for _ in range(size)) if size <= 100 else prng.randbytes(size)
            seg = prng.choice([{"kind": "whole"}, {"kind": "whole"}, {"kind": "bytes"} if size < 100 else {"kind": "random", "seed": prng.randrange(10**6), "max": 2 * B},
                               {"kind": "random", "seed": prng.randrange(10**6), "max": 9 if size < 100 else 300}])
            add(verb="RETR", payload=payload, offset=prng.choice([0, 0, 1, size // 3, size - 1]), block_size=bs, consume=prog,
                backend=prng.choice(["memory", "memory", "pathio", "asyncpathio"]), seg_data=seg, passive=next(toggle),
                latency=prng.choice([{"data": 0, "ctrl": 0}, {"data": 0.3, "ctrl": 0}]), _plabel="consume-program")
    for size in (0, 1):
        add(verb="RETR", payload=b"x" * size, offset=0, block_size=4, consume=[["iter", 2, 1], ["pause", 1.0], ["read", -1]], _plabel="consume-program")
    return cases


def check_case(ctx, case, res, model_out, stream="session"):
    """compare implementation result with the oracle and with the model"""
    c = case_defaults(case)
    verb = c["verb"]
    payload, off, old = c["payload"], c["offset"], c["old"]
    rep = jsonable({k: v for k, v in c.items() if not k.startswith("_")})
    upload = verb in ("STOR", "APPE", "UPLOAD")
    if upload and c["backend"] in CLOSE_FAULT_BACKENDS and len(py_spec_store("STOR" if verb in ("STOR", "UPLOAD") else "APPE", off, payload, old)) > CLOSE_LIMIT:
        # the backend cannot store this file: its close() fails.  A positive completion reply would be a lie:
        # the only acceptable outcome is a negative one (451); with a 226 the ordinary clauses below apply.
        ctx.count("close_fault_cases")
        if res["error"] is not None and "451" in res["error"]:
            return
    if res["error"] is not None:
        ctx.violation(f"{verb} failed: {res['error']}", {"key": f"c01-{verb.lower()}-error", "case": rep, "error": res["error"]})
        return
    if upload:
        want = py_spec_store("STOR" if verb in ("STOR", "UPLOAD") else "APPE", off, payload, old)
        if res["stored"] != want:
            ctx.violation(
                f"{verb}: bytes in the backend after the 226 differ from what was uploaded",
                {"key": f"c01-{verb.lower()}-stored-differs", "case": rep, "stored": (res["stored"] or b"").hex()[:400], "expected": want.hex()[:400],
                 "stored_len": len(res["stored"] or b""), "expected_len": len(want), "first_difference_at": first_difference(res["stored"], want)},
            )
        m = ok_bytes(model_out) if model_out is not None else res["stored"]  # None: beyond the model's size bound, oracle only
        if m != res["stored"]:
            ctx.disagree(stream, rep, None if m is None else m.hex()[:200], (res["stored"] or b"").hex()[:200])
        final = want
    else:
        want = py_spec_retr(off, payload)
        if res["received"] != want:
            ctx.violation(
                f"{verb}: bytes received before EOF differ from the stored file",
                {"key": f"c01-{verb.lower()}-received-differs", "case": rep, "received": (res["received"] or b"").hex()[:400], "expected": want.hex()[:400],
                 "received_len": len(res["received"] or b""), "expected_len": len(want), "first_difference_at": first_difference(res["received"], want)},
            )
        m = ok_bytes(model_out) if model_out is not None else res["received"]
        if m != res["received"]:
            ctx.disagree(stream, rep, None if m is None else m.hex()[:200], (res["received"] or b"").hex()[:200])
        if res["stored"] != payload:
            ctx.violation("RETR changed the stored file", {"key": "c01-retr-changed-file", "case": rep})
        final = payload
    # visible_after_226: a second session sees exactly the new content
    if res.get("stat_size") != len(final) or res.get("list_size") != len(final) or res.get("second_retr") != final:
        ctx.violation(
            f"{verb}: a second session does not see the new content after the completion reply",
            {"key": f"c01-{verb.lower()}-not-visible-after-226", "case": rep, "stat": res.get("stat_size"), "list": res.get("list_size"),
             "second_retr": (res.get("second_retr") or b"").hex()[:400], "expected_len": len(final)},
        )
    # ... on the transferring session too, by MLST, MLSD and LIST, whoever looked before the transfer
    for who in ("after_same", "after_other"):
        o = res.get(who) or {}
        if any(o.get(k) != len(final) for k in ("stat", "mlsd", "list")):
            ctx.violation(
                f"{verb}: stat / listing after the completion reply do not report the new size",
                {"key": f"c01-{verb.lower()}-size-not-visible-after-226", "case": rep, "session": who, "reported": o, "before": res.get("before"),
                 "expected_size": len(final)},
            )
            break
    before_len = len(payload) if not upload else (None if old is None else len(old))
    for who, o in (res.get("before") or {}).items():
        want_b = before_len if before_len is not None else None
        if before_len is not None and any(o.get(k) != want_b for k in ("stat", "mlsd", "list")):
            ctx.violation(f"{verb}: stat / listing BEFORE the transfer do not report the stored size",
                          {"key": "c01-size-before-transfer", "case": rep, "session": who, "reported": o, "expected_size": want_b})
    for got, (pverb, poff) in zip(res["pre"], [p for p in c["pre"] if p[0] == "RETR"]):
        pre_content = payload if not upload else (old or b"")
        if got != pre_content[poff:]:
            ctx.violation("REST + RETR pair delivered wrong bytes", {"key": "c01-retr-received-differs", "case": rep})
    if res["open_transports"]:
        ctx.notes.append(f"simnet: {res['open_transports']} transports left open after a C01 case (not a C01 matter)")


def session_stream(ctx, xcheck, scale, reps=1):
    rng = ctx.rng
    cases = []
    for _ in range(reps):
        cases += gen_session_cases(ctx, scale)
    results = []
    for case in cases:
        res = run_case({k: v for k, v in case.items() if not k.startswith("_")})
        ctx.traces_impl += 1
        results.append(res)
    if ctx.tier == "thorough":
        # second driver: the same cases over real loopback TCP (no simulated segmentation / time)
        plain = [c for c in cases if c.get("backend", "memory") in ("memory", "pathio") and not c.get("throttle") and not c.get("latency") and not c.get("stall")
                 and c.get("seg_data", {"kind": "whole"})["kind"] == "whole" and not c.get("pre")]
        tcp = rng.sample(plain, min(300, len(plain)))
        for case in tcp:
            c2 = dict(case)
            c2["_plabel"] = case.get("_plabel", "other")
            c2["_tcp"] = True
            c2["driver"] = "tcp"
            res = run_any({k: v for k, v in c2.items() if not k.startswith("_")})
            ctx.traces_impl += 1
            res["seg_up"], res["seg_down"] = [], []
            cases.append(c2)
            results.append(res)
        ctx.count("loopback_tcp_cases", len(tcp))
    # model side, with the segmentation the network really applied
    model_in = []
    for case, res in zip(cases, results):
        c = case_defaults(case)
        if c["verb"] in ("STOR", "APPE", "UPLOAD"):
            model_in.append((3, model_stor_args(c, res.get("seg_up", []), rng)))
        else:
            model_in.append((4, model_retr_args(c, res.get("seg_down", []), rng)))
    model_out = ctx.model(model_in)
    for case, res, (fn, args), mo in zip(cases, results, model_in, model_out):
        c = case_defaults(case)
        ctx.case(("session", case.get("_tcp", False), repr(sorted(jsonable({k: v for k, v in c.items() if not k.startswith("_")}).items()))))
        ctx.count("verb_" + c["verb"])
        ctx.count("backend_" + c["backend"])
        ctx.count("passive_" + c["passive"])
        ctx.count("payload_" + case.get("_plabel", "other"))
        n_exist = len(c["payload"]) if c["verb"] in ("RETR", "DOWNLOAD") else len(c["old"] or b"")
        ctx.count(classify_offset(c["offset"], n_exist))
        ctx.count("block_size_" + str(c["block_size"] or "default"))
        ctx.count("seg_data_" + c["seg_data"]["kind"])
        ctx.count("seg_ctrl_" + c["seg_ctrl"]["kind"])
        if c["throttle"]:
            ctx.count("throttled")
        if c["latency"]["data"] or c["latency"]["ctrl"]:
            ctx.count("latency")
        if c["stall"]:
            ctx.count("stalled_mid_transfer")
        if c["consume"] is not None:
            ctx.count(consume_label(c["consume"]))
        if c["local_old"] is not None:
            ctx.count("download_onto_existing_local_file")
        ctx.count("observed_before_by_" + str(c["observe_before"]).lower())
        if c["observe_during"]:
            ctx.count("observed_during_transfer")
            ctx.count("observations_inside_a_transfer", res.get("during_inside", 0))
        if c["verb"] in ("STOR", "APPE"):
            ctx.count("old_" + ("missing" if c["old"] is None else "shorter" if len(c["old"]) < c["offset"] + len(c["payload"]) else "equal" if len(c["old"]) == c["offset"] + len(c["payload"]) else "longer"))
        check_case(ctx, case, res, mo)
        if len(xcheck) < 70 and len(sx.enc(args)) < 1500:
            xcheck.append((fn, args, mo))
    ctx.sample({"stream": "session", "case": jsonable({k: v for k, v in case_defaults(cases[0]).items() if not k.startswith("_")}),
                "stored_hex": (results[0]["stored"] or b"").hex()[:80]})
    ctx.count("session_cases", len(cases))


UP_OLD = b"0123456789abcdef"  # content of the upload target before every upload step of stream (e)
UP_NEW = b"XYZ"
REFUSED = {"retr_missing": "retr", "retr_noconn": "retr", "stor_ro": "stor", "appe_missing_dir": "appe"}
OFFSET_VERB_CODE = {"type": 0, "noop": 6, "retr": 5, "stor": 3, "appe": 4}


def py_offsets(seq):
    """the property oracle for the restart offset, plain Python: REST n is pending for exactly the next
    command; a transfer command is served from what is pending when it is dispatched; any known
    command -- also a transfer command that is REFUSED before any byte moves (550 / 425) --
    consumes it; an unknown one (502) does not.  Returns, per step that moves bytes, what must be
    observed: ("retr", offset) / ("stor"|"appe", content of the target afterwards)."""
    pending, out = 0, []
    for s in seq:
        if s[0] == "rest":
            pending = s[1]
        elif s[0] == "retr":
            out.append(("retr", pending))
            pending = 0
        elif s[0] in ("stor", "appe"):
            out.append((s[0], py_spec_store(s[0].upper(), pending, UP_NEW, UP_OLD)))
            pending = 0
        elif s[0] == "noop":  # not implemented by aioftp: 502, nothing else happens
            pass
        else:  # type, and every refused transfer command
            pending = 0
    return out


OFFSET_CONTENT = bytes(range(40, 80))
TRANSFER_KINDS = ("retr", "stor", "appe")


async def _offset_session(net, seq):
    content = OFFSET_CONTENT
    users = [aioftp.User(base_path="/", home_path="/", permissions=[aioftp.Permission("/"), aioftp.Permission("/ro", writable=False)])]
    server = aioftp.Server(users, path_io_factory=aioftp.MemoryPathIO, block_size=4, wait_future_timeout=1)
    await server.start("127.0.0.1", 2121)
    store = Store("memory", server, None)
    store.put(FNAME, content)
    store.put("up.bin", UP_OLD)
    mp = store._mem()
    mp.get_node(pathlib.PurePosixPath("/")).content.append(aioftp.pathio.Node("dir", "ro", content=[]))
    c = aioftp.Client(passive_commands=("pasv",))
    await c.connect("127.0.0.1", 2121)
    await c.login()
    # ONE passive listener for the whole sequence (TYPE/PASV are commands and would consume a pending offset)
    await c.command("TYPE I", "200")
    ip, port = await c._do_pasv()
    host = c.server_host if ip in ("0.0.0.0", None) else ip
    obs = []

    async def cmd(line, expect=("1xx", "2xx", "3xx", "4xx", "5xx")):
        code, _info = await c.command(line, expect)
        return str(code)

    for s in seq:
        kind = s[0]
        try:
            if kind == "rest":
                await cmd(f"REST {s[1]}")
            elif kind == "type":
                await cmd("TYPE I")
            elif kind == "noop":
                await cmd("NOOP")
            elif kind == "retr_missing":
                obs.append(("refused", await cmd("RETR no-such-file.bin")))
            elif kind == "stor_ro":
                obs.append(("refused", await cmd("STOR ro/x.bin")))
            elif kind == "appe_missing_dir":
                obs.append(("refused", await cmd("APPE no-such-dir/x.bin")))
            elif kind == "retr_noconn":
                # no data connection is opened: 150, then 425 after wait_future_timeout (virtual time)
                first = await cmd("RETR " + FNAME)
                obs.append(("refused", first if not first.startswith("1") else await cmd(None, ("2xx", "4xx", "5xx"))))
            elif kind == "retr":
                reader, writer = await c._open_connection(host, port)
                first = await cmd("RETR " + FNAME)
                got = await reader.read() if first.startswith("1") else b""
                writer.close()
                last = await cmd(None, ("2xx", "4xx", "5xx")) if first.startswith("1") else first
                obs.append(("retr", got, last))
            else:  # stor / appe onto up.bin, which holds UP_OLD before every upload step
                store.put("up.bin", UP_OLD)
                reader, writer = await c._open_connection(host, port)
                first = await cmd(kind.upper() + " up.bin")
                if first.startswith("1"):
                    writer.write(UP_NEW)
                    await writer.drain()
                writer.close()
                last = await cmd(None, ("2xx", "4xx", "5xx")) if first.startswith("1") else first
                obs.append((kind, store.get("up.bin"), last))
        except Exception as e:  # an exception is an observation, the sequence goes on
            obs.append(("exception", kind, type(e).__name__ + ":" + str(e)[:60]))
    try:
        await c.quit()
    except Exception:
        c.close()
    await server.close()
    return obs



def run_offset_seq(seq):
    try:
        return simnet.run(lambda net: _offset_session(net, seq))
    except Exception as e:
        return [("exception", "run", type(e).__name__ + ":" + str(e)[:60])]


def offset_verdict(seq, obs):
    """property oracle on one observed sequence: (ok, what the steps that moved bytes showed, what they must show)"""
    content = OFFSET_CONTENT
    moved = [o for o in obs if o[0] in TRANSFER_KINDS]
    want = py_offsets(seq)
    got = [("retr", len(content) - len(o[1])) if o[0] == "retr" and o[2].startswith("2") and content.endswith(o[1]) else (o[0], o[1]) if o[2].startswith("2") else (o[0], "reply " + o[2]) for o in moved]
    want_n = [(k, min(v, len(content))) if k == "retr" else (k, v) for k, v in want]
    bad_refusal = [o for o in obs if o[0] == "refused" and not (o[1].startswith("4") or o[1].startswith("5"))]
    ok = got == want_n and not any(o[0] == "exception" for o in obs) and not bad_refusal
    return ok, got, want


def offset_stream(ctx, xcheck):
    """(e) transfer_trace vs the real dispatcher: command sequences through the control channel with
    transfers anywhere in them -- RETR / STOR / APPE, back to back with no command in between over
    the same passive listener, and transfer commands that are REFUSED before their worker runs
    (550 missing file, 550 permission, 425 no data connection) between a REST and the next
    transfer; every download tells the offset it was served from, every upload is read back
    from the backend"""
    rng = ctx.rng
    content = OFFSET_CONTENT
    seqs = [
        [("rest", 4), ("retr",), ("retr",)],  # the former F14 witness
        [("rest", 7), ("retr",), ("retr",), ("retr",)],
        [("rest", 5), ("noop",), ("retr",), ("noop",), ("retr",)],
        [("rest", 3), ("type",), ("retr",)],
        [("rest", 9), ("rest", 2), ("retr",), ("rest", 6), ("retr",), ("retr",)],
        [("rest", 6), ("retr_missing",), ("retr",)],
        [("rest", 5), ("stor_ro",), ("stor",)],
        [("rest", 5), ("retr_noconn",), ("appe",)],
        [("rest", 3), ("appe_missing_dir",), ("noop",), ("stor",), ("retr",)],
        [("rest", 4), ("stor",), ("stor",), ("rest", 20), ("appe",), ("appe",)],
    ]
    for _ in range(50):
        seq = []
        for _ in range(rng.randint(0, 6)):
            x = rng.random()
            if x < 0.35:
                seq.append(("rest", rng.randint(0, 30)))
            elif x < 0.6:
                seq.append((rng.choice(["retr", "retr", "stor", "appe"]),))
            elif x < 0.8:
                seq.append((rng.choice(list(REFUSED)),))
            else:
                seq.append((rng.choice(["type", "noop"]),))
        seqs.append(seq + [(rng.choice(["retr", "retr", "stor", "appe"]),)])
    enc = lambda seq: [[[0, s[1]] if s[0] == "rest" else [1, OFFSET_VERB_CODE[REFUSED.get(s[0], s[0])]] for s in seq]]
    mo = ctx.model([(9, enc(seq)) for seq in seqs])

    n_b2b = n_ref = 0
    transfer_kinds = TRANSFER_KINDS
    for seq, m in zip(seqs, mo):
        ctx.case(("transfer_trace", tuple(seq)))
        ctx.traces_impl += 1
        obs = run_offset_seq(seq)
        rep = {"key": "c01-offset-not-next-transfer-only", "seq": [list(s) for s in seq]}
        # the model's trace has one entry per transfer COMMAND (refused ones included: the dispatcher
        # hands the offset over before the handler refuses); keep those whose worker ran
        cmds = [s[0] for s in seq if s[0] in transfer_kinds or s[0] in REFUSED]
        model_used = [off for k, off in zip(cmds, m) if k in transfer_kinds]
        moved = [o for o in obs if o[0] in transfer_kinds]
        impl_used = []
        for o in moved:
            if o[0] == "retr":
                impl_used.append(len(content) - len(o[1]) if o[2].startswith("2") and content.endswith(o[1]) else -1)
            else:
                cands = [off for off in range(0, 40) if o[2].startswith("2") and o[1] == py_spec_store(o[0].upper(), off, UP_NEW, UP_OLD)]
                impl_used.append(cands[0] if cands else -1)
        # APPE from 0 and from len(UP_OLD) give the same file: compare through the content
        def same(kind, a, b):
            if kind == "retr":
                return min(a, len(content)) == min(b, len(content))
            return a >= 0 and py_spec_store(kind.upper(), a, UP_NEW, UP_OLD) == py_spec_store(kind.upper(), b, UP_NEW, UP_OLD)
        if len(impl_used) != len(model_used) or not all(same(o[0], a, b) for o, a, b in zip(moved, impl_used, model_used)):
            ctx.disagree("transfer_trace", [list(s) for s in seq], model_used, impl_used)
        ok, _got, want = offset_verdict(seq, obs)
        if not ok:
            ctx.violation(
                "a restart offset did not apply to exactly the next transfer command",
                dict(rep, observed=[[x.hex() if isinstance(x, bytes) else x for x in o] for o in obs],
                     expected=[[k, v.hex() if isinstance(v, bytes) else v] for k, v in want]),
            )
        if any(a[0] in transfer_kinds and b[0] in transfer_kinds for a, b in zip(seq, seq[1:])):
            n_b2b += 1
        if any(s[0] in REFUSED for s in seq):
            n_ref += 1
        if len(xcheck) < 90:
            xcheck.append((9, enc(seq), m))
    ctx.count("offset_sequences", len(seqs))
    ctx.count("offset_sequences_with_back_to_back_transfers", n_b2b)
    ctx.count("offset_sequences_with_refused_transfers", n_ref)


def missing_restart_stream(ctx, xcheck):
    """(f) REST n + STOR/APPE on a MISSING file: 451, nothing created, the session goes on and a plain
    upload afterwards stores exactly its payload -- on all three backends"""
    rng = ctx.rng
    cases = []
    for backend in ("memory", "pathio", "asyncpathio"):
        for verb in ("STOR", "APPE"):
            for off in (1, 5, 0):
                for payload in (b"", b"x", bytes(rng.randrange(256) for _ in range(rng.randint(2, 12)))):
                    cases.append((backend, verb, off, payload, rng.choice(["pasv", "epsv"]), rng.choice([1, 3, 64])))
    mo = ctx.model([(15, [MODES[VERB_MODE[v]], off, [], ([p] if p else []) + [b""]]) for _, v, off, p, _, _ in cases])

    async def one(net, backend, base, verb, off, payload, passive, bs):
        server = aioftp.Server([aioftp.User(base_path=base if base is not None else "/", home_path="/")], path_io_factory=BACKENDS[backend], block_size=bs)
        await server.start("127.0.0.1", 2121)
        store = Store(backend, server, base)
        c = aioftp.Client(passive_commands=(passive,))
        await c.connect("127.0.0.1", 2121)
        await c.login()
        res = {"refused": None, "after": None, "exists": None, "then": None}
        factory = c.upload_stream if verb == "STOR" else c.append_stream
        try:
            async with factory(FNAME, offset=off) as stream:
                if payload:
                    await stream.write(payload)
            res["refused"] = "no"
        except aioftp.StatusCodeError as e:
            res["refused"] = "+".join(str(x) for x in e.received_codes)
        except Exception as e:  # the data connection may already be gone when the client writes
            res["refused"] = type(e).__name__
        res["after"] = store.get(FNAME)
        obs = aioftp.Client(passive_commands=("epsv",))
        await obs.connect("127.0.0.1", 2121)
        await obs.login()
        res["exists"] = await obs.exists(FNAME)
        await obs.quit()
        try:
            async with c.upload_stream(FNAME) as stream:
                await stream.write(b"after")
            res["then"] = store.get(FNAME)
        except Exception as e:
            res["then"] = type(e).__name__
        await c.quit()
        await server.close()
        return res

    for (backend, verb, off, payload, passive, bs), m in zip(cases, mo):
        ctx.case(("missing_restart", backend, verb, off, payload, passive, bs))
        ctx.traces_impl += 1
        base = None
        if backend != "memory":
            TMP_ROOT.mkdir(parents=True, exist_ok=True)
            base = TMP_ROOT / f"c01-{os.getpid()}-{random.getrandbits(48):012x}"
            base.mkdir()
        try:
            res = simnet.run(lambda net: one(net, backend, base, verb, off, payload, passive, bs))
        finally:
            if base is not None:
                shutil.rmtree(base, ignore_errors=True)
        rep = {"backend": backend, "verb": verb, "offset": off, "payload": payload.hex(), "passive": passive, "block_size": bs}
        # model: (0 (1)) = 451 and still missing, (0 (0 bytes)) = stored
        model_refused = m[0] == 0 and m[1][0] == 1
        model_bytes = None if model_refused or m[0] != 0 else bytes(m[1][1])
        impl = (res["refused"] != "no", res["after"])
        if impl != (model_refused, model_bytes):
            ctx.disagree("missing_restart", rep, [model_refused, None if model_bytes is None else model_bytes.hex()], [res["refused"], None if res["after"] is None else res["after"].hex()])
        if off:
            ok = res["refused"] == "451" and res["after"] is None and res["exists"] is False
        else:
            ok = res["refused"] == "no" and res["after"] == payload and res["exists"] is True
        if not ok or res["then"] != b"after":
            ctx.violation(
                f"REST {off} + {verb} on a missing file: expected " + ("451 and no file" if off else "the payload stored") + ", then a working session",
                {"key": f"c01-missing-file-restart-{backend}", "input": rep, "refused": res["refused"],
                 "after": None if res["after"] is None else res["after"].hex(), "exists": res["exists"],
                 "then": res["then"].hex() if isinstance(res["then"], bytes) else res["then"]},
            )
        if len(xcheck) < 96:
            xcheck.append((15, [MODES[VERB_MODE[verb]], off, [], ([payload] if payload else []) + [b""]], m))
    ctx.count("rest_plus_upload_on_missing_file", len(cases))


# --------------------------------------------------------------------------------------------
# (g) several files: sibling names, sequential and overlapping uploads
NAME_FAMILY = ["x.csv", "x.json", "x.part", "x", "x.tar.gz", "x.tar", "y.csv", "x.csv.part"]


def _backend_files(store, backend, base):
    """name -> bytes of EVERYTHING in the served directory, read from the backend directly"""
    if backend == "memory":
        root = store._mem().get_node(pathlib.PurePosixPath("/"))
        return {n.name: (n.content.getvalue() if n.type == "file" else None) for n in root.content}
    return {p.name: (p.read_bytes() if p.is_file() else None) for p in base.iterdir()}


async def _files_session(net, backend, base, init, steps):
    """steps: ("up", session, verb, name, offset, payload) | ("pair", (verb, name, payload), (verb, name, payload), schedule, first_to_finish)
    returns a list of observations: after every completion reply the whole backend directory"""
    server = aioftp.Server([aioftp.User(base_path=base if base is not None else "/", home_path="/")], path_io_factory=BACKENDS[backend], block_size=3)
    await server.start("127.0.0.1", 2121)
    store = Store(backend, server, base)
    for name, content in init.items():
        store.put(name, content)
    cl = []
    for _ in range(2):
        c = aioftp.Client(passive_commands=("epsv",))
        await c.connect("127.0.0.1", 2121)
        await c.login()
        cl.append(c)
    obs = []

    def snap(tag, flux=()):
        files = _backend_files(store, backend, base)
        obs.append((tag, {k: v for k, v in files.items() if k not in flux}))

    for st in steps:
        try:
            if st[0] == "up":
                _, who, verb, name, off, payload = st
                factory = cl[who].upload_stream if verb == "STOR" else cl[who].append_stream
                async with factory(name, offset=off) as stream:
                    for i in range(0, len(payload), 4):
                        await stream.write(payload[i : i + 4])
                snap("226")
            else:
                _, a, b, sched, first = st
                streams = []
                for who, (verb, name, payload) in enumerate((a, b)):
                    factory = cl[who].upload_stream if verb == "STOR" else cl[who].append_stream
                    streams.append(await factory(name))
                left = [list(a[2][i : i + 2] for i in range(0, len(a[2]), 2)), list(b[2][i : i + 2] for i in range(0, len(b[2]), 2))]
                for turn in list(sched) + [0] * len(left[0]) + [1] * len(left[1]):
                    if left[turn]:
                        await streams[turn].write(left[turn].pop(0))
                        await asyncio.sleep(0.01)  # let the server take the block
                order = [first, 1 - first]
                await streams[order[0]].finish()
                snap("226", flux=((a, b)[order[1]][1],))  # the other upload is still in flight: its name is in flux
                await streams[order[1]].finish()
                snap("226")
        except Exception as e:  # an exception of the implementation is an observation
            obs.append(("exception", type(e).__name__ + ":" + str(e)[:70]))
            snap("after-exception")
    for c in cl:
        try:
            await c.quit()
        except Exception:
            c.close()
    await server.close()
    return obs


def files_expected(init, steps):
    """plain-Python oracle: the directory after every completion reply (None for a name in flux)"""
    fsd = dict(init)
    out = []
    for st in steps:
        if st[0] == "up":
            _, _who, verb, name, off, payload = st
            fsd[name] = py_spec_store(verb, off, payload, fsd.get(name))
            out.append(dict(fsd))
        else:
            _, a, b, _sched, first = st
            order = [(a, b)[first], (a, b)[1 - first]]
            fsd[order[0][1]] = py_spec_store(order[0][0], 0, order[0][2], fsd.get(order[0][1]))
            out.append({k: v for k, v in fsd.items() if k != order[1][1]})
            fsd[order[1][1]] = py_spec_store(order[1][0], 0, order[1][2], fsd.get(order[1][1]))
            out.append(dict(fsd))
    return out


def run_files_history(backend, init, steps):
    base = None
    if backend != "memory":
        TMP_ROOT.mkdir(parents=True, exist_ok=True)
        base = TMP_ROOT / f"c01-{os.getpid()}-{random.getrandbits(48):012x}"
        base.mkdir()
    try:
        return simnet.run(lambda net: asyncio.wait_for(_files_session(net, backend, base, init, steps), VIRTUAL_BUDGET), wall_timeout=60)
    except BaseException as e:
        if isinstance(e, (KeyboardInterrupt, SystemExit)):
            raise
        return [("exception", "no verdict within the budget (" + type(e).__name__ + ":" + str(e)[:60] + ")")]
    finally:
        if base is not None:
            shutil.rmtree(base, ignore_errors=True)


def files_verdict(init, steps, obs):
    want = files_expected(init, steps)
    got = [o[1] for o in obs if o[0] == "226"]
    ok = got == want and not any(o[0] == "exception" for o in obs)
    return ok, got, want


def _hexfs(d):
    return {k: (v.hex() if isinstance(v, bytes) else v) for k, v in sorted(d.items())}


def files_stream(ctx, xcheck, scale):
    """(g) histories of uploads over a family of SIBLING names (same stem, different last suffix, a stored
    `<stem>.part`, names that extend each other), by one session after the other and by two sessions at
    once; after every completion reply the whole directory is read from the backend: every file
    acknowledged so far still has its bytes, the new one has exactly its own, nothing else exists"""
    rng = ctx.rng
    rb = lambda lo, hi: bytes(rng.randrange(256) for _ in range(rng.randint(lo, hi)))
    hist = []
    fixed = [
        ({"x.part": b"kept"}, [("up", 0, "STOR", "x.csv", 0, b"csv-bytes")]),
        ({}, [("up", 0, "STOR", "x.part", 0, b"acknowledged"), ("up", 1, "STOR", "x.json", 0, b"{}"), ("up", 0, "STOR", "x", 0, b"plain")]),
        ({}, [("pair", ("STOR", "x.csv", b"aaaaaaaaaa"), ("STOR", "x.json", b"bbbbbbbbbbbb"), [0, 1, 0, 1, 1, 0], 0)]),
        ({"x.csv": b"old", "x.tar": b"tar"}, [("pair", ("STOR", "x.tar.gz", b"1234567"), ("APPE", "x.tar", b"89"), [1, 0, 0], 1), ("up", 0, "STOR", "x.csv", 2, b"Z")]),
    ]
    for init, steps in fixed:
        hist.append((init, steps))
    for _ in range(26 * scale):
        init = {n: rb(0, 8) for n in rng.sample(NAME_FAMILY, rng.randint(0, 4))}
        steps, known = [], set(init)
        for _ in range(rng.randint(1, 4)):
            if rng.random() < 0.6:
                name = rng.choice(NAME_FAMILY)
                verb = rng.choice(["STOR", "STOR", "APPE"])
                off = rng.choice([0, 0, 1, 5]) if name in known else 0  # a restart offset needs an existing target
                steps.append(("up", rng.randrange(2), verb, name, off, rb(0, 10)))
                known.add(name)
            else:
                na, nb = rng.sample(NAME_FAMILY, 2)
                steps.append(("pair", (rng.choice(["STOR", "STOR", "APPE"]), na, rb(0, 10)), (rng.choice(["STOR", "APPE"]), nb, rb(0, 10)),
                              [rng.randrange(2) for _ in range(rng.randint(0, 8))], rng.randrange(2)))
                known.update((na, nb))
        hist.append((init, steps))
    idx = {n: i for i, n in enumerate(NAME_FAMILY)}
    enc_fs = lambda d: [[idx[k], v] for k, v in d.items()]
    enc_up = lambda verb, name, off, payload: [idx[name], MODES[VERB_MODE[verb]], off, payload]
    # model: the history as sequential uploads (fn 16); each pair additionally through fs_overlap (fn 17)
    seq_calls, pair_calls = [], []
    for init, steps in hist:
        ups = []
        for st in steps:
            if st[0] == "up":
                ups.append(enc_up(st[2], st[3], st[4], st[5]))
            else:
                order = [(st[1], st[2])[st[4]], (st[1], st[2])[1 - st[4]]]
                ups += [enc_up(o[0], o[1], 0, o[2]) for o in order]
        seq_calls.append((16, [enc_fs(init), ups]))
    mo = ctx.model(seq_calls)
    n_pairs = n_sibling = 0
    for k, ((init, steps), m) in enumerate(zip(hist, mo)):
        backend = "memory" if k % 3 else "pathio"
        ctx.case(("files", backend, repr(sorted(_hexfs(init).items())), repr(steps)))
        ctx.traces_impl += 1
        obs = run_files_history(backend, init, steps)
        ok, got, want = files_verdict(init, steps, obs)
        rep = {"key": "c01-acknowledged-file-lost-or-corrupted", "backend": backend, "init": _hexfs(init),
               "steps": [[x.hex() if isinstance(x, bytes) else ([y.hex() if isinstance(y, bytes) else y for y in x] if isinstance(x, tuple) else x) for x in st] for st in steps]}
        final_impl = got[-1] if got else None
        model_final = None
        if m[0] == 0:
            model_final = {n: bytes(e[0]) for n, e in zip(NAME_FAMILY, m[1]) if e}
        if final_impl != model_final:
            ctx.disagree("files", rep, None if model_final is None else _hexfs(model_final), None if final_impl is None else _hexfs(final_impl))
        if not ok:
            bad = next((i for i, (g, w) in enumerate(zip(got, want)) if g != w), min(len(got), len(want)))
            ctx.violation(
                "after a completion reply a file acknowledged earlier (or the new one) does not hold its bytes, or a stray file exists",
                dict(rep, first_bad_reply=bad, directory=[_hexfs(g) for g in got[bad : bad + 1]], expected=[_hexfs(w) for w in want[bad : bad + 1]],
                     exceptions=[o[1] for o in obs if o[0] == "exception"]),
            )
        n_pairs += sum(1 for st in steps if st[0] == "pair")
        names = [st[3] if st[0] == "up" else None for st in steps] + [x for st in steps if st[0] == "pair" for x in (st[1][1], st[2][1])] + list(init)
        stems = [n.rsplit(".", 1)[0] for n in names if n and "." in n]
        if len(set(stems)) < len(stems):
            n_sibling += 1
        if len(xcheck) < 99:
            xcheck.append((16, seq_calls[k][1], m))
    ctx.count("file_histories", len(hist))
    ctx.count("file_histories_overlapping_pairs", n_pairs)
    ctx.count("file_histories_with_names_sharing_a_stem", n_sibling)


# --------------------------------------------------------------------------------------------
# (h) the REAL transport: real Server + Client over 127.0.0.1, real-file backends, files larger than the socket buffers
REAL_BACKENDS = ("memory", "pathio", "asyncpathio")
MIB = 1 << 20


def gen_real_cases(ctx):
    """what simnet cannot exhibit: asyncio's selector transports (zero-copy write buffers, loop.sendfile,
    partial send()), the kernel's socket buffers, os-level file objects behind PathIO / AsyncPathIO (file
    position vs. fd offset).  Dimensions: server backend x verb x restart offset (0 / 1 / mid / block
    boundaries / size-1 / size / beyond) x size (below a block, one block, several blocks + tail, several MiB)
    x client file system (memory / PathIO / AsyncPathIO) x a receiver slower than the sender (throttled)."""
    rng = ctx.rng
    thorough = ctx.tier == "thorough"
    cases = []

    def add(label, **kw):
        kw["driver"] = "tcp"
        kw["_plabel"] = label
        kw.setdefault("observe_before", None)
        cases.append(kw)

    sizes = [("real_small", 10), ("real_block", 8192), ("real_multi", 3 * 8192 + 123)]
    for backend in REAL_BACKENDS:
        for label, size in sizes:
            gen = [rng.randrange(10**9), size]
            offs = sorted({0, 1, size // 2, size - 1, size, size + 5} | ({8191, 8192, 8193} if size > 8193 else set()))
            for off in offs:
                add(label, backend=backend, verb="RETR", payload_gen=gen, offset=off, passive=rng.choice(["epsv", "pasv"]),
                    cblock=rng.choice([None, None, 1000, 8192]))
            # uploads at a restart offset onto an existing file / appended / fresh
            up = gen_payload(rng.randrange(10**9), max(1, size // 2))
            old = gen_payload(rng.randrange(10**9), size)
            for verb, off, o in (("STOR", 0, None), ("STOR", 0, old), ("STOR", 1, old), ("STOR", size // 2, old), ("STOR", size, old),
                                 ("STOR", size + 5, old), ("APPE", 0, old), ("APPE", 3, old), ("APPE", 0, None)):
                add(label, backend=backend, verb=verb, payload=up, offset=off, old=o,
                    chunks=rng.choice([[], [rng.randint(1, 5000)], [8192], [1, 8191, 2]]))
            # the high level calls, the client's files on a real / in-memory file system
            for cfs in ("pathio", "asyncpathio", "memory"):
                add(label, backend=backend, verb="UPLOAD", payload_gen=gen, client_fs=cfs, old=rng.choice([None, old]))
                add(label, backend=backend, verb="DOWNLOAD", payload_gen=gen, client_fs=cfs, local_old=rng.choice([None, b"older local content"]))
    # files of several MiB with pairwise distinct blocks, and a receiver slower than the sender: the sender's
    # transport has to queue (partial send(), write buffer between the water marks) while the block loop goes on
    big = 8 * MIB + 4321
    big_up = 12 * MIB + 4321  # the kernel absorbs 4-7 MB on loopback before send() turns partial
    slow = 6 * MIB  # bytes per second the receiver accepts
    # (a client on AsyncPathIO reads through the executor and is barely faster than the throttled receiver: its transport
    # queues late or not at all; the PathIO / memory clients queue after the first ~4 MB every time)
    combos = [("memory", "pathio"), ("pathio", "memory"), ("asyncpathio", "asyncpathio")] + (
        [("memory", "asyncpathio"), ("pathio", "pathio"), ("asyncpathio", "pathio")] if thorough else [])
    for backend, cfs in combos:
        add("real_big", backend=backend, verb="UPLOAD", payload_gen=[rng.randrange(10**9), big_up], client_fs=cfs, throttle={"server_read": slow})
        add("real_big", backend=backend, verb="DOWNLOAD", payload_gen=[rng.randrange(10**9), big], client_fs=cfs, throttle={"client_read": slow})
    # how the caller consumes the download stream (consumption programs), on real sockets
    prng = random.Random(rng.randrange(10**9))
    for backend in REAL_BACKENDS:
        gen_small, gen_mid = [prng.randrange(10**9), 3107], [prng.randrange(10**9), 300000 + 77]
        progs = gen_consume_programs(prng, 512, 0.03, 3 if thorough else 1)
        for prog in progs if thorough else [progs[i] for i in (1, 3, 5, 7, 8, 10, 11)]:
            add("real_consume", backend=backend, verb="RETR", payload_gen=gen_small, offset=prng.choice([0, 0, 700]), consume=prog)
        for prog in gen_consume_programs(prng, 8192, 0.03, 0)[1:4 if thorough else 3]:
            add("real_consume", backend=backend, verb="RETR", payload_gen=gen_mid, offset=prng.choice([0, 8193]), consume=prog)
    gen = [rng.randrange(10**9), 2 * MIB + 17]
    for backend in REAL_BACKENDS:
        add("real_2mib", backend=backend, verb="RETR", payload_gen=gen, offset=rng.choice([1, MIB, 2 * MIB + 16]), cblock=rng.choice([None, 8192, 65536]))
        add("real_2mib", backend=backend, verb="STOR", payload=gen_payload(gen[0] + 1, MIB + 5), offset=MIB - 3, old=gen_payload(*gen), chunks=[rng.choice([8192, 50000, 1 << 18])])
    return cases


def real_stream(ctx, xcheck):
    rng = ctx.rng
    cases = gen_real_cases(ctx)
    t0 = time.time()
    results = []
    for case in cases:
        res = run_any({"driver": "tcp", **{k: v for k, v in case.items() if not k.startswith("_")}})
        ctx.traces_impl += 1
        res["seg_up"], res["seg_down"] = [], []  # the kernel segments; the model is asked for "any segmentation"
        results.append(res)
    model_in, idx = [], []
    for i, case in enumerate(cases):
        c = case_defaults(case)
        if max(len(c["old"] or b""), c["offset"]) + len(c["payload"]) >= BIG:
            continue  # beyond the size the extracted model handles (unary lengths): property oracle only
        idx.append(i)
        if c["verb"] in ("STOR", "APPE", "UPLOAD"):
            model_in.append((3, model_stor_args(c, [], rng)))
        else:
            model_in.append((4, model_retr_args(c, [], rng)))
    model_out = dict(zip(idx, ctx.model(model_in)))
    for i, (case, res) in enumerate(zip(cases, results)):
        c = case_defaults(case)
        ctx.case(("real", repr(sorted(jsonable({k: v for k, v in c.items() if not k.startswith("_")}).items()))))
        ctx.count("real_verb_" + c["verb"])
        ctx.count("real_backend_" + c["backend"])
        ctx.count("real_size_" + case["_plabel"])
        if c["verb"] in ("UPLOAD", "DOWNLOAD"):
            ctx.count("real_client_fs_" + c["client_fs"])
        if c["throttle"]:
            ctx.count("real_slow_receiver")
        if c["consume"] is not None:
            ctx.count("real_" + consume_label(c["consume"]))
        if i not in model_out:
            ctx.count("real_cases_beyond_model_size_oracle_only")
        n_exist = len(c["payload"]) if c["verb"] in ("RETR", "DOWNLOAD") else len(c["old"] or b"")
        ctx.count("real_" + classify_offset(c["offset"], n_exist))
        check_case(ctx, case, res, model_out.get(i), stream="real-loopback")
    ctx.count("real_loopback_cases", len(cases))
    ctx.extra["real_loopback_wall_s"] = round(time.time() - t0, 1)


# --------------------------------------------------------------------------------------------
# (i) path-io FILE objects consumed by programs: AsyncPathIOContext.iter_by_block / read on all three backends
FILE_BUDGET = 30  # wall seconds for one file case (real event loop, executor jobs for AsyncPathIO)


async def _file_consume(backend, root, payload, offset, prog):
    pio = CLIENT_FS[backend]()
    path = pathlib.PurePosixPath("/f.bin") if backend == "memory" else root / "f.bin"
    async with pio.open(path, mode="wb") as f:
        await f.write(payload)
    async with pio.open(path, mode="rb") as f:
        if offset:
            await f.seek(offset)
        return await consume_program(f, prog)


def run_file_consume(backend, payload, offset, prog, budget=None):
    """one path-io file of `payload`, opened 'rb', positioned at `offset`, consumed by `prog`; the bytes consumed, or
    {"error": ...} (an exception or no verdict within the budget is an observation)"""
    import tempfile

    root = pathlib.Path(tempfile.mkdtemp(prefix="c01-file-"))
    try:
        return asyncio.run(asyncio.wait_for(_file_consume(backend, root, payload, offset, prog), budget or FILE_BUDGET))
    except BaseException as e:
        if isinstance(e, (KeyboardInterrupt, SystemExit)):
            raise
        return {"error": type(e).__name__ + ":" + str(e)[:80], "timeout": isinstance(e, (TimeoutError, asyncio.TimeoutError))}
    finally:
        shutil.rmtree(root, ignore_errors=True)


def run_file_consume_twice(backend, payload, offset, prog):
    got = run_file_consume(backend, payload, offset, prog)
    if isinstance(got, dict) and got.get("timeout"):
        # real clock (executor threads): a correct run on a loaded machine may exceed the budget; repeated once, generously
        got = run_file_consume(backend, payload, offset, prog, FILE_BUDGET * 4)
    return got


def file_consume_verdict(payload, offset, got):
    want = payload[offset:]
    return (not isinstance(got, dict)) and got == want, want


def file_consume_stream(ctx, xcheck):
    """a file read through the path-io layer (what Client.upload()'s source side and the server's RETR use): the concatenation of
    everything a consumption program takes from ONE open file object = the bytes of the file from the position on"""
    prng = random.Random(ctx.rng.randrange(10**9))
    thorough = ctx.tier == "thorough"
    n = 0
    t0 = time.time()
    for backend in REAL_BACKENDS:
        for size, B in ((37, 3), (3107, 512)) + (((70000, 8192),) if thorough else ()):
            payload = prng.randbytes(size)
            for prog in gen_consume_programs(prng, B, 0.01, 6 if thorough else 3, stream=False):
                offset = prng.choice([0, 0, 1, size // 2, size, size + 3])
                got = run_file_consume_twice(backend, payload, offset, prog)
                ctx.traces_impl += 1
                n += 1
                ctx.case(("file-consume", backend, size, offset, repr(prog)))
                ctx.count("file_consume_backend_" + backend)
                ctx.count("file_" + consume_label(prog))
                ok, want = file_consume_verdict(payload, offset, got)
                if not ok:
                    rep = {"key": "c01-file-consumed-differs", "file_consume": {"backend": backend, "payload_gen": None, "payload": {"hex": payload.hex()},
                                                                                "offset": offset, "consume": prog}}
                    if isinstance(got, dict):
                        rep["error"] = got["error"]
                        ctx.violation(f"path-io file ({backend}) consumed by a program: {got['error']}", rep)
                    else:
                        rep.update(consumed_len=len(got), expected_len=len(want), first_difference_at=first_difference(got, want),
                                   consumed=got.hex()[:200], expected=want.hex()[:200])
                        ctx.violation(f"path-io file ({backend}): the bytes consumed from one open file object differ from the file's content", rep)
    ctx.count("file_consume_cases", n)
    ctx.extra["file_consume_wall_s"] = round(time.time() - t0, 1)


def correspondence(ctx, scale=None):
    thorough = ctx.tier == "thorough"
    scale = scale or (8 if thorough else 1)
    ctx.extra["rule"] = (
        "streams: (a) random (offset, data, old) incl. boundary offsets for write_at vs io.BytesIO and a real r+b file, open modes "
        "wb/ab/r+b on disk and MemoryPathIO; (b) random segment lists x arrival schedules x block sizes for the read trace vs a real "
        "asyncio.StreamReader, random (content, position, block) vs BytesIO/file reads; (c) scripted read traces (conforming or "
        "with an empty read before EOF) through the real AsyncStreamIterator; (d) real Server+Client sessions on simnet: payload "
        "class (empty, 1, bs-1, bs, bs+1, multi-block, all 256 values, CR/LF/NUL/IAC runs, reply-like text) x offset (0, inside, at "
        "end, beyond end) x verb (upload_stream, append_stream, download_stream, upload(), download()) x server block size (1,3,4,7,"
        "64,default) x client chunking x backend (MemoryPathIO, PathIO, AsyncPathIO, buffering slow-close) x EPSV/PASV x throttles "
        "x latency x mid-transfer stalls x segmentation (every split of payloads up to 5-6 bytes; byte-by-byte; random) on data and control channels x "
        "pre-existing content (missing, shorter, equal, longer); (e) sequences over REST n / TYPE / NOOP / RETR / STOR / APPE / refused transfers (550 missing, 550 permission, 425 no data "
        "connection) through ONE passive listener, transfers anywhere and back to back (10 fixed + 50 random) vs transfer_trace and the "
        "plain-Python offset oracle; every session case of (d) additionally draws who stats + lists (MLST, MLSD, LIST) the target BEFORE "
        "the transfer (nobody / the transferring session / another session / both), and both sessions do so AFTER the completion reply; (f) REST n + STOR/APPE on a missing file: 3 backends x 2 verbs x offsets "
        "(1, 5, 0) x 3 payloads; (g) 4 fixed + 26 random upload histories over 8 sibling names (same stem, different last suffix, a stored <stem>.part), "
        "single uploads and overlapping pairs with random write interleavings, memory and PathIO, whole directory compared after every 226; "
        "throttle configurations include the limits 0 (unlimited) and 1 in every scope; observers (another user: MLST + MLSD + LIST every 0.4/0.7 "
        "virtual s) DURING multi-block transfers slowed to one block per second, on memory / PathIO / AsyncPathIO / buffering backends; backends "
        "whose close() fails after a partial flush (buffering and real-file spy, limit 12 bytes) x sizes around the limit; (b2) "
        "timed read traces: 0-6 segments at non-decreasing instants (gaps 0..1000) x scripted wait delays (0..5000) x block size, real "
        "ThrottleStreamIO.read on the virtual clock vs timed_trace (blocks AND instants); (h) the session driver over REAL sockets "
        "(127.0.0.1:0, real event loop): server backend memory / PathIO / AsyncPathIO x client file system memory / PathIO / AsyncPathIO "
        "(fresh directory under the system temp dir) x download_stream at REST 0 / 1 / mid / 8191 / 8192 / 8193 / size-1 / size / size+5 x "
        "upload_stream / append_stream at REST 0 / 1 / mid / size / size+5 onto missing / existing content x upload() / download() x sizes 10, "
        "8192, 24699, 2 MiB + 17, and files of 8-12 MiB of pairwise distinct random blocks moved with upload() / download() towards a "
        "receiver throttled to 6 MiB/s (the sender's transport has to queue: partial send(), write buffer between the water marks); "
        "byte equality with the plain-Python oracle for all, with the model for everything below 40 000 bytes; never a timing assertion; "
        "consumption programs (how the CALLER consumes what it is handed): 10-11 fixed + random sequences of [iter_by_block(n) loop left after k "
        "blocks | resume | read(k) | readline | iter_by_line x k | pause] ended by read(), n around the block size, on the download stream on simnet "
        "(3 sizes x backends x segmentations x latency x REST offset), on real sockets (3 backends, 3107 B and 300 077 B) and on one open path-io file "
        "object (MemoryPathIO / PathIO / AsyncPathIO, seek position 0 / 1 / mid / size / beyond); oracle: concatenation of everything consumed = the exact bytes. A case "
        "is non-trivial when its full input tuple is distinct (hash); every session case moves real bytes through the real code."
    )
    xcheck = []
    pure_streams(ctx, xcheck, scale)
    session_stream(ctx, xcheck, scale, reps=6 if thorough else 1)
    offset_stream(ctx, xcheck)
    missing_restart_stream(ctx, xcheck)
    files_stream(ctx, xcheck, scale)
    real_stream(ctx, xcheck)
    file_consume_stream(ctx, xcheck)
    ok, out = core.vm_crosscheck(EXTRACT, xcheck[:100])
    ctx.extra["vm_compute_crosscheck"] = {"cases": len(xcheck[:100]), "agree": ok}
    if not ok:
        ctx.obligation_broken("extraction-crosscheck", out)
    leftovers = [p for p in TMP_ROOT.glob("c01-*")] if TMP_ROOT.exists() else []
    for p in leftovers:
        shutil.rmtree(p, ignore_errors=True)


def search(ctx):
    """failing-input search: the oracle ran on every implementation output above; when an
    obligation or the tie is broken and nothing violated the oracle yet, widen once."""
    if ctx.violations or ctx.tier == "thorough" or ctx.exe is None:
        return
    try:
        xcheck = []
        session_stream(ctx, xcheck, 3)
    except Exception as e:
        ctx.notes.append(f"search aborted: {e!r}")


def replay(ctx, data):
    """re-run one recorded case on the implementation; True when the property holds on it"""
    r = data.get("replay", {})
    if "steps" in r and "init" in r:
        unhex = lambda x: bytes.fromhex(x) if isinstance(x, str) and x != "" and all(c in "0123456789abcdef" for c in x) and len(x) % 2 == 0 else (b"" if x == "" else x)
        init = {k: bytes.fromhex(v) for k, v in r["init"].items()}
        steps = []
        for st in r["steps"]:
            if st[0] == "up":
                steps.append(("up", st[1], st[2], st[3], st[4], bytes.fromhex(st[5])))
            else:
                steps.append(("pair", (st[1][0], st[1][1], bytes.fromhex(st[1][2])), (st[2][0], st[2][1], bytes.fromhex(st[2][2])), list(st[3]), st[4]))
        obs = run_files_history(r["backend"], init, steps)
        ok, got, want = files_verdict(init, steps, obs)
        print("steps:", steps)
        print("observed:", [_hexfs(g) for g in got], [o for o in obs if o[0] == "exception"])
        print("expected:", [_hexfs(w) for w in want])
        return ok
    if "file_consume" in r:
        fc = r["file_consume"]
        payload = bytes.fromhex(fc["payload"]["hex"])
        got = run_file_consume_twice(fc["backend"], payload, fc["offset"], fc["consume"])
        ok, want = file_consume_verdict(payload, fc["offset"], got)
        print("program:", fc["consume"], "backend:", fc["backend"], "offset:", fc["offset"])
        print("consumed:", got if isinstance(got, dict) else (len(got), got.hex()[:120]))
        print("expected:", (len(want), want.hex()[:120]))
        return ok
    if "seq" in r:
        seq = [tuple(x) for x in r["seq"]]
        obs = run_offset_seq(seq)
        ok, got, want = offset_verdict(seq, obs)
        print("sequence:", seq)
        print("observed:", [[x.hex() if isinstance(x, bytes) else x for x in o] for o in obs])
        print("expected:", [[k, v.hex() if isinstance(v, bytes) else v] for k, v in want])
        return ok
    if "case" not in r:
        print("replay payload:", data)
        return False
    case = unjson(r["case"])
    res = run_any(case)
    c = case_defaults(case)
    verb, payload, off, old = c["verb"], c["payload"], c["offset"], c["old"]
    print("result:", {k: (v.hex()[:120] if isinstance(v, bytes) else v) for k, v in res.items() if k not in ("seg_up", "seg_down")})
    if (res["error"] and "451" in res["error"] and c["backend"] in CLOSE_FAULT_BACKENDS and verb in ("STOR", "APPE", "UPLOAD")
            and len(py_spec_store("STOR" if verb in ("STOR", "UPLOAD") else "APPE", off, payload, old)) > CLOSE_LIMIT):
        print("the backend's close() failed and the upload was answered 451: no positive completion reply, the property holds")
        return True
    if res["error"]:
        return False
    if verb in ("STOR", "APPE", "UPLOAD"):
        want = py_spec_store("STOR" if verb in ("STOR", "UPLOAD") else "APPE", off, payload, old)
        ok = res["stored"] == want
        final = want
    else:
        want = py_spec_retr(off, payload)
        ok = res["received"] == want and res["stored"] == payload
        final = payload
    print("expected:", want.hex()[:120])
    sizes_ok = all((res.get(who) or {}).get(k) == len(final) for who in ("after_same", "after_other") for k in ("stat", "mlsd", "list"))
    return ok and sizes_ok and res["stat_size"] == len(final) and res["list_size"] == len(final) and res["second_retr"] == final
